#!/bin/sh
# tools/try_mutant.sh <patch.diff> <PROP> [more ./check args]
# Applies a patch to a scratch worktree of /repo HEAD and runs one check against it.
set -u
patch="$1"; prop="$2"; shift 2
here="$(cd "$(dirname "$0")/.." && pwd)"
wt="$(mktemp -d /tmp/try-XXXXXX)"; rmdir "$wt"
git -C /repo worktree add --detach "$wt" HEAD -q || exit 9
if ! git -C "$wt" apply "$patch"; then echo "PATCH DOES NOT APPLY"; git -C /repo worktree remove --force "$wt"; exit 9; fi
out="$wt.out"; mkdir -p "$out"
VERIF_REPO="$wt" VERIF_OUT="$out" "$here/check" "$prop" "$@" > "$out/log" 2>&1
rc=$?
echo "exit=$rc"
grep -E "^VIOLATION|^ +[0-9]+  |^VACUOUS|^$prop tier" "$out/log" | head -${TRY_LINES:-12}
git -C /repo worktree remove --force "$wt"; rm -rf "$out"
exit $rc
