#!/bin/sh
# tools/run_all.sh [tier]  - run every registered check once (sequentially), report status + time
tier="${1:-quick}"
cd "$(dirname "$0")/.."
for p in $(/venv/bin/python -c "import json; print(' '.join(c['property_id'] for c in json.load(open('MANIFEST.json'))['checks']))"); do
  s=$(date +%s)
  ./check $p --tier $tier > /tmp/runall_$p.log 2>&1
  rc=$?
  e=$(date +%s)
  echo "$p exit=$rc wall=$((e-s))s $(grep -c '^VIOLATION' /tmp/runall_$p.log) violations, $(grep -c '^KNOWN-FINDING' /tmp/runall_$p.log) known"
done
tools/validate.py | tail -3
