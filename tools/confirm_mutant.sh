#!/bin/sh
# tools/confirm_mutant.sh <srcdir with patch.diff demo.py [notes.md]> <seed-id> <PROP> "<needs>"
# Confirms a property-breaking change independently: demo fails with it / passes without it,
# the repository's own test-suite still passes with it; then stores it as /verif/seeded/<seed-id>/.
set -u
src="$1"; sid="$2"; prop="$3"; needs="$4"
here="$(cd "$(dirname "$0")/.." && pwd)"
wt="$(mktemp -d /tmp/confirm-XXXXXX)"; rmdir "$wt"
git -C /repo worktree add --detach "$wt" HEAD -q || exit 9
cp "$src/demo.py" "$wt/_demo.py"
( cd "$wt" && PYTHONPATH="$wt/Lib" PYTHONDONTWRITEBYTECODE=1 timeout 600 /venv/bin/python _demo.py > "$wt.clean.out" 2>&1 ); clean_rc=$?
if ! git -C "$wt" apply "$src/patch.diff"; then echo "$sid: PATCH DOES NOT APPLY"; git -C /repo worktree remove --force "$wt"; rm -f "$wt".*.out; exit 9; fi
( cd "$wt" && PYTHONPATH="$wt/Lib" PYTHONDONTWRITEBYTECODE=1 timeout 600 /venv/bin/python _demo.py > "$wt.mut.out" 2>&1 ); mut_rc=$?
rm -f "$wt/_demo.py"
if [ -n "${CONFIRM_TESTS:-}" ]; then tests="$CONFIRM_TESTS"; else tests="$( cd "$wt" && PYTHONPATH="$wt/Lib" /venv/bin/python -m pytest -q -p no:cacheprovider --timeout=900 Tests -n ${CONFIRM_N:-8} 2>&1 | tail -1 )"; fi
git -C /repo worktree remove --force "$wt"
echo "$sid: demo clean rc=$clean_rc, demo mutated rc=$mut_rc, tests: $tests"
if echo "$tests" | grep -Eq '(^|[ ,])[0-9]+ (failed|errors?)'; then ok=0; else case "$tests" in *"4704 passed"*) ok=1;; *) ok=0;; esac; fi
if [ "$clean_rc" = 0 ] && [ "$mut_rc" != 0 ] && [ "$mut_rc" != 124 ] && [ "$ok" = 1 ]; then
  d="$here/seeded/$sid"; mkdir -p "$d"
  cp "$src/patch.diff" "$d/patch.diff"; cp "$src/demo.py" "$d/demo.py"; [ -f "$src/notes.md" ] && cp "$src/notes.md" "$d/notes.md"
  /venv/bin/python - "$d" "$prop" "$needs" "$tests" <<'PY'
import json, sys
d, prop, needs, tests = sys.argv[1:5]
json.dump({"property": prop, "needs_to_manifest": needs, "origin": "independent sub-agent given only the property text and a scratch worktree",
           "confirmed": {"demo_on_clean_tree": "exit 0", "demo_on_changed_tree": "exit != 0", "repository_tests_with_change": tests,
                         "how": "tools/confirm_mutant.sh: scratch worktree of /repo HEAD, patch applied with git apply, demo.py run before/after (cwd = worktree, PYTHONPATH = worktree/Lib), pytest Tests -n 8"},
           "caught_by": [], "missed_by": []}, open(d + "/meta.json", "w"), indent=1)
PY
  echo "$sid: CONFIRMED and stored"
else
  echo "$sid: NOT confirmed"; tail -5 "$wt.clean.out" "$wt.mut.out" 2>/dev/null
fi
rm -f "$wt".*.out
