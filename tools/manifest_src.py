HOOK_COMMITS = []
ENGINES = [
    {"name": "kernel", "path": "mc/kernel.py", "serves_properties": ["C15"], "kind_free_text": "hand-written bounded exhaustive explorer: units enumerate a finite space (alphabet x bound), sharded over a fork pool; recorder counts evaluations/distinct cases/states/transitions/witnesses; replay files; known-findings triage"},
]
NOT_YET = {}
CHECKS = {
    "C15": {
        "level": "exploration",
        "technique": "exhaustive whole-domain enumeration of encoder/decoder pairs (bounded model checking of codecs, no sampling)",
        "text": "Every value of each codec's domain (all 65536 F2Dot14, all 255UShort, all base-128/uint32var below 2^21 plus every power-of-two boundary, every CFF/T2 integer in +-70000 plus boundaries, k*10^e reals, run-grammar point sets and delta vectors, all <=2-byte strings through eexec, every valid printable tag in thorough) is pushed through encode then decode and compared. For finite small domains this is a complete decision; for the others it is complete over the stated lattice.",
        "note": "Trusted: Python struct/array; the lattices are taken from the branch constants of the encoders. 16.16 values and reals away from the lattice are not visited.",
    },
}
