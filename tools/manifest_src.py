HOOK_COMMITS = []
ENGINES = [
    {"name": "kernel", "path": "mc/kernel.py", "serves_properties": ["C%02d" % i for i in range(1, 21)], "kind_free_text": "hand-written bounded exhaustive explorer: units enumerate a finite space (alphabet x bound), sharded over a fork pool; recorder counts evaluations/distinct cases/states/transitions/witnesses; replay files; known-findings triage"},
]
NOT_YET = {}
CHECKS = {
    "C06": {
        "level": "model_checking",
        "technique": "TLA+ model of the packing control loop checked exhaustively by TLC, with every path of the state graph replayed against the real BaseTTXConverter.compile (conformance); plus exhaustive size-grid / configuration-lattice enumeration of generated and corpus layout tables read back through HarfBuzz",
        "text": "(a) models/Repacker.tla states the PURE_FT / HB_FT / FT_FALLBACK machine; TLC enumerates all states for an answer budget of 6 (thorough 9) and checks the safety invariants; every maximal path of the dumped graph is replayed against the real compile loop with stubbed packers and must produce the same call log and result. (b) Ten families of generated tables with size knobs just below/at/above each 64k offset boundary x repacker {off, auto, required} x extension x compaction levels: every rule put in is read back through HarfBuzz, a failed packing must be OTLOffsetOverflowError, a second compile must shape identically. (c) every corpus GSUB/GPOS/GDEF x configuration lattice shapes all glyph sequences up to length 2-3 identically to the reference configuration.",
        "note": "Trusted: TLC 1.8, HarfBuzz 12.1 (shaper and hb.repack). The HB_FT <-> FT_FALLBACK cycle under an always-failing repacker is recorded as an observation (the property does not speak of termination).",
    },
    "C12": {
        "level": "exploration",
        "technique": "exhaustive enumeration of Type 2 programs from the operator grammar (zero/non-zero argument patterns, every operator form, blends, hints) and of whole-font transforms on all corpus CFF/CFF2 tables, against an independent TN5177 reference interpreter",
        "text": "All command sequences of rmoveto + <= 3 (thorough 4) path commands over every zero-pattern the specialiser inspects x width x preserveTopology x maxstack x generalizeFirst; every operator in every argument-count form, hint set-ups and blends; desubroutinize / remove_hints / remove_unused_subroutines / subset options / CFF<->CFF2 conversion / optimizeWidths on every corpus CFF table and on generated fonts with nested subroutines. The drawn path (reference interpreter oracles/t2ref.py, T2CharString.draw, and HarfBuzz on saved fonts), the advance width, the operand stack depth and the operator arities are compared before and after.",
        "note": "Trusted: oracles/t2ref.py (written from TN5177, shares no code with fontTools). Arithmetic/storage operators are outside the grammar.",
    },
    "C14": {
        "level": "model_checking",
        "technique": "breadth-first exploration of pen-protocol call prefixes (segment-pen and point-pen grammars over a small point lattice), every complete glyph fed to every adapter on a fresh instance, against an independent interpretation of the pen protocols",
        "text": "States are call prefixes of the pen grammars (open/closed contours, lines, cubic and quadratic segments with 0..3+ off-curves, off-curve-only contours, duplicate and coincident points, single points, components); each complete glyph goes through about 35 adapter configurations (segment<->point, recording, transform, reverse, rounding, filter, explicit closing line, TTGlyph(Point)Pen, T2CharStringPen, SVG path round trip, bounds/area pens, decomposing) and, in thorough, all ordered pairs of 11 stages. Oracles: exact call equality or the documented image, canonical geometry, exact Fraction area and its negation under reversal, independently computed extrema.",
        "note": "Trusted: oracles/c14_model.py (imports no fontTools), oracles/geom.py. Cu2Qu/Qu2Cu pens are C13's. The specializer's merging of back-tracking h/v lines is a recorded known finding.",
    },
    "C20": {
        "level": "fault_enumeration",
        "technique": "exhaustive fault enumeration: every truncation length, every header/directory byte x replacement value, every table x damage pattern, every attribute site x canary, every table compile failure point during save",
        "text": "Every prefix length of every small corpus font (boundary lengths of large ones) and every header/directory byte times five replacement values must open or fail with TTLibError and never return different table bytes; every table of every small font truncated to every length / bit-flipped with ignoreDecompileErrors must fall back to raw bytes that re-save unchanged; every (table, element, attribute) site of the corpus TTX files and every value position of fea/designspace/glif/plist/CFF blend gets each code-execution canary under an audit hook; path-direction probes for varLib.main, ttx -s/-g/-z, UFO contents; every table compile made to fail during save onto an existing file (str, PathLike, file object; sfnt/woff/woff2/TTC).",
        "note": "Trusted: sys.addaudithook monitor, oracles/c20_container.py (struct/zlib only). Decoders that loop for more than 4 CPU-s on a damaged count are counted as undecided. Save-after-fallback failures are recorded known findings (six call sites).",
    },
    "C02": {
        "level": "exploration",
        "technique": "exhaustive enumeration of table contents from run/shape grammars over boundary alphabets taken from the encoders' branch constants; compile -> decompile equality plus independent struct-only readers and HarfBuzz on the compiled bytes",
        "text": "For cmap (formats 0/2/4/6/12/13/14), hmtx/vmtx, glyf simple and composite glyphs, loca/padding, name, kern, post, OS/2, Coverage/ClassDef/SingleSubst/ValueRecord, tuple variation stores, gvar fonts, fvar/avar and COLR paint graphs, every content of the bounded grammars is compiled by the real compile(), read back by the real decompile() (object equality) and by independent readers written from the OpenType spec (oracles/c02_readers.py) and HarfBuzz.",
        "note": "Trusted: oracles/c02_readers.py (struct only), HarfBuzz 12.1. Tables without a generator (morx, bitmaps, Graphite, MultipleSubst/Ligature/PairPos preWrite) are covered only through C01/C03 on corpus data. cmap format 4 with U+FFFF mapped is a recorded known finding.",
    },
    "C13": {
        "level": "exploration",
        "technique": "exhaustive enumeration of cubic/quadratic curves on control-point lattices x tolerance set, with an exact maximum-deviation oracle (polynomial root finding, rational re-decision near the bound)",
        "text": "Every cubic with control points on the 3x3 (thorough 4x4) lattice, its scale/translation families, every ordered pair (thorough: triples) of an 81-curve sub-lattice, every quadratic spline of up to 4 segments, pen adapters and master lists built from them, across the tolerance set and all_quadratic/all_cubic. The oracle computes the true maximum same-parameter distance between each input piece and the output segment that replaces it (the measure the library documents), checks end points, equal segment counts across a joint conversion, and that ApproxNotFoundError is only raised when no candidate up to MAX_N fits.",
        "note": "Decides the property on the lattices and tolerance set only (the property quantifies over a continuous space). Trusted: numpy root finding, with results within 1e-6 of the bound re-decided in exact rational arithmetic.",
    },
    "C18": {
        "level": "exploration",
        "technique": "exhaustive enumeration of ordered font lists from a generated pool, merged and observed by HarfBuzz per character and per short string",
        "text": "Every ordered list of 2..3 (thorough 4) fonts from a pool built to force each merge decision (disjoint / identical-duplicate / different-duplicate characters, colliding glyph names, with and without GSUB/GPOS/GDEF, class kerning, contextual substitution, mark positioning, CFF) is merged, saved and reloaded. Every code point of the union must map to a glyph that looks and advances as in the first input supporting it, glyph names must be unique, mixed outline flavours must be rejected, and for inputs with a disjoint character set every string up to length 3 must shape as with that input alone (glyph identity by outline).",
        "note": "Trusted: HarfBuzz 12.1. Pool fonts share one units-per-em; table mixes outside the pool are not covered.",
    },
    "C04": {
        "level": "model_checking",
        "technique": "explicit enumeration of SFNTWriter / TTCollection call protocols (all tag sets, insertion orders, payload lengths, flavours) and of save configurations, judged by an independent spec reader (oracles/otspec.py)",
        "text": "The writer is driven as a protocol: every sequence of table insertions over tag sets of size <= 4, every permutation, payload-length products, for sfnt/WOFF/WOFF2 (with and without transforms), protocol errors, and TTC saves with and without sharing. Every corpus and generated font is saved under every configuration within the deviation bound (flavour x reorderTables x recalcBBoxes x glyf padding). An independent reader written from the OpenType/WOFF/WOFF2 specifications validates directory order, offsets, padding, checksums, search fields, WOFF/WOFF2 header arithmetic and recomputes every derived field (bboxes, maxp, hhea/vhea, metric counts, loca format) from the saved glyph data.",
        "note": "Trusted: otspec.py (struct/zlib/brotli only, never imports fontTools). CFF FontBBox is not recomputed; checkSumAdjustment is not demanded inside TTC members (void per spec).",
    },
    "C09": {
        "level": "model_checking",
        "technique": "exhaustive lattice enumeration against exact Fraction reference models, plus breadth-first exploration of VarStore builder/optimizer operation histories on the real objects",
        "text": "VariationModel on every master-location set of the lattices (1-3 axes), rebaseTent on every tent x limit x point of rational lattices, iup_delta/iup_delta_optimize against brute force over all 2^n subsets, and all OnlineVarStoreBuilder / optimize / subset_varidxes / prune_regions histories up to depth 4 (5 thorough) with every returned index evaluated through VarStoreInstancer: all compared with exact rational re-implementations written from the OpenType variations specification.",
        "note": "Trusted: oracles/c09_ref.py (pure Fractions, no fontTools). Lattice denominators <= 16; <= 3 axes; tents with a jump inside the range are outside the property's quantifier and only judged away from the jump.",
    },
    "C17": {
        "level": "exploration",
        "technique": "exhaustive enumeration of glyph-order permutations (whole symmetric group for small fonts, generators for large ones) and of units-per-em values, with a by-name differential oracle through HarfBuzz",
        "text": "Every permutation of the glyph order of small generated fonts covering glyf/CFF/CFF2/kern/GSUB/GPOS/GDEF/gvar/HVAR/MVAR, and rotation/reversal/transposition generators for corpus fonts, then save+reload; every font x new upem in {16,...,16384}. A by-glyph-name snapshot (outlines and advances at default and axis extremes, nominal glyphs, shaping of all short strings) taken with HarfBuzz must be unchanged (reorder) or scaled by the factor within the rounding budget (scale).",
        "note": "Trusted: HarfBuzz 12.1. Scaling budget: 0.5 per rounded quantity that is summed; heavy down-scaling that collapses point structure is compared on extents. CFF delta drift is a recorded known finding.",
    },
    "C19": {
        "level": "model_checking",
        "technique": "breadth-first exploration of GlyphSet / UFOWriter operation histories on real temporary directories against a dict model, plus exhaustive grammar enumeration of documents, names and axis maps",
        "text": "All histories of writeGlyph/deleteGlyph/writeContents/reopen/writeLayerInfo over a hostile name alphabet up to depth 3 (4 thorough) are executed on a real GlyphSet and compared with a dict model at every state (read-back, contents.plist vs directory, legality/length/case-uniqueness of file names); same for UFOWriter layers. userNameToFileName on every name sequence x affix lengths; designspace documents by deviation bound from a base document; GLIF records, fontinfo/kerning/groups/lib, UFO 1/2 up-conversion, plist value trees, all monotone axis maps on a lattice.",
        "note": "Trusted: the dict model and spec-derived expectations in oracles/c19_*.py; the local filesystem (tmpfs).",
    },
    "C03": {
        "level": "exploration",
        "technique": "exhaustive enumeration of font x dump-option lattice (deviation-bounded configurations) with byte-level round-trip oracle; exhaustive opcode/operand enumeration for instruction assembly",
        "text": "Every corpus and generated font is dumped with every configuration within the deviation bound (k<=1 quick, k<=2 thorough, full product on generated fonts) over splitTables, splitGlyphs, disassembleInstructions, bitmap format, newline convention and writeVersion, and with every single-table tables=/skipTables= selection; the dump is imported and must save to the same table bytes as the source object model. TrueType programs: every opcode and push form through bytecode <-> assembly <-> XML.",
        "note": "Free-text tables are compared on whitespace-collapsed canonical dumps when bytes differ (allowed by the property). Bitmap formats row/bitwise are only applied to EBDT (documented domain of ttx -z). Partial dumps are merged into the fully decoded source font (ttx -m semantics).",
    },
    "C16": {
        "level": "model_checking",
        "technique": "exhaustive exploration of operation histories (touch/save/saveXML/compile/edit sequences up to a depth bound) on the real TTFont against a clean-path reference, plus exhaustive pipeline x PYTHONHASHSEED x simulated-clock product in separate processes",
        "text": "All histories up to depth 3 (thorough 4) over an alphabet of table touches, save, saveXML, getTableData, ensureDecompiled and three edits are executed on real fonts in all three lazy modes; after every history the saved bytes and the TTX dump must equal those of the clean path (fresh load, same edits, one save), so any compile-time mutation or order dependence that leaks into later output is caught. Every pipeline (recompile, TTX, feaLib, subset, instancer, varLib.build, merge, TTC, WOFF/WOFF2) is run in separate processes under each enumerated hash seed and clock offset and the output digests compared.",
        "note": "Derived header fields are refreshed only for loaded tables, so the final observation loads all tables on both paths; hash seeds 0..3 (thorough 0..11) are enumerated, not all seeds; clock is simulated by shifting time.time().",
    },
    "C01": {
        "level": "model_checking",
        "technique": "explicit-state exploration of the TTFont load/touch/save state machine over a bounded loaded-set lattice, executed on the real implementation (stateless, every state replayed from the source font)",
        "text": "States (font, lazy mode, set of decoded tables) are enumerated for every corpus font, container flavour and generated font: the full set, the empty set, every singleton (thorough: every pair and co-singleton, plus AOTS table transplants). In every state the font is saved and the oracle checks byte pass-through of tables never decoded (independent sfnt parser), content equality of decoded tables, and that save(load-all(.)) is a byte-exact fixed point at the next generation.",
        "note": "Trusted: canonical TTX dump as the content-equality relation (head.checkSumAdjustment, OS/2 first/last char index and the post string-pool order are masked as container/derived/representation data); fontTools' own WOFF/WOFF2 unpacking for reading saved payloads (C04 checks containers independently).",
    },
    "C05": {
        "level": "exploration",
        "technique": "exhaustive enumeration of (font, location-lattice point, glyph) with a differential oracle (HarfBuzz) - bounded model checking of the drawing path, no sampling",
        "text": "Every glyph of every corpus face and of the generated font pool is drawn through fontTools' glyph set and through HarfBuzz at every point of a per-axis location lattice (default, extremes, midpoints, out-of-range, avar knots); outlines are canonicalised to Bezier segment lists and compared within 0.01 unit (0.1 under variation), advances within rounding. Complete over the corpus x lattice; says nothing about locations off the lattice or fonts outside the corpus/pool.",
        "note": "Trusted: HarfBuzz 12.1 as the independent implementation (FreeType confirmed the two fixed defects); oracles/geom.py canonicalisation. Cubic-glyf and VARC excluded (unsupported by this HarfBuzz).",
    },
    "C15": {
        "level": "exploration",
        "technique": "exhaustive whole-domain enumeration of encoder/decoder pairs (bounded model checking of codecs, no sampling)",
        "text": "Every value of each codec's domain (all 65536 F2Dot14, all 255UShort, all base-128/uint32var below 2^21 plus every power-of-two boundary, every CFF/T2 integer in +-70000 plus boundaries, k*10^e reals, run-grammar point sets and delta vectors, all <=2-byte strings through eexec, every valid printable tag in thorough) is pushed through encode then decode and compared. For finite small domains this is a complete decision; for the others it is complete over the stated lattice.",
        "note": "Trusted: Python struct/array; the lattices are taken from the branch constants of the encoders. 16.16 values and reals away from the lattice are not visited.",
    },
    "C07": {
        "level": "exploration",
        "technique": "exhaustive enumeration of (font, subset request, option deviation) within stated bounds - every non-empty subset of small character sets, size<=2 / co-size<=1 families of larger ones, every single option deviation - each run through the real load/subset/save pipeline and judged differentially by HarfBuzz on every short text over the retained characters",
        "text": "19 generated fonts covering every GSUB/GPOS lookup type, GDEF, kern, gvar/HVAR/MVAR, CFF subroutines, COLR v0/v1, cmap 14 x every non-empty subset of their characters x every single option deviation; requests by glyph name, glyph ID and text; corpus fonts (AOTS lookup families, Tests/subset inputs, vendored VFs) x focus-alphabet subsets x option deviations. For each subsetting: every requested character/glyph present; all texts of length <= 3 over the retained characters shape to the same glyph names, advances and offsets (all script/language modes, variation lattice); outlines, advances and variations of retained glyphs equal; structural scan for references to removed glyphs; retain-gids keeps IDs; option-specific post-conditions.",
        "note": "Trusted: HarfBuzz 12.1 as the observer on both sides. Dropped-because-empty GPOS script / GSUB+GPOS language-system records and the .notdef gvar advance variation are recorded known findings; a class-pair shadowing defect and a format 0 cmap defect were repaired. usMaxContext over-estimates are not judged (outside the property).",
    },
    "C08": {
        "level": "exploration",
        "technique": "exhaustive enumeration of per-axis limit specifications (pin / range / moved default over a 5-point lattice per axis, products over axes within a deviation bound) x every lattice location inside the new limits, original vs instance evaluated by two independent evaluators (fontTools float glyph set / HarfBuzz) under a derived rounding budget",
        "text": "Every corpus and generated variable font (glyf/gvar, CFF2, HVAR/VVAR/MVAR, avar and avar-2, GDEF/GPOS variations, feature variations, cvar, composites) is instanced under every limit specification of the lattice (1 axis: all; 2 axes: product; more: singles, pairs, pin-all) with optimize on/off and updateFontNames; the instance is saved, reloaded and compared with the original at every lattice location inside the limits: outlines, advances, MVAR metrics, shaping of all pairs (GPOS/GDEF values), substitutions from feature variations, fvar/avar mapping of user coordinates; full pins leave no variation tables.",
        "note": "Budget = 0.5 for the rounded default + 0.5 (1.0 with IUP) x scalar per stored delta set + 2.14 quantisation bound, derived in the assumptions. One feature-variations defect (record on pinned axes that holds while others remain) is a recorded known finding; a names crash was repaired.",
    },
    "C10": {
        "level": "exploration",
        "technique": "exhaustive enumeration of designspaces (every master-location subset of 1-, 2- and 3-axis lattices containing the default x default position x axis map x outline kind x content kind) built by the real varLib.build and evaluated by HarfBuzz at every master location against the static master",
        "text": "1 axis: every subset of 5 positions containing the default; 2 axes: every subset of size <= 4 (thorough 6) of the 3x3 lattice; 3 axes: corners plus one (two) further points; x default at an end / in the middle, x axis maps {none, linear, bent}, x {TrueType, CFF}, x contents {outlines, composites, pair and class kerning, kerning in some masters only, mark anchors, MVAR metrics, sparse glyph / sparse layout masters}, optimize on/off, rotated source order; plus the 33 corpus designspaces bound to their TTX masters. Oracle: the built font saved and reopened equals each master at its location (outlines, advances, shaped kerning and mark offsets, MVAR metrics) within half a unit per rounded component, default master exact, fvar/avar equal to the designspace maps at knots and midpoints.",
        "note": "Trusted: HarfBuzz 12.1, fontTools table readers for the saved result. Generated lattices normalise exactly on the 2.14 grid (asserted) so no quantisation slack applies there. A single-master CFF crash was repaired.",
    },
    "C11": {
        "level": "model_checking",
        "technique": "exhaustive enumeration of feature-file programs from an abstract rule grammar (all programs of <= 2 statements, every cut into lookups, flags, scopes, every spelling) x every glyph string up to length 3; the compiled tables executed by HarfBuzz are compared step for step with a reference interpreter of the abstract rules (explicit-state: states = (program, string) pairs, transitions = rule applications)",
        "text": "Every abstract program of 1..2 rule statements (thorough 3 on a reduced pool) over single/multiple/alternate/ligature/contextual/chained/ignore/reverse substitution and single/pair/class-pair/cursive/mark-base/mark-mark/contextual positioning, with lookup flags, script/language scopes and every spelling (lookup blocks, named classes and values, inline vs named lookups) is compiled by feaLib; HarfBuzz on the compiled tables must agree with oracles/otlref.py on glyphs, advances and offsets for every glyph string up to length 3; asFea(parse(t)) is a fixed point and compiles to byte-identical tables for every generated text and all 163 corpus .fea files.",
        "note": "Trusted: HarfBuzz 12.1 and oracles/otlref.py (written from the OpenType and feature-file specifications, shares no code with feaLib). Constructs outside the rule grammar are covered only through the asFea fixed point. An inline-ligature sharing defect was repaired.",
    },
}
