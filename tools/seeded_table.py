#!/venv/bin/python
"""tools/seeded_table.py - print the markdown table of /verif/seeded/*/meta.json (DESIGN.md section 11)."""
import glob, json, os

here = os.path.dirname(os.path.dirname(os.path.abspath(__file__)))
rows = []
for mf in sorted(glob.glob(os.path.join(here, "seeded", "*", "meta.json"))):
    m = json.load(open(mf))
    sid = os.path.basename(os.path.dirname(mf))
    caught = ["%s %s%s" % (e["check"], e["tier"], (" [" + ",".join(e["units"]) + "]") if e.get("units") else "") for e in m.get("caught_by", [])]
    missed = ["%s %s" % (e["check"], e["tier"]) for e in m.get("missed_by", [])]
    cls = ""
    for e in m.get("caught_by", []):
        if e.get("violation_classes"):
            cls = e["violation_classes"][0]
            break
    hist = m.get("first_evaluation", "")
    if m.get("strengthening"):
        hist += " -> " + m["strengthening"]
    rows.append((sid, m["property"], m.get("summary", m["needs_to_manifest"])[:160].replace("|", "/"), ", ".join(caught) or "-", ", ".join(missed) or "-", hist.replace("|", "/")))
print("| seeded change | property | what it needs to manifest | caught by (current checks) | silent | as first delivered / what was strengthened |")
print("|---|---|---|---|---|---|")
for r in rows:
    print("| %s | %s | %s | %s | %s | %s |" % r)
n = len(rows)
c = sum(1 for r in rows if r[3] != "-")
print("\n%d seeded changes, %d caught by at least one registered check command." % (n, c))
