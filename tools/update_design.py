#!/venv/bin/python
"""Regenerate the generated parts of DESIGN.md: the seeded-change table (section 11)."""
import os, re, subprocess
here = os.path.dirname(os.path.dirname(os.path.abspath(__file__)))
p = os.path.join(here, "DESIGN.md")
s = open(p).read()
table = subprocess.check_output([os.path.join(here, "tools", "seeded_table.py")]).decode()
table = "\n".join(l for l in table.splitlines() if not l.startswith("WARNING"))
s = re.sub(r"<!-- SEEDED-TABLE-BEGIN -->.*<!-- SEEDED-TABLE-END -->", "<!-- SEEDED-TABLE-BEGIN -->\n" + table.replace("\\", "\\\\") + "\n<!-- SEEDED-TABLE-END -->", s, flags=re.S)
open(p, "w").write(s)
print("DESIGN.md updated")
