#!/venv/bin/python
"""Regenerate the generated parts of DESIGN.md: the seeded-change table (section 11)."""
import os, re, subprocess
here = os.path.dirname(os.path.dirname(os.path.abspath(__file__)))
p = os.path.join(here, "DESIGN.md")
s = open(p).read()
table = subprocess.check_output([os.path.join(here, "tools", "seeded_table.py")]).decode()
table = "\n".join(l for l in table.splitlines() if not l.startswith("WARNING"))
s = re.sub(r"<!-- SEEDED-TABLE-BEGIN -->.*<!-- SEEDED-TABLE-END -->", lambda m: "<!-- SEEDED-TABLE-BEGIN -->\n" + table + "\n<!-- SEEDED-TABLE-END -->", s, flags=re.S)
import json
k = json.load(open(os.path.join(here, "known_findings.json")))["findings"]
log = subprocess.check_output(["git", "-C", os.environ.get("VERIF_REPO", "/repo"), "log", "--format=%h %s"]).decode().splitlines()
fixes = [l for l in log if l.split(" ", 1)[1].startswith("fix:")]
byc = {}
for e in k:
    if e["status"] == "fixed":
        m = re.match(r"fixed: property=(C\d+) ([0-9a-f]{7})", e["what"])
        if m:
            byc.setdefault(m.group(2), set()).add(m.group(1))
out = ["### 9.1 Repaired (%d `fix:` commits in /repo, each minimal and unguarded; the unedited test suite passes with all of them: 4704 passed)" % len(fixes),
       "A `fixed:` entry suppresses nothing: the checks pass on the repaired tree without any",
       "KNOWN-FINDING line for these, and report the violation again if the defect returns.", ""]
for l in reversed(fixes):
    h = l.split()[0]
    out.append("* `%s` (%s) %s" % (h, ", ".join(sorted(byc.get(h, ["?"]))), l.split(" ", 2)[2]))
out += ["", "### 9.2 Recorded, not repaired (`status: known`; printed as `KNOWN-FINDING:` on every run, exit 0)",
        "Each of these is a defect under the literal text of the property, reproduced on a specific input,",
        "whose repair is either not small (needs a design decision) or would change expectations stored",
        "in the repository's tests (which must pass unedited).  They are matched by unit + a narrow class",
        "key (`fkey`), so any *other* violation of the same property still exits 1.", ""]
for e in k:
    if e["status"] == "known":
        out.append("* **%s** `%s` — %s" % (e["property"], e["fkey"], e["what"]))
body = "\n".join(out)
s = re.sub(r"<!-- FINDINGS-BEGIN -->.*<!-- FINDINGS-END -->", lambda m: "<!-- FINDINGS-BEGIN -->\n" + body + "\n<!-- FINDINGS-END -->", s, flags=re.S)
open(p, "w").write(s)
print("DESIGN.md updated: %d fixes, %d known" % (len(fixes), sum(1 for e in k if e["status"] == "known")))
