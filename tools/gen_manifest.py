#!/venv/bin/python
"""Generate MANIFEST.json from tools/manifest_src.py (single source of truth)."""
import json, os, sys
here = os.path.dirname(os.path.dirname(os.path.abspath(__file__)))
sys.path.insert(0, here)
from tools.manifest_src import CHECKS, NOT_YET, HOOK_COMMITS, ENGINES
props = [json.loads(l) for l in open(os.path.join(here, "properties.jsonl"))]
checks, na = [], []
for p in props:
    pid = p["id"]
    if pid in CHECKS:
        c = CHECKS[pid]
        checks.append({
            "property_id": pid,
            "quick_cmd": "./check %s --tier quick" % pid,
            "thorough_cmd": "./check %s --tier thorough" % pid,
            "evidence_file": "evidence/%s.json" % pid,
            "replay_cmd_template": "./check %s --replay {path}" % pid,
            "engine": "engines/%s.py" % pid.lower(),
            "level_claimed": {"category": c["level"], "text": c["text"], "design_ref": "DESIGN.md section 3, " + pid},
            "level_note": c["note"],
            "technique": c["technique"],
        })
    else:
        na.append({"property_id": pid, "reason": NOT_YET.get(pid, "no check registered yet: the engine for this property is not built; nothing is claimed")})
m = {
    "version": 1,
    "setup_cmd": "./setup.sh",
    "hooks": {
        "guard": "FONTTOOLS_VERIF",
        "enable": "checks set FONTTOOLS_VERIF=1 and put /repo/Lib first on sys.path; fontTools is pure Python so there is no build step; all interception is monkeypatching from the harness process",
        "baseline_off_cmd": "cd /repo && env -u FONTTOOLS_VERIF PYTHONPATH=/repo/Lib /venv/bin/python -m pytest -ra -q -p no:cacheprovider --timeout=900 --continue-on-collection-errors",
        "source_commits": HOOK_COMMITS,
        "add_only": True,
    },
    "engines": ENGINES,
    "checks": checks,
    "not_applicable": na,
    "notes": "All checks are bounded exhaustive explorations (mc/kernel.py): each unit enumerates a finite space completely (no sampling) and checks an independent oracle on every case. VERIF_SEED only instantiates symbolic atoms / rotates corpus subsets; exit 2 = vacuous run (a required branch witness never hit). Genuine defects: known_findings.json.",
}
json.dump(m, open(os.path.join(here, "MANIFEST.json"), "w"), indent=1)
print("wrote MANIFEST.json: %d checks, %d not_applicable" % (len(checks), len(na)))
