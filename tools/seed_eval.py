#!/venv/bin/python
"""tools/seed_eval.py <seed-id> [--tier quick|thorough] [--props C01,C02] [--unit u]

Applies /verif/seeded/<seed-id>/patch.diff to a scratch worktree of /repo HEAD (never to /repo
itself), runs the check of the property named in meta.json (or the given ones) against that
worktree (VERIF_REPO / VERIF_OUT, so /verif/evidence is not touched), and records in meta.json
which checks report a VIOLATION ("caught_by") and which stay silent ("missed_by")."""
import json, os, re, subprocess, sys, tempfile, shutil, time

here = os.path.dirname(os.path.dirname(os.path.abspath(__file__)))
replay_check = False


def main():
    args = sys.argv[1:]
    sid = args.pop(0)
    tier, props, units = "quick", None, []
    global replay_check
    replay_check = False
    while args:
        a = args.pop(0)
        if a == "--replay-check":
            replay_check = True
            continue
        if a == "--tier":
            tier = args.pop(0)
        elif a == "--props":
            props = args.pop(0).split(",")
        elif a == "--unit":
            units.append(args.pop(0))
    d = os.path.join(here, "seeded", sid)
    meta = json.load(open(os.path.join(d, "meta.json")))
    props = props or [meta["property"]]
    wt = tempfile.mkdtemp(prefix="seed-", dir="/tmp")
    os.rmdir(wt)
    subprocess.check_call(["git", "-C", "/repo", "worktree", "add", "--detach", wt, "HEAD", "-q"])
    out = wt + ".out"
    os.makedirs(out, exist_ok=True)
    try:
        subprocess.check_call(["git", "-C", wt, "apply", os.path.join(d, "patch.diff")])
        for p in props:
            env = dict(os.environ, VERIF_REPO=wt, VERIF_OUT=out)
            cmd = [os.path.join(here, "check"), p, "--tier", tier]
            for u in units:
                cmd += ["--unit", u]
            t0 = time.time()
            r = subprocess.run(cmd, env=env, capture_output=True, text=True)
            wall = time.time() - t0
            classes = re.findall(r"^ +(\d+)  (\S+)  (.*)$", r.stdout, re.M)
            first = re.findall(r"^  unit=(\S+) fkey=(.*)$", r.stdout, re.M)
            entry = {"check": p, "tier": tier, "exit": r.returncode, "wall_s": round(wall, 1),
                     "violation_classes": ["%s %s (%s)" % (u, k, n) for n, u, k in classes][:8]}
            if units:
                entry["units"] = units
            if r.returncode == 1 and replay_check:
                # the first replay file must reproduce the violation on the changed tree (twice, identically)
                m = re.search(r"^VIOLATION property=\S+ replay=(\S+)", r.stdout, re.M)
                if m:
                    rr = subprocess.run([os.path.join(here, "check"), p, "--replay", m.group(1)], env=env, capture_output=True, text=True)
                    entry["replay_reproduces"] = rr.returncode == 1 and "REPLAY-VIOLATION" in rr.stdout
                    if not entry["replay_reproduces"]:
                        print("   REPLAY DID NOT REPRODUCE: rc=%d %s" % (rr.returncode, (rr.stdout + rr.stderr)[-400:]))
            key = "caught_by" if r.returncode == 1 else "missed_by"
            other = "missed_by" if key == "caught_by" else "caught_by"
            same = lambda e: e.get("check") == p and e.get("tier") == tier and e.get("units") == entry.get("units")
            meta[key] = [e for e in meta.get(key, []) if not same(e)] + [entry]
            meta[other] = [e for e in meta.get(other, []) if not same(e)]
            print("%s %s %s: exit=%d wall=%.0fs %s" % (sid, p, tier, r.returncode, wall, "; ".join(entry["violation_classes"][:3]) or (first[:1] or "")))
            if r.returncode not in (0, 1):
                print(r.stdout[-1500:], r.stderr[-1500:])
    finally:
        subprocess.call(["git", "-C", "/repo", "worktree", "remove", "--force", wt])
        shutil.rmtree(out, ignore_errors=True)
    json.dump(meta, open(os.path.join(d, "meta.json"), "w"), indent=1)


main()
