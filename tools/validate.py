#!/opt/veriftools/pyvenv/bin/python
"""Validate MANIFEST.json and every evidence file against the harness schemas."""
import json, sys, glob, os
import jsonschema
here = os.path.dirname(os.path.dirname(os.path.abspath(__file__)))
ok = True
m = json.load(open(os.path.join(here, "MANIFEST.json")))
try:
    jsonschema.validate(m, json.load(open("/root/.vp/MANIFEST.schema.json")))
    print("MANIFEST ok: %d checks, %d not_applicable" % (len(m["checks"]), len(m.get("not_applicable", []))))
except jsonschema.ValidationError as e:
    ok = False; print("MANIFEST INVALID:", e.message)
props = [json.loads(l)["id"] for l in open(os.path.join(here, "properties.jsonl"))]
claimed = [c["property_id"] for c in m["checks"]]
na = [n["property_id"] for n in m.get("not_applicable", [])]
for p in props:
    if (p in claimed) == (p in na):
        ok = False; print("property", p, "must be in exactly one of checks / not_applicable")
es = json.load(open("/root/.vp/EVIDENCE.schema.json"))
for c in m["checks"]:
    f = os.path.join(here, c["evidence_file"]) if not c["evidence_file"].startswith("/") else c["evidence_file"]
    if not os.path.exists(f):
        print("evidence missing:", f); continue
    e = json.load(open(f))
    try:
        jsonschema.validate(e, es)
        assert e["level"] == c["level_claimed"]["category"], "level mismatch"
        print("evidence ok:", c["property_id"], e["tier"], e["coverage"].get("evaluations"), e["coverage"].get("distinct_nontrivial"))
    except Exception as ex:
        ok = False; print("evidence INVALID:", f, getattr(ex, "message", ex))
sys.exit(0 if ok else 1)
