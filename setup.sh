#!/bin/sh
# Nothing to build: fontTools is pure Python and the checks run it from /repo/Lib directly.
set -e
cd "$(dirname "$0")"
mkdir -p evidence replays
/venv/bin/python -c "import sys; sys.path.insert(0,'.'); from mc import env; print('code under test:', env.FT_FILE)"
