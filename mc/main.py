"""Entry point: ./check <PROPERTY> [--tier T] [--seed N] [--replay path] [--unit u]."""
import argparse
import importlib
import os
import sys

sys.path.insert(0, os.path.dirname(os.path.dirname(os.path.abspath(__file__))))
from mc import env  # noqa: E402  (must be first: binds /repo/Lib)
from mc import kernel  # noqa: E402


def main():
    ap = argparse.ArgumentParser()
    ap.add_argument("prop")
    ap.add_argument("--tier", default=os.environ.get("VERIF_TIER", "quick"))
    ap.add_argument("--seed", type=int, default=int(os.environ.get("VERIF_SEED", "0") or 0))
    ap.add_argument("--replay")
    ap.add_argument("--unit", action="append")
    ap.add_argument("--nproc", type=int, default=None)
    a = ap.parse_args()
    mod = importlib.import_module("engines." + a.prop.lower())
    units = mod.units()
    if a.replay:
        return kernel.replay_file(a.replay, units)
    return kernel.run_property(
        a.prop.upper(), units, mod.LEVEL, a.tier, a.seed,
        assumptions=getattr(mod, "ASSUMPTIONS", ()), nproc=a.nproc, only=a.unit,
    )


if __name__ == "__main__":
    sys.exit(main())
