"""Binding to the code under test: /repo/Lib first on sys.path, pinned environment.

Imported first by every entry point.  Asserts that the fontTools being explored is the
working tree of /repo (the copy in /venv site-packages must never be the one under test).
"""
import os
import sys

REPO = os.environ.get("VERIF_REPO", "/repo")
VERIF = os.path.dirname(os.path.dirname(os.path.abspath(__file__)))
LIB = os.path.join(REPO, "Lib")
# where evidence/ and replays/ are written (scratch runs against mutants set VERIF_OUT)
OUT = os.environ.get("VERIF_OUT", VERIF)

if sys.path[0] != LIB:
    sys.path[:] = [p for p in sys.path if p != LIB]
    sys.path.insert(0, LIB)
if VERIF not in sys.path:
    sys.path.insert(1, VERIF)

os.environ.setdefault("SOURCE_DATE_EPOCH", "1700000000")
os.environ.setdefault("TZ", "UTC")
os.environ["FONTTOOLS_VERIF"] = "1"
sys.dont_write_bytecode = True

import fontTools  # noqa: E402

FT_FILE = os.path.abspath(fontTools.__file__)
assert FT_FILE.startswith(os.path.abspath(LIB) + os.sep), (
    "fontTools imported from %s, expected under %s" % (FT_FILE, LIB)
)

import logging  # noqa: E402

logging.disable(logging.CRITICAL)


def repo_head():
    import subprocess

    try:
        sha = subprocess.run(
            ["git", "-C", REPO, "rev-parse", "HEAD"], capture_output=True, text=True
        ).stdout.strip()
        dirty = subprocess.run(
            ["git", "-C", REPO, "status", "--porcelain", "--untracked-files=no"],
            capture_output=True,
            text=True,
        ).stdout.strip()
        return sha + ("+dirty" if dirty else "")
    except Exception:
        return "unknown"
