"""Bounded exhaustive exploration kernel for the fontTools verification checks."""
