"""Exploration kernel: units, recorders, sharded exhaustive enumeration, evidence, replay.

A *unit* is one finite space + one oracle.  It provides

    cases(tier, seed)   -> iterable of JSON-able case descriptors (deterministic order,
                           simplest first)            [or shards()/expand() for huge spaces]
    check(case, rec)    -> runs the real code on that one case and reports through `rec`

The kernel enumerates the *whole* space (never samples), cuts it into shards for a pool of
forked workers, merges the recorders, applies the known-findings file, writes the evidence
and replay files and decides the exit status.
"""
from __future__ import annotations

import collections
import fnmatch
import hashlib
import itertools
import json
import multiprocessing
import os
import sys
import time
import traceback

from . import env

MAX_VIOL_PER_SHARD = 40
MAX_REPLAYS = int(os.environ.get("VERIF_MAX_REPLAYS", "25"))


def jdump(obj):
    return json.dumps(obj, sort_keys=True, default=_jdefault, ensure_ascii=True)


def _jdefault(o):
    if isinstance(o, (bytes, bytearray)):
        return {"__bytes__": bytes(o).hex()}
    if isinstance(o, (set, frozenset)):
        return sorted(o, key=repr)
    if isinstance(o, tuple):
        return list(o)
    from fractions import Fraction

    if isinstance(o, Fraction):
        return {"__frac__": [o.numerator, o.denominator]}
    return repr(o)


def unjson(o):
    """Inverse of the bytes/fraction encodings used in replay files."""
    if isinstance(o, dict):
        if set(o) == {"__bytes__"}:
            return bytes.fromhex(o["__bytes__"])
        if set(o) == {"__frac__"}:
            from fractions import Fraction

            return Fraction(*o["__frac__"])
        return {k: unjson(v) for k, v in o.items()}
    if isinstance(o, list):
        return [unjson(v) for v in o]
    return o


def h64(obj) -> int:
    if not isinstance(obj, (bytes, str)):
        obj = jdump(obj)
    if isinstance(obj, str):
        obj = obj.encode("utf-8", "surrogatepass")
    return int.from_bytes(hashlib.blake2b(obj, digest_size=8).digest(), "big")


def short(obj, n=300):
    s = obj if isinstance(obj, str) else jdump(obj)
    return s if len(s) <= n else s[: n - 3] + "..."


class Recorder:
    """Collects what one shard observed."""

    def __init__(self, unit_name):
        self.unit = unit_name
        self.evaluations = 0
        self.distinct = set()  # 64-bit hashes of non-trivial canonical cases
        self.distinct_count = 0  # for spaces distinct by construction
        self.states = set()
        self.state_count = 0
        self.transitions = 0
        self.traces = 0
        self.witnesses = collections.Counter()
        self.outcomes = set()
        self.violations = []
        self.nviol = 0
        self.samples = []
        self.extra = collections.Counter()
        self._case = None
        self._per_fkey = collections.Counter()

    # -- called by units --------------------------------------------------
    def witness(self, name, n=1):
        self.witnesses[name] += n

    def nontrivial(self, key=None):
        """Mark the current case (or `key`) as a distinct non-trivial case."""
        self.distinct.add(h64(key if key is not None else self._case))

    def nontrivial_n(self, n):
        """n further cases that are distinct by construction (huge partitioned spaces)."""
        self.distinct_count += n

    def state(self, key):
        self.states.add(h64(key))

    def state_n(self, n):
        self.state_count += n

    def transition(self, n=1):
        self.transitions += n

    def trace(self, n=1):
        self.traces += n

    def outcome(self, key):
        if len(self.outcomes) < 100000:
            self.outcomes.add(h64(key))

    def count(self, name, n=1):
        self.extra[name] += n

    def evals(self, n=1):
        """Extra evaluations performed inside one case (inner exhaustive loops)."""
        self.evaluations += n

    def violation(self, fkey, msg, case=None, observed=None, expected=None):
        """Report a violation.  `fkey` names the failing input class / call site; it is
        what the known-findings file is matched against."""
        self.nviol += 1
        self._per_fkey[fkey] += 1
        # keep at most 3 records per failing class per shard: the records dropped are
        # always of a class that is already recorded (so known/new triage stays exact)
        if self._per_fkey[fkey] <= 3 and len(self.violations) < MAX_VIOL_PER_SHARD * 10:
            self.violations.append(
                {
                    "unit": self.unit,
                    "fkey": fkey,
                    "msg": short(msg, 2000),
                    "case": case if case is not None else self._case,
                    # the case handed to check() when `case` is a narrower description of the
                    # failing input: --replay falls back to it when `case` is not itself a case
                    "outer_case": self._case if (case is not None and case != self._case) else None,
                    "observed": short(observed, 4000) if observed is not None else None,
                    "expected": short(expected, 4000) if expected is not None else None,
                }
            )

    # -- merging ----------------------------------------------------------
    def merge(self, o: "Recorder"):
        self.evaluations += o.evaluations
        self.distinct |= o.distinct
        self.distinct_count += o.distinct_count
        self.states |= o.states
        self.state_count += o.state_count
        self.transitions += o.transitions
        self.traces += o.traces
        self.witnesses.update(o.witnesses)
        self.outcomes |= o.outcomes
        self.nviol += o.nviol
        self.violations.extend(o.violations)
        self.extra.update(o.extra)
        for s in o.samples:
            if len(self.samples) < 6:
                self.samples.append(s)


class Unit:
    """Base class of exploration units."""

    name = "unit"
    prop = "C00"
    # human readable description of alphabet / bound / oracle, goes into the evidence
    rule = ""
    # witnesses that must be hit at least once, else the run is vacuous (exit 2)
    required_witnesses: tuple = ()
    chunk = 64  # cases per shard
    tiers = ("quick", "thorough")
    # set True when check() runs subprocesses / its own pool and must stay in the parent
    in_parent = False

    def setup(self, tier, seed):
        """Runs once in the parent before forking (load corpus etc.)."""

    def cases(self, tier, seed):
        raise NotImplementedError

    def shards(self, tier, seed):
        it = iter(self.cases(tier, seed))
        while True:
            block = list(itertools.islice(it, self.chunk))
            if not block:
                return
            yield block

    def expand(self, shard):
        return shard

    def check(self, case, rec: Recorder):
        raise NotImplementedError

    def bounds(self, tier, seed):
        return {}

    def exc_fkey(self, case, exc):
        tb = traceback.extract_tb(exc.__traceback__)
        site = "?"
        for fr in reversed(tb):
            if "/fontTools/" in fr.filename:
                site = "%s:%s" % (fr.filename.split("/fontTools/")[-1], fr.name)
                break
        return "exception:%s@%s" % (type(exc).__name__, site)

    # one case through a plain function, used by --replay
    def replay(self, case):
        rec = Recorder(self.name)
        rec._case = case
        self.setup_replay()
        self.run_one(case, rec)
        return rec

    def setup_replay(self):
        self.setup("quick", 0)

    def run_one(self, case, rec):
        rec._case = case
        rec.evaluations += 1
        try:
            self.check(case, rec)
        except (Exception, SystemExit) as e:  # an exception out of the code under test
            # SystemExit too: a command-line entry point that exits inside a pool worker would
            # otherwise kill the worker silently and leave the pool waiting for ever
            rec.violation(
                self.exc_fkey(case, e),
                "unexpected %s: %s\n%s"
                % (type(e).__name__, e, "".join(traceback.format_exception(e)[-6:])),
            )


_UNITS = {}


def _run_shard(args):
    uname, shard = args
    unit = _UNITS[uname]
    rec = Recorder(uname)
    first = True
    for case in unit.expand(shard):
        if first:
            rec.samples.append(case)
            first = False
        unit.run_one(case, rec)
    rec._case = None
    return rec


def _digest(v):
    return hashlib.sha256(jdump([v["unit"], v["fkey"], v["case"]]).encode()).hexdigest()[:16]


def load_findings():
    p = os.path.join(env.VERIF, "known_findings.json")
    if not os.path.exists(p):
        return []
    return json.load(open(p))["findings"]


def run_property(prop, units, level, tier, seed, assumptions=(), nproc=None, only=None):
    """Explore all units of one property; write evidence; return exit status."""
    t0 = time.time()
    nproc = nproc or int(os.environ.get("VERIF_NPROC", "0")) or min(16, os.cpu_count() or 1)
    units = [u for u in units if tier in u.tiers and (not only or u.name in only)]
    per_unit = {}
    total = Recorder(prop)
    for u in units:
        _UNITS[u.name] = u
    for u in units:
        u.setup(tier, seed)
    ctx = multiprocessing.get_context("fork")
    pooled = [u for u in units if not u.in_parent]
    results = {u.name: Recorder(u.name) for u in units}
    timing = collections.Counter()
    if pooled:
        def gen():
            for u in pooled:
                for sh in u.shards(tier, seed):
                    yield (u.name, sh)

        if nproc == 1:
            for a in gen():
                t1 = time.time()
                results[a[0]].merge(_run_shard(a))
                timing[a[0]] += time.time() - t1
        else:
            with ctx.Pool(nproc, maxtasksperchild=None) as pool:
                for r in pool.imap_unordered(_run_shard, gen(), chunksize=1):
                    results[r.unit].merge(r)
    for u in units:
        if u.in_parent:
            t1 = time.time()
            for sh in u.shards(tier, seed):
                results[u.name].merge(_run_shard((u.name, sh)))
            timing[u.name] += time.time() - t1

    vacuous = []
    for u in units:
        r = results[u.name]
        for w in u.required_witnesses:
            if r.witnesses.get(w, 0) == 0:
                vacuous.append("%s:%s" % (u.name, w))
        nd = len(r.distinct) + r.distinct_count
        ns = len(r.states) + r.state_count
        per_unit[u.name] = {
            "rule": u.rule,
            "bounds": u.bounds(tier, seed),
            "evaluations": r.evaluations,
            "distinct_nontrivial": nd,
            "states": ns,
            "transitions": r.transitions,
            "traces_validated_against_impl": r.traces,
            "distinct_outcomes": len(r.outcomes),
            "witnesses": dict(sorted(r.witnesses.items())),
            "counters": dict(sorted(r.extra.items())),
            "violations": r.nviol,
        }
        total.merge(r)
        total.samples = (total.samples + [{"unit": u.name, "case": s} for s in r.samples[:2]])[:24]

    # ---- known findings --------------------------------------------------
    findings = [f for f in load_findings() if f.get("property") == prop]
    known = [f for f in findings if f.get("status") == "known"]
    new_viol, known_hit = [], collections.OrderedDict()
    for v in total.violations:
        hit = None
        for f in known:
            if f.get("unit") in (None, v["unit"]) and fnmatch.fnmatchcase(v["fkey"], f["fkey"]):
                hit = f
                break
        if hit is not None:
            known_hit.setdefault(hit["fkey"], (hit, []))[1].append(v)
        else:
            new_viol.append(v)
    # violations dropped by the per-shard cap are unknown => treat as new unless every
    # recorded one is known (cap only trims repeats within one shard)
    capped = total.nviol - len(total.violations)

    for fkey, (f, vs) in known_hit.items():
        print("KNOWN-FINDING: property=%s %s [%s; %d instance(s) this run]" % (prop, f["what"], fkey, len(vs)))

    rdir = os.path.join(env.OUT, "replays", prop)
    if os.path.isdir(rdir):
        for fn in os.listdir(rdir):  # replays of earlier runs are stale
            if fn.endswith(".json"):
                os.unlink(os.path.join(rdir, fn))
    status = 0
    if new_viol:
        byk = collections.Counter((v["unit"], v["fkey"]) for v in new_viol)
        print("violation classes (unit, fkey, recorded instances):")
        for (un, fk), n in sorted(byk.items(), key=lambda t: (-t[1], t[0])):
            print("   %6d  %s  %s" % (n, un, fk))
        # write replays round-robin over the classes so every class gets one
        order, seen_k = [], collections.Counter()
        for v in new_viol:
            # classes that differ only in a trailing [configuration label] share a round-robin slot
            k = (v["unit"], v["fkey"].split("[")[0])
            seen_k[k] += 1
            order.append((seen_k[k], len(order), v))
        new_viol = [v for _a, _b, v in sorted(order, key=lambda t: (t[0], t[1]))]
        os.makedirs(rdir, exist_ok=True)
        seen = set()
        for v in new_viol:
            d = _digest(v)
            if d in seen:
                continue
            seen.add(d)
            if len(seen) > MAX_REPLAYS:
                break
            path = os.path.join(rdir, d + ".json")
            with open(path, "w") as f:
                f.write(jdump({"property": prop, "tier": tier, "seed": seed, **v}))
            print("VIOLATION property=%s replay=%s" % (prop, path))
            print("  unit=%s fkey=%s\n  %s" % (v["unit"], v["fkey"], short(v["msg"], 600).replace("\n", "\n  ")))
        status = 1
    elif vacuous:
        print("VACUOUS property=%s witnesses never hit: %s" % (prop, ", ".join(vacuous)))
        status = 2

    nd = len(total.distinct) + total.distinct_count
    ns = len(total.states) + total.state_count
    cov = {
        "evaluations": total.evaluations,
        "distinct_nontrivial": nd,
        "rule": " || ".join("%s: %s" % (u.name, u.rule) for u in units),
        "samples": total.samples or [],
        "exhaustive": True,
        "distinct_outcomes": sum(p["distinct_outcomes"] for p in per_unit.values()),
        "units": per_unit,
        "vacuous_witnesses": vacuous,
        "known_findings_reported": [f for f in known_hit],
        "capped_violation_records": capped,
        "code_under_test": env.FT_FILE,
        "repo_head": env.repo_head(),
        "workers": nproc,
    }
    if level == "model_checking":
        cov["states"] = ns
        cov["transitions"] = total.transitions
        cov["traces_validated_against_impl"] = total.traces
    evidence = {
        "property_id": prop,
        "tier": tier,
        "seed": seed,
        "level": level,
        "coverage": cov,
        "assumptions": list(assumptions),
        "wall_s": round(time.time() - t0, 2),
        "violations": len(new_viol) + (capped if new_viol else 0),
    }
    edir = os.path.join(env.OUT, "evidence")
    os.makedirs(edir, exist_ok=True)
    tmp = os.path.join(edir, prop + ".json.tmp")
    with open(tmp, "w") as f:
        json.dump(evidence, f, indent=1, sort_keys=True, default=_jdefault)
    os.replace(tmp, os.path.join(edir, prop + ".json"))
    print(
        "%s tier=%s seed=%d evaluations=%d distinct_nontrivial=%d states=%d transitions=%d "
        "violations=%d known=%d wall=%.1fs"
        % (prop, tier, seed, total.evaluations, nd, ns, total.transitions, len(new_viol), len(known_hit), time.time() - t0)
    )
    for n, p in per_unit.items():
        print("  - %-28s eval=%-9d distinct=%-8d viol=%d" % (n, p["evaluations"], p["distinct_nontrivial"], p["violations"]))
    return status


def replay_file(path, units):
    rec = unjson(json.load(open(path)))
    unit = {u.name: u for u in units}[rec["unit"]]
    _UNITS[unit.name] = unit
    def run(case):
        out = []
        for i in range(2):
            r = unit.replay(case)
            out.append([(v["fkey"], v["msg"]) for v in r.violations])
        return out

    obs = run(rec["case"])
    outer = rec.get("outer_case")
    if outer is not None and (not obs[0] or any(f.startswith("exception:") and f.endswith("@?") for f, _m in obs[0])):
        # `case` names the failing input but is not a case of the unit: replay the enclosing case
        obs = run(outer)
        want = rec.get("fkey")
        if any(f == want for f, _m in obs[0]):
            obs = [[(f, m) for f, m in o if f == want] for o in obs]
    # two runs must observe the same violation classes (the texts may name digests of outputs that
    # depend on the wall clock or the hash seed: that is what such a violation is about)
    if [f for f, _m in obs[0]] != [f for f, _m in obs[1]]:
        print("REPLAY-NONDETERMINISTIC: two runs of the same case observed different things")
        print(obs)
        return 3
    if obs[0]:
        for fkey, msg in obs[0]:
            print("REPLAY-VIOLATION property=%s unit=%s fkey=%s\n  %s" % (rec["property"], unit.name, fkey, msg.replace("\n", "\n  ")))
        return 1
    print("REPLAY-OK property=%s unit=%s: case no longer violates" % (rec["property"], unit.name))
    return 0
