"""C20 - damaged or hostile input fails cleanly and is never executed.

Fault enumeration: every fault position of each family is visited, none is sampled.

  E1 truncate       every prefix length of the container files (boundary sets for big files)
  E2 corrupt        every header/directory byte x 5 replacement values; non-font inputs
  E3 undecodable    every table x damage pattern with ignoreDecompileErrors=True
  E4 canaries       every value site of TTX / fea / designspace / glif / plist / CFF blend x 4
  E5 paths          content-derived output names never leave the requested directory
  E6 save-crash     every table compile failure point of save onto an existing file

The container oracle is `oracles/c20_container.py` (struct + zlib only): for a damaged file it
says, per table, the exact bytes or "can only fail"; the library may answer with exactly those
bytes or with TTLibError (a subclass), nothing else.
"""
from mc import env  # noqa: F401
from mc.kernel import Unit

import io
import os

from fontTools.ttLib import TTFont, TTCollection, TTLibError

from oracles import corpus
from oracles import c20_container as cont

LEVEL = "fault_enumeration"
ASSUMPTIONS = [
    "fault positions are those named in the unit rules over the vendored corpus (Tests/**) and containers derived from it; multi-byte corruptions and faults in files larger than the bounds are not visited",
    "the audit-hook monitor sees Python-level events only (exec/compile/open/os.*/subprocess); code execution that raises no audit event is invisible",
    "the reference container reader (oracles/c20_container.py: struct + zlib) is trusted; WOFF2 has no independent table reference (exception type and the undamaged file's tables only)",
    "checksums are not verified (checkChecksums=0, the default)",
]

SMALL = 4096  # quick tier: every-length families use files below this size
MEDIUM = 16384  # thorough tier


def site_of(exc):
    """innermost fontTools frame of an exception: 'ttLib/sfnt.py:WOFFFlavorData.__init__'"""
    site = "?"
    tb = exc.__traceback__
    while tb is not None:
        code = tb.tb_frame.f_code
        if "/fontTools/" in code.co_filename:
            site = "%s:%s" % (code.co_filename.split("/fontTools/")[-1], getattr(code, "co_qualname", code.co_name))
        tb = tb.tb_next
    return site


def exc_name(exc):
    t = type(exc)
    return t.__name__ if t.__module__ == "builtins" else "%s.%s" % (t.__module__, t.__name__)


def tb_tail(exc, n=5):
    import traceback

    return "".join(traceback.format_exception(exc)[-n:])


# ------------------------------------------------------------------ container files
_FILES = None


def container_files():
    """{name: bytes}: corpus binaries plus WOFF(+metadata+private) / WOFF2 / TTC containers
    derived from small corpus fonts with the writer of the tree under test (inputs only)."""
    global _FILES
    if _FILES is not None:
        return _FILES
    files = dict(corpus.binary_files())
    plain = [(n, d) for n, d in corpus.binary_files() if cont.kind_of(d) == "sfnt" and len(d) < SMALL and not corpus.is_aots(n)]
    derived = {}
    from fontTools.ttLib.sfnt import WOFFFlavorData

    for n, d in plain:
        for flavor in ("woff", "woff2"):
            try:
                f = TTFont(io.BytesIO(d), recalcTimestamp=False, recalcBBoxes=False)
                f.flavor = flavor
                if flavor == "woff":
                    fd = WOFFFlavorData()
                    fd.metaData = b"<?xml version='1.0'?><metadata version='1.0'><uniqueid id='c20'/>" + b"<x/>" * 20 + b"</metadata>"
                    fd.privData = b"C20 private block \x00\x01\x02\xff"
                    fd.majorVersion, fd.minorVersion = 1, 0
                    f.flavorData = fd
                buf = io.BytesIO()
                f.save(buf)
                derived["derived/%s/%s" % (flavor, n)] = buf.getvalue()
            except Exception:
                pass
    try:
        ttfs = [TTFont(io.BytesIO(d), recalcTimestamp=False) for n, d in plain[:2]]
        c = TTCollection()
        c.fonts = ttfs
        buf = io.BytesIO()
        c.save(buf)
        derived["derived/ttc/two-smallest"] = buf.getvalue()
    except Exception:
        pass
    files.update(derived)
    _FILES = files
    return files


def faces_of(data):
    if cont.kind_of(data) == "ttc":
        h = cont.ttc_header(data)
        return list(range(len(h[1]))) if h else [0]
    return [-1]


def orig_tables_woff2(data):
    """tables of an undamaged WOFF2 file, read once through the library (differential
    reference: the same font before the damage)."""
    f = TTFont(io.BytesIO(data))
    return {str(t): f.reader[t] for t in f.reader.keys()}


class ContainerOracle:
    """Open a (damaged) container and read every table; compare with the reference."""

    def __init__(self, rec, phase, kind):
        self.rec = rec
        self.phase = phase
        self.kind = kind

    def viol(self, what, msg, case, **kw):
        self.rec.violation(what, msg, case=case, **kw)

    def face(self, data, fontNumber, case, orig=None, must_fail=None):
        rec = self.rec
        ref = cont.reference(data, fontNumber)
        if must_fail and ref.open_error is None:
            ref.open_error = must_fail
        try:
            font = TTFont(io.BytesIO(data), fontNumber=fontNumber)
        except TTLibError:
            rec.witness("TTLibError at open")
            return None
        except Exception as e:
            self.viol("TTFont:%s@%s" % (exc_name(e), site_of(e)), "TTFont(<%s>) raised %s: %s (expected TTLibError)\n%s" % (self.phase, exc_name(e), e, tb_tail(e)), case)
            return None
        if ref.open_error is not None:
            self.viol("TTFont:accepted:%s" % ref.open_error.replace(" ", "-"), "TTFont opened a file whose %s (reference: can only fail)" % ref.open_error, case)
            return font
        rec.witness("opened")
        reader = font.reader
        tags = sorted(str(t) for t in reader.keys())
        if ref.kind != "woff2":
            if tags != sorted(ref.tables):
                self.viol("TTFont:directory-differs", "tags %r, reference %r" % (tags, sorted(ref.tables)), case)
                return font
        for tag in tags:
            expect = ref.tables.get(tag) if ref.kind != "woff2" else (orig.get(tag) if orig is not None else None)
            try:
                got = reader[tag]
            except TTLibError:
                rec.witness("TTLibError reading a table")
                continue
            except Exception as e:
                self.viol("read:%s@%s" % (exc_name(e), site_of(e)), "reader[%r] raised %s: %s (expected bytes or TTLibError)\n%s" % (tag, exc_name(e), e, tb_tail(e)), case)
                continue
            if expect is cont.MUST:
                self.viol("read:returned-missing-bytes", "reader[%r] returned %d bytes although the stored span is not all there" % (tag, len(got)), case)
            elif expect is not None and got != expect:
                self.viol("read:different-bytes", "reader[%r] returned %d bytes that differ from the stored table (%d bytes)" % (tag, len(got), len(expect)), case, observed=got[:64], expected=expect[:64])
            else:
                rec.witness("table bytes exact")
        if ref.kind == "woff":
            fd = font.flavorData
            if fd is not None and (fd.metaData != ref.meta or fd.privData != ref.priv):
                self.viol("TTFont:flavordata-differs", "WOFF metadata/private block differs from the stored one", case)
            elif ref.meta is not None:
                rec.witness("woff metadata exact")
        return font

    def collection(self, data, case, must_fail=None):
        rec = self.rec
        h = cont.ttc_header(data)
        try:
            coll = TTCollection(io.BytesIO(data))
        except TTLibError:
            rec.witness("TTLibError at open (collection)")
            return
        except Exception as e:
            self.viol("TTCollection:%s@%s" % (exc_name(e), site_of(e)), "TTCollection(<%s>) raised %s: %s (expected TTLibError)\n%s" % (self.phase, exc_name(e), e, tb_tail(e)), case)
            return
        if h is None or must_fail:
            self.viol("TTCollection:accepted:short-ttc-header", "TTCollection opened a file whose TTC header is not all there", case)
            return
        rec.witness("collection opened")
        version, offs, end, dsig = h
        if len(coll.fonts) != len(offs):
            self.viol("TTCollection:font-count", "%d fonts, header says %d" % (len(coll.fonts), len(offs)), case)
        for i, font in enumerate(coll.fonts):
            ref = cont.ref_ttc(data, i)
            for tag in sorted(str(t) for t in font.reader.keys()):
                expect = ref.tables.get(tag)
                try:
                    got = font.reader[tag]
                except TTLibError:
                    rec.witness("TTLibError reading a table")
                    continue
                except Exception as e:
                    self.viol("TTCollection-read:%s@%s" % (exc_name(e), site_of(e)), "fonts[%d].reader[%r] raised %s: %s" % (i, tag, exc_name(e), e), case)
                    continue
                if expect is cont.MUST or (expect is not None and got != expect):
                    self.viol("TTCollection-read:different-bytes", "fonts[%d].reader[%r] differs from the stored table" % (i, tag), case)
        if dsig and dsig[2]:
            stored = data[dsig[2] : dsig[2] + dsig[1]]
            got = getattr(getattr(coll, "dsig", None), "data", None)
            if len(stored) != dsig[1] and got is not None:
                self.viol("TTCollection:dsig-short-read", "DSIG block is cut short (%d of %d bytes) but TTCollection opened and kept %d bytes" % (len(stored), dsig[1], len(got)), case)
            elif got is not None and got != stored:
                self.viol("TTCollection:dsig-differs", "DSIG block differs", case)
            else:
                rec.witness("ttc dsig exact")


# ------------------------------------------------------------------ E1
class Truncate(Unit):
    name = "E1-truncate"
    rule = ("every prefix length 0..len of every container file below the size bound (quick 4 kB, thorough 16 kB; corpus sfnt/TTC/WOFF/WOFF2 plus WOFF(+metadata+private)/WOFF2/TTC derived from the small fonts); for larger files every length inside header+directory and +-2 around every table boundary; "
            "TTFont(BytesIO(prefix)) for every face (and TTCollection for TTC) raises TTLibError or opens, then reader[tag] returns exactly the stored bytes or raises TTLibError; distinct = each (file, length)")
    required_witnesses = ("TTLibError at open", "opened", "TTLibError reading a table", "table bytes exact",
                          "cut inside directory", "cut inside table data", "cut inside ttc offset table", "woff metadata exact")
    chunk = 1

    def setup(self, tier, seed):
        self.files = container_files()

    def bounds(self, tier, seed):
        lim = SMALL if tier == "quick" else MEDIUM
        full = [n for n, d in self.files.items() if len(d) < lim and self._full(n, tier)]
        return {"every_length_below": lim, "files_every_length": len(full), "files_boundary_lengths": len(self.files) - len(full), "files": len(self.files)}

    def _full(self, name, tier):
        if tier == "thorough":
            return True
        # quick: derived containers of the 4 smallest sources only
        if name.startswith("derived/") and not name.startswith("derived/ttc"):
            src = name.split("/", 2)[2]
            smallest = sorted((len(d), n) for n, d in self.files.items() if not n.startswith("derived/") and cont.kind_of(d) == "sfnt" and not corpus.is_aots(n))[:4]
            return src in [n for _l, n in smallest]
        return True

    def lengths(self, name, tier):
        data = self.files[name]
        lim = SMALL if tier == "quick" else MEDIUM
        if len(data) < lim and self._full(name, tier):
            return None
        bs, dir_end = cont.boundaries(data)
        s = set(range(0, min(dir_end + 3, len(data) + 1)))
        for b in bs:
            for d in range(-2, 3):
                if 0 <= b + d <= len(data):
                    s.add(b + d)
        return sorted(s)

    def cases(self, tier, seed):
        for name in sorted(self.files, key=lambda n: (len(self.files[n]), n)):
            ls = self.lengths(name, tier)
            if ls is None:
                n = len(self.files[name]) + 1
                for lo in range(0, n, 256):
                    yield ["r", name, lo, min(n, lo + 256)]
            else:
                for i in range(0, len(ls), 256):
                    yield ["s", name, ls[i : i + 256]]

    def check(self, case, rec):
        name = case[1]
        data = self.files[name]
        lens = range(case[2], case[3]) if case[0] == "r" else [case[2]] if case[0] == "l" else case[2]
        kind = cont.kind_of(data)
        orc = ContainerOracle(rec, "prefix", kind)
        orig = orig_tables_woff2(data) if kind == "woff2" else None
        faces = faces_of(data)
        _bs, dir_end = cont.boundaries(data)
        hdr = cont.ttc_header(data)
        n = 0
        for L in lens:
            prefix = data[:L]
            sub = ["l", name, L]
            must = None
            if kind == "woff2" and L < len(data):
                must = "file is shorter than its length field"
            for fn in faces:
                orc.face(prefix, fn, sub, orig=orig, must_fail=must)
                n += 1
            if kind == "ttc":
                orc.collection(prefix, sub)
                n += 1
                if hdr and 12 <= L < hdr[2]:
                    rec.witness("cut inside ttc offset table")
            if L < dir_end:
                rec.witness("cut inside directory")
            elif L < len(data):
                rec.witness("cut inside table data")
        rec.evals(n - 1)
        rec.nontrivial_n(len(lens))


# ------------------------------------------------------------------ E2
def replacement_values(b):
    out = []
    for v in (0x00, 0xFF, b ^ 0x80, (b + 1) & 0xFF, (b - 1) & 0xFF):
        if v != b and v not in out:
            out.append(v)
    return out


class Corrupt(Unit):
    name = "E2-corrupt"
    rule = ("every byte of the header and table directory (TTC header and each member directory, WOFF / WOFF2 header and directory) of every container file x replacement values {0x00, 0xFF, b^0x80, b+1, b-1} (those != b): "
            "open raises TTLibError or works; reader[tag] returns exactly the bytes the corrupted directory designates (independent reader) or raises TTLibError; distinct = each (file, offset, value)")
    required_witnesses = ("TTLibError at open", "opened", "TTLibError reading a table", "table bytes exact", "ttc header byte", "woff header byte", "woff2 header byte")
    chunk = 1

    def setup(self, tier, seed):
        self.files = container_files()

    def select(self, tier):
        names = sorted(self.files, key=lambda n: (len(self.files[n]), n))
        if tier == "quick":
            # the 206 AOTS fonts share one directory layout: quick takes every 8th of them
            aots = [n for n in names if corpus.is_aots(n)]
            keep = set(aots[::8])
            names = [n for n in names if not corpus.is_aots(n) or n in keep]
            names = [n for n in names if not n.startswith("derived/") or Truncate._full(self, n, "quick")]
        return names

    def bounds(self, tier, seed):
        return {"files": len(self.select(tier)), "values_per_byte": "<=5"}

    def cases(self, tier, seed):
        for name in self.select(tier):
            pos = cont.header_positions(self.files[name])
            for i in range(0, len(pos), 48):
                yield [name, pos[i : i + 48]]

    def check(self, case, rec):
        if case[0] == "b":
            name, positions, only = case[1], [case[2]], case[3]
        else:
            (name, positions), only = case, None
        data = self.files[name]
        kind = cont.kind_of(data)
        orc = ContainerOracle(rec, "corrupted header", kind)
        orig = orig_tables_woff2(data) if kind == "woff2" else None
        faces = faces_of(data)
        n = 0
        for p in positions:
            for v in replacement_values(data[p]) if only is None else [only]:
                bad = data[:p] + bytes([v]) + data[p + 1 :]
                sub = ["b", name, p, v]
                o = orig if (kind == "woff2" and p < 48) else None
                for fn in faces:
                    orc.face(bad, fn, sub, orig=o)
                    n += 1
                if kind == "ttc":
                    orc.collection(bad, sub)
                    n += 1
                    rec.witness("ttc header byte")
                elif kind in ("woff", "woff2"):
                    rec.witness(kind + " header byte")
                rec.nontrivial_n(1)
        rec.evals(max(0, n - 1))


# ------------------------------------------------------------------ E2b non-font inputs
MAGICS = [b"OTTO", b"true", b"\x00\x01\x00\x00", b"ttcf", b"wOFF", b"wOF2", b"typ1", b"\x00\x02\x00\x00"]
PNG = b"\x89PNG\r\n\x1a\n\x00\x00\x00\rIHDR\x00\x00\x00\x01\x00\x00\x00\x01\x08\x06\x00\x00\x00\x1f\x15\xc4\x89"


class NonFont(Unit):
    name = "E2-nonfont"
    rule = ("inputs that are not fonts: empty; every byte string of length 1..4 over {0x00,'O','t','w','F',0xFF} as is and padded with 0x00 / 0xFF to 12 and 64 bytes; every container magic followed by 0..64 bytes of 0x00 / 0xFF; a PNG; every non-font file of the corpus tree below 64 kB (TTX, fea, glif, plist, designspace...): "
            "TTFont(BytesIO(x)) and TTCollection(BytesIO(x)) raise TTLibError, or (only when x starts with a container magic and is long enough to hold the headers it announces) open; distinct = each input")
    required_witnesses = ("TTLibError at open", "ttx file rejected", "png rejected", "magic with padding")
    chunk = 1

    def setup(self, tier, seed):
        self.text = []
        for root, _d, fs in os.walk(corpus.TESTS):
            for f in fs:
                p = os.path.join(root, f)
                if not f.lower().endswith(corpus.BIN_EXT) and os.path.getsize(p) < 65536 and not f.endswith((".dfont", ".pfa", ".pfb", ".lwfn", ".rsrc")):
                    self.text.append(p)
        self.text.sort()

    def bounds(self, tier, seed):
        return {"short_strings": 6 + 36 + 216 + 1296, "corpus_non_font_files": len(self.text)}

    def cases(self, tier, seed):
        yield ["empty"]
        yield ["png"]
        for n in (1, 2, 3, 4):
            for first in range(6):
                yield ["short", n, first]
        for i in range(len(MAGICS)):
            yield ["magic", i]
        for i in range(0, len(self.text), 32):
            yield ["files", i, min(len(self.text), i + 32)]

    def one(self, x, rec, sub, not_a_font):
        """not_a_font: the input cannot be a font (no magic / too short) -> must raise."""
        kind = "nonfont"
        for opener, oname in ((lambda b: TTFont(b), "TTFont"), (lambda b: TTCollection(b), "TTCollection")):
            try:
                f = opener(io.BytesIO(x))
            except TTLibError:
                rec.witness("TTLibError at open")
                continue
            except Exception as e:
                rec.violation("%s:%s@%s" % (oname, exc_name(e), site_of(e)), "%s(<%d bytes %r...>) raised %s: %s (expected TTLibError)\n%s" % (oname, len(x), x[:12], exc_name(e), e, tb_tail(e)), case=sub)
                continue
            if not_a_font:
                rec.violation("%s:accepted:not-a-font" % oname, "%s opened %d bytes %r... that are not a font" % (oname, len(x), x[:12]), case=sub)
            else:
                rec.witness("degenerate font opened")
                if oname == "TTFont":
                    for t in sorted(f.reader.keys()):
                        try:
                            f.reader[t]
                        except TTLibError:
                            pass
        rec.nontrivial_n(1)

    @staticmethod
    def is_not_font(x):
        if len(x) < 12:
            return True
        if x[:4] not in (b"OTTO", b"true", b"\x00\x01\x00\x00", b"ttcf", b"wOFF", b"wOF2"):
            return True
        return False

    def check(self, case, rec):
        k = case[0]
        n = 0
        if k == "empty":
            self.one(b"", rec, case, True)
            n = 1
        elif k == "png":
            self.one(PNG, rec, case, True)
            self.one(PNG + b"\0" * 64, rec, case, True)
            rec.witness("png rejected")
            n = 2
        elif k == "short":
            import itertools

            alpha = [0x00, ord("O"), ord("t"), ord("w"), ord("F"), 0xFF]
            ln, first = case[1], case[2]
            for rest in itertools.product(alpha, repeat=ln - 1):
                s = bytes([alpha[first]] + list(rest))
                for x in (s, s.ljust(12, b"\0"), s.ljust(64, b"\0"), s.ljust(12, b"\xff"), s.ljust(64, b"\xff")):
                    self.one(x, rec, ["x", x], self.is_not_font(x))
                    n += 1
        elif k == "magic":
            m = MAGICS[case[1]]
            for pad in (b"\0", b"\xff"):
                for ln in range(0, 65):
                    x = m + pad * ln
                    self.one(x, rec, ["x", x], self.is_not_font(x))
                    n += 1
            rec.witness("magic with padding")
        else:
            for p in self.text[case[1] : case[2]]:
                x = open(p, "rb").read()
                self.one(x, rec, ["file", corpus.rel(p)], self.is_not_font(x))
                if p.endswith(".ttx"):
                    rec.witness("ttx file rejected")
                n += 1
        rec.evals(max(0, 2 * n - 1))

    def replay(self, case):
        if case and case[0] == "x":
            from mc.kernel import Recorder

            rec = Recorder(self.name)
            rec._case = case
            rec.evaluations += 1
            self.one(case[1], rec, case, self.is_not_font(case[1]))
            return rec
        if case and case[0] == "file":
            from mc.kernel import Recorder

            rec = Recorder(self.name)
            rec._case = case
            x = open(os.path.join(corpus.TESTS, case[1]), "rb").read()
            self.one(x, rec, case, self.is_not_font(x))
            return rec
        return super().replay(case)




# ------------------------------------------------------------------ E3
def _limits():
    """once per worker: cap the address space so that a damaged count cannot take the machine
    down (MemoryError is an ordinary exception for the code under test)."""
    import resource

    if getattr(_limits, "done", False):
        return
    _limits.done = True
    try:
        vm = 0
        for line in open("/proc/self/status"):
            if line.startswith("VmSize:"):
                vm = int(line.split()[1]) * 1024
        soft, hard = resource.getrlimit(resource.RLIMIT_AS)
        cap = vm + (1 << 30)
        if hard == resource.RLIM_INFINITY or hard > cap:
            resource.setrlimit(resource.RLIMIT_AS, (cap, hard))
    except Exception:
        pass


class Alarm(BaseException):
    pass


class time_limit:
    """wall-clock guard around one call into the library (a damaged count can make a decoder
    loop for hours); expiry is reported, never silently skipped."""

    def __init__(self, seconds):
        self.seconds = seconds

    def __enter__(self):
        import signal

        def handler(signum, frame):
            raise Alarm()

        self.old = signal.signal(signal.SIGALRM, handler)
        signal.setitimer(signal.ITIMER_REAL, self.seconds)

    def __exit__(self, *a):
        import signal

        signal.setitimer(signal.ITIMER_REAL, 0)
        signal.signal(signal.SIGALRM, self.old)
        return False


def trunc_lengths(n, every_below):
    if n <= every_below:
        return list(range(0, n))
    s = set(range(0, 65)) | set(range(n - 16, n))
    k = 64
    while k < n:
        s.update(x for x in (k - 1, k, k + 1) if 0 <= x < n)
        k *= 2
    return sorted(s)


class Undecodable(Unit):
    name = "E3-undecodable"
    rule = ("every table of every plain-sfnt corpus font below the size bound (quick 4 kB non-AOTS; thorough 16 kB, tables deduplicated by (tag, payload)): payload truncated to every length (tables <= 512 B (quick 256); else 0..64, 2^k-1..2^k+1, len-16..len-1), every single bit flipped in the first 64 B (quick 32), payload replaced by 4 x 0xFF; "
            "font rebuilt by an independent sfnt writer, opened with ignoreDecompileErrors=True: font[tag] never raises; when it is the DefaultTable fallback, save() succeeds and the saved file holds exactly the damaged bytes for that table and the original bytes for every table never loaded; distinct = each (font, tag, damage)")
    required_witnesses = ("fallback to DefaultTable taken", "damaged table still decodes", "fallback saved byte-exact", "untouched tables unchanged")
    chunk = 1

    def setup(self, tier, seed):
        self.fonts = {n: d for n, d in corpus.binary_files() if cont.kind_of(d) == "sfnt" and len(d) < MEDIUM}
        self.limit = 5 if tier == "quick" else 20

    def plan(self, tier):
        lim = SMALL if tier == "quick" else MEDIUM
        seen = set()
        out = []
        for name in sorted(self.fonts, key=lambda n: (len(self.fonts[n]), n)):
            data = self.fonts[name]
            if len(data) >= lim or (tier == "quick" and corpus.is_aots(name)):
                continue
            ref = cont.ref_sfnt(data)
            if ref.open_error or any(v is cont.MUST for v in ref.tables.values()):
                continue
            for tag in sorted(ref.tables):
                key = (tag, ref.tables[tag])
                if key in seen:
                    continue
                seen.add(key)
                out.append((name, tag, len(ref.tables[tag])))
        return out

    def bounds(self, tier, seed):
        p = self.plan(tier)
        return {"font_tables": len(p), "fonts": len({n for n, _t, _l in p})}

    def damages(self, n, tier):
        every = 256 if tier == "quick" else 512
        nbits = 8 * min(n, 32 if tier == "quick" else 64)
        out = [["t", L] for L in trunc_lengths(n, every)]
        out += [["f", b] for b in range(nbits)]
        out.append(["x"])
        return out

    def cases(self, tier, seed):
        for name, tag, n in self.plan(tier):
            ds = self.damages(n, tier)
            for i in range(0, len(ds), 128):
                yield [name, tag, ds[i : i + 128]]

    def check(self, case, rec):
        _limits()
        from fontTools.ttLib.tables.DefaultTable import DefaultTable

        name, tag, ds = case
        data = self.fonts[name]
        ref = cont.ref_sfnt(data)
        orig = ref.tables[tag]
        for d in ds:
            sub = [name, tag, [d]]
            if d[0] == "t":
                payload = orig[: d[1]]
            elif d[0] == "f":
                b = bytearray(orig)
                b[d[1] // 8] ^= 0x80 >> (d[1] % 8)
                payload = bytes(b)
            else:
                payload = b"\xff\xff\xff\xff"
            bad = cont.rebuild_sfnt(data, {tag: payload})
            rec.nontrivial_n(1)
            try:
                with time_limit(self.limit):
                    font = TTFont(io.BytesIO(bad), ignoreDecompileErrors=True)
                    try:
                        table = font[tag]
                    except Exception as e:
                        rec.violation("font[tag]:%s:%s@%s" % (tag.strip(), exc_name(e), site_of(e)), "font[%r] raised %s: %s although ignoreDecompileErrors=True\n%s" % (tag, exc_name(e), e, tb_tail(e)), case=sub)
                        continue
                    if type(table) is not DefaultTable:
                        rec.witness("damaged table still decodes")
                        continue
                    if hasattr(table, "ERROR"):
                        rec.witness("fallback to DefaultTable taken")
                    buf = io.BytesIO()
                    try:
                        font.save(buf)
                    except Exception as e:
                        rec.violation("save-after-fallback:%s:%s@%s" % (tag.strip(), exc_name(e), site_of(e)), "save() raised %s: %s after %r fell back to raw bytes\n%s" % (exc_name(e), e, tag, tb_tail(e)), case=sub)
                        continue
                    never_loaded = [t for t in ref.tables if t != tag and not font.isLoaded(t)]
            except Alarm:
                # a damaged count makes a decoder loop for minutes: not judged (the property
                # promises nothing about time), but counted so that the evidence shows it
                rec.count("undecided: no answer within the time limit (%s)" % tag.strip())
                continue
            out = cont.ref_sfnt(buf.getvalue())
            if out.open_error or out.tables.get(tag) != payload:
                rec.violation("fallback-not-byte-exact:%s" % tag.strip(), "saved %r differs from the damaged payload" % tag, case=sub, observed=(out.tables.get(tag) or b"")[:64], expected=payload[:64])
            else:
                rec.witness("fallback saved byte-exact")
            for t in never_loaded:
                if out.tables.get(t) != ref.tables[t]:
                    rec.violation("untouched-table-changed:%s" % t.strip(), "table %r was never loaded but its bytes changed on save (damaged table %r)" % (t, tag), case=sub)
                    break
            else:
                if never_loaded:
                    rec.witness("untouched tables unchanged")
        rec.evals(len(ds) - 1)


def units():
    return [Truncate(), Corrupt(), NonFont(), Undecodable()]
