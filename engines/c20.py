"""C20 - damaged or hostile input fails cleanly and is never executed.

Fault enumeration: every fault position of each family is visited, none is sampled.

  E1 truncate       every prefix length of the container files (boundary sets for big files)
  E2 corrupt        every header/directory byte x 5 replacement values; non-font inputs
  E3 undecodable    every table x damage pattern with ignoreDecompileErrors=True
  E4 canaries       every value site of TTX / fea / designspace / glif / plist / CFF blend x 4
  E5 paths          content-derived output names never leave the requested directory
  E6 save-crash     every table compile failure point of save onto an existing file

The container oracle is `oracles/c20_container.py` (struct + zlib only): for a damaged file it
says, per table, the exact bytes or "can only fail"; the library may answer with exactly those
bytes or with TTLibError (a subclass), nothing else.
"""
from mc import env  # noqa: F401
from mc.kernel import Unit

import io
import struct
import os

from fontTools.ttLib import TTFont, TTCollection, TTLibError

from oracles import corpus
from oracles import c20_container as cont
from oracles import c20_audit as audit
from oracles import c20_sites as sites

LEVEL = "fault_enumeration"
ASSUMPTIONS = [
    "fault positions are those named in the unit rules over the vendored corpus (Tests/**) and containers derived from it; multi-byte corruptions and faults in files larger than the bounds are not visited",
    "the audit-hook monitor sees Python-level events only (exec/compile/open/os.*/subprocess); code execution that raises no audit event is invisible",
    "the reference container reader (oracles/c20_container.py: struct + zlib) is trusted; WOFF2 has no independent table reference (exception type and the undamaged file's tables only)",
    "checksums are not verified (checkChecksums=0, the default)",
    "E3: a damaged count can make a decoder loop for minutes; a case that has not answered after 4 (quick) / 10 (thorough) CPU seconds is counted under 'undecided: ...' in the unit counters and not judged (the property promises nothing about time); E3 damages plain sfnt files only (not WOFF/WOFF2/TTC members), and 'head' is compared modulo its checkSumAdjustment field (bytes 8..11), which every save recomputes",
    "E4: TTX sites are visited in a document reduced to GlyphOrder + the table carrying the site (first occurrence of the site in its smallest carrier); a site whose evaluation needs other tables to be present is reached only as far as that reduced document allows",
    "E5 not built: designspace `filename` of sources/instances (only read by the library, never written), Windows path semantics ('..\\x' is an ordinary file name on this platform), bitmap extfile is exercised through CBDT only; '.'/'..' as *input file names* of makeOutputFileName are excluded (they name directories)",
    "E6: the fault is an exception raised by the table's compile / the named helper; faults of the operating system during the final write (disk full) are not injected",
]

SMALL = 4096  # quick tier: every-length families use files below this size
MEDIUM = 16384  # thorough tier


def site_of(exc):
    """innermost fontTools frame of an exception: 'ttLib/sfnt.py:WOFFFlavorData.__init__'"""
    site = "?"
    tb = exc.__traceback__
    while tb is not None:
        code = tb.tb_frame.f_code
        if "/fontTools/" in code.co_filename:
            site = "%s:%s" % (code.co_filename.split("/fontTools/")[-1], getattr(code, "co_qualname", code.co_name))
        tb = tb.tb_next
    return site


def exc_name(exc):
    t = type(exc)
    return t.__name__ if t.__module__ == "builtins" else "%s.%s" % (t.__module__, t.__name__)


def tb_tail(exc, n=5):
    import traceback

    return "".join(traceback.format_exception(exc)[-n:])


def preload():
    audit.base_dir()
    _preload_modules()


def _preload_modules():
    """import every table module in the parent, before the fork: the tree is run without byte
    code caching, so that a module first imported in a worker is compiled there from source
    (16 times, while cases wait)."""
    import importlib
    import pkgutil
    import fontTools.ttLib.tables as T

    for m in pkgutil.iter_modules(T.__path__):
        try:
            importlib.import_module("fontTools.ttLib.tables." + m.name)
        except Exception:
            pass
    for name in ("fontTools.cffLib", "fontTools.cffLib.specializer", "fontTools.ttLib.woff2", "fontTools.agl", "fontTools.misc.psCharStrings",
                 "fontTools.feaLib.parser", "fontTools.feaLib.builder", "fontTools.designspaceLib", "fontTools.ufoLib", "fontTools.ufoLib.glifLib",
                 "fontTools.misc.plistlib", "fontTools.varLib", "fontTools.ttx", "fontTools.misc.etree", "fontTools.pens.recordingPen", "fontTools.pens.pointPen"):
        try:
            importlib.import_module(name)
        except Exception:
            pass


# ------------------------------------------------------------------ container files
_FILES = None


def container_files():
    """{name: bytes}: corpus binaries plus WOFF(+metadata+private) / WOFF2 / TTC containers
    derived from small corpus fonts with the writer of the tree under test (inputs only)."""
    global _FILES
    if _FILES is not None:
        return _FILES
    files = dict(corpus.binary_files())
    plain = [(n, d) for n, d in corpus.binary_files() if cont.kind_of(d) == "sfnt" and len(d) < SMALL and not corpus.is_aots(n)]
    derived = {}
    from fontTools.ttLib.sfnt import WOFFFlavorData

    for n, d in plain:
        for flavor in ("woff", "woff2"):
            try:
                f = TTFont(io.BytesIO(d), recalcTimestamp=False, recalcBBoxes=False)
                f.flavor = flavor
                if flavor == "woff":
                    fd = WOFFFlavorData()
                    fd.metaData = b"<?xml version='1.0'?><metadata version='1.0'><uniqueid id='c20'/>" + b"<x/>" * 20 + b"</metadata>"
                    fd.privData = b"C20 private block \x00\x01\x02\xff"
                    fd.majorVersion, fd.minorVersion = 1, 0
                    f.flavorData = fd
                buf = io.BytesIO()
                f.save(buf)
                derived["derived/%s/%s" % (flavor, n)] = buf.getvalue()
            except Exception:
                pass
    try:
        ttfs = [TTFont(io.BytesIO(d), recalcTimestamp=False) for n, d in plain[:2]]
        c = TTCollection()
        c.fonts = ttfs
        buf = io.BytesIO()
        c.save(buf)
        derived["derived/ttc/two-smallest"] = buf.getvalue()
    except Exception:
        pass
    files.update(derived)
    _FILES = files
    return files


def faces_of(data):
    if cont.kind_of(data) == "ttc":
        h = cont.ttc_header(data)
        return list(range(len(h[1]))) if h else [0]
    return [-1]


def orig_tables_woff2(data):
    """tables of an undamaged WOFF2 file, read once through the library (differential
    reference: the same font before the damage)."""
    f = TTFont(io.BytesIO(data))
    return {str(t): f.reader[t] for t in f.reader.keys()}


class ContainerOracle:
    """Open a (damaged) container and read every table; compare with the reference."""

    def __init__(self, rec, phase, kind):
        self.rec = rec
        self.phase = phase
        self.kind = kind

    def viol(self, what, msg, case, **kw):
        self.rec.violation(what, msg, case=case, **kw)

    def face(self, data, fontNumber, case, orig=None, must_fail=None):
        rec = self.rec
        ref = cont.reference(data, fontNumber)
        if must_fail and ref.open_error is None:
            ref.open_error = must_fail
        try:
            font = TTFont(io.BytesIO(data), fontNumber=fontNumber)
        except TTLibError:
            rec.witness("TTLibError at open")
            return None
        except Exception as e:
            self.viol("TTFont:%s@%s" % (exc_name(e), site_of(e)), "TTFont(<%s>) raised %s: %s (expected TTLibError)\n%s" % (self.phase, exc_name(e), e, tb_tail(e)), case)
            return None
        if ref.open_error is not None:
            self.viol("TTFont:accepted:%s" % ref.open_error.replace(" ", "-"), "TTFont opened a file whose %s (reference: can only fail)" % ref.open_error, case)
            return font
        rec.witness("opened")
        reader = font.reader
        tags = sorted(str(t) for t in reader.keys())
        if ref.kind != "woff2":
            if tags != sorted(ref.tables):
                self.viol("TTFont:directory-differs", "tags %r, reference %r" % (tags, sorted(ref.tables)), case)
                return font
        for tag in tags:
            expect = ref.tables.get(tag) if ref.kind != "woff2" else (orig.get(tag) if orig is not None else None)
            try:
                got = reader[tag]
            except TTLibError:
                rec.witness("TTLibError reading a table")
                continue
            except Exception as e:
                self.viol("read:%s@%s" % (exc_name(e), site_of(e)), "reader[%r] raised %s: %s (expected bytes or TTLibError)\n%s" % (tag, exc_name(e), e, tb_tail(e)), case)
                continue
            if expect is cont.MUST:
                self.viol("read:returned-missing-bytes", "reader[%r] returned %d bytes although the stored span is not all there" % (tag, len(got)), case)
            elif expect is not None and got != expect:
                self.viol("read:different-bytes", "reader[%r] returned %d bytes that differ from the stored table (%d bytes)" % (tag, len(got), len(expect)), case, observed=got[:64], expected=expect[:64])
            else:
                rec.witness("table bytes exact")
        if ref.kind == "woff":
            fd = font.flavorData
            if fd is not None and (fd.metaData != ref.meta or fd.privData != ref.priv):
                self.viol("TTFont:flavordata-differs", "WOFF metadata/private block differs from the stored one", case)
            elif ref.meta is not None:
                rec.witness("woff metadata exact")
        return font

    def collection(self, data, case, must_fail=None):
        rec = self.rec
        h = cont.ttc_header(data)
        try:
            coll = TTCollection(io.BytesIO(data))
        except TTLibError:
            rec.witness("TTLibError at open (collection)")
            return
        except Exception as e:
            self.viol("TTCollection:%s@%s" % (exc_name(e), site_of(e)), "TTCollection(<%s>) raised %s: %s (expected TTLibError)\n%s" % (self.phase, exc_name(e), e, tb_tail(e)), case)
            return
        if h is None or must_fail:
            self.viol("TTCollection:accepted:short-ttc-header", "TTCollection opened a file whose TTC header is not all there", case)
            return
        rec.witness("collection opened")
        version, offs, end, dsig = h
        if len(coll.fonts) != len(offs):
            self.viol("TTCollection:font-count", "%d fonts, header says %d" % (len(coll.fonts), len(offs)), case)
        for i, font in enumerate(coll.fonts):
            ref = cont.ref_ttc(data, i)
            for tag in sorted(str(t) for t in font.reader.keys()):
                expect = ref.tables.get(tag)
                try:
                    got = font.reader[tag]
                except TTLibError:
                    rec.witness("TTLibError reading a table")
                    continue
                except Exception as e:
                    self.viol("TTCollection-read:%s@%s" % (exc_name(e), site_of(e)), "fonts[%d].reader[%r] raised %s: %s" % (i, tag, exc_name(e), e), case)
                    continue
                if expect is cont.MUST or (expect is not None and got != expect):
                    self.viol("TTCollection-read:different-bytes", "fonts[%d].reader[%r] differs from the stored table" % (i, tag), case)
        if dsig and dsig[2]:
            stored = data[dsig[2] : dsig[2] + dsig[1]]
            got = getattr(getattr(coll, "dsig", None), "data", None)
            if len(stored) != dsig[1] and got is not None:
                self.viol("TTCollection:dsig-short-read", "DSIG block is cut short (%d of %d bytes) but TTCollection opened and kept %d bytes" % (len(stored), dsig[1], len(got)), case)
            elif got is not None and got != stored:
                self.viol("TTCollection:dsig-differs", "DSIG block differs", case)
            else:
                rec.witness("ttc dsig exact")


# ------------------------------------------------------------------ E1
class Truncate(Unit):
    name = "E1-truncate"
    rule = ("every prefix length 0..len of every container file below the size bound (quick 4 kB, thorough 16 kB; corpus sfnt/TTC/WOFF/WOFF2 plus WOFF(+metadata+private)/WOFF2/TTC derived from the small fonts); for larger files every length inside header+directory and +-2 around every table boundary; "
            "TTFont(BytesIO(prefix)) for every face (and TTCollection for TTC) raises TTLibError or opens, then reader[tag] returns exactly the stored bytes or raises TTLibError; distinct = each (file, length)")
    required_witnesses = ("TTLibError at open", "opened", "TTLibError reading a table", "table bytes exact",
                          "cut inside directory", "cut inside table data", "cut inside ttc offset table", "woff metadata exact")
    chunk = 1

    def setup(self, tier, seed):
        self.files = container_files()

    def bounds(self, tier, seed):
        lim = SMALL if tier == "quick" else MEDIUM
        full = [n for n, d in self.files.items() if len(d) < lim and self._full(n, tier)]
        return {"every_length_below": lim, "files_every_length": len(full), "files_boundary_lengths": len(self.files) - len(full), "files": len(self.files)}

    def _full(self, name, tier):
        if tier == "thorough":
            return True
        # quick: derived containers of the 4 smallest sources only
        if name.startswith("derived/") and not name.startswith("derived/ttc"):
            src = name.split("/", 2)[2]
            smallest = sorted((len(d), n) for n, d in self.files.items() if not n.startswith("derived/") and cont.kind_of(d) == "sfnt" and not corpus.is_aots(n))[:4]
            return src in [n for _l, n in smallest]
        return True

    def lengths(self, name, tier):
        data = self.files[name]
        lim = SMALL if tier == "quick" else MEDIUM
        if len(data) < lim and self._full(name, tier):
            return None
        bs, dir_end = cont.boundaries(data)
        s = set(range(0, min(dir_end + 3, len(data) + 1)))
        for b in bs:
            for d in range(-2, 3):
                if 0 <= b + d <= len(data):
                    s.add(b + d)
        return sorted(s)

    def cases(self, tier, seed):
        for name in sorted(self.files, key=lambda n: (len(self.files[n]), n)):
            ls = self.lengths(name, tier)
            if ls is None:
                n = len(self.files[name]) + 1
                for lo in range(0, n, 256):
                    yield ["r", name, lo, min(n, lo + 256)]
            else:
                for i in range(0, len(ls), 256):
                    yield ["s", name, ls[i : i + 256]]

    def check(self, case, rec):
        name = case[1]
        data = self.files[name]
        lens = range(case[2], case[3]) if case[0] == "r" else [case[2]] if case[0] == "l" else case[2]
        kind = cont.kind_of(data)
        orc = ContainerOracle(rec, "prefix", kind)
        orig = orig_tables_woff2(data) if kind == "woff2" else None
        faces = faces_of(data)
        _bs, dir_end = cont.boundaries(data)
        hdr = cont.ttc_header(data)
        n = 0
        for L in lens:
            prefix = data[:L]
            sub = ["l", name, L]
            must = None
            if kind == "woff2" and L < len(data):
                must = "file is shorter than its length field"
            for fn in faces:
                orc.face(prefix, fn, sub, orig=orig, must_fail=must)
                n += 1
            if kind == "ttc":
                orc.collection(prefix, sub)
                n += 1
                if hdr and 12 <= L < hdr[2]:
                    rec.witness("cut inside ttc offset table")
            if L < dir_end:
                rec.witness("cut inside directory")
            elif L < len(data):
                rec.witness("cut inside table data")
        rec.evals(n - 1)
        rec.nontrivial_n(len(lens))


# ------------------------------------------------------------------ E2
def replacement_values(b):
    out = []
    for v in (0x00, 0xFF, b ^ 0x80, (b + 1) & 0xFF, (b - 1) & 0xFF):
        if v != b and v not in out:
            out.append(v)
    return out


class Corrupt(Unit):
    name = "E2-corrupt"
    rule = ("every byte of the header and table directory (TTC header and each member directory, WOFF / WOFF2 header and directory) of every container file x replacement values {0x00, 0xFF, b^0x80, b+1, b-1} (those != b): "
            "open raises TTLibError or works; reader[tag] returns exactly the bytes the corrupted directory designates (independent reader) or raises TTLibError; distinct = each (file, offset, value)")
    required_witnesses = ("TTLibError at open", "opened", "TTLibError reading a table", "table bytes exact", "ttc header byte", "woff header byte", "woff2 header byte")
    chunk = 1

    def setup(self, tier, seed):
        self.files = container_files()
        self.seed = seed

    def select(self, tier):
        names = sorted(self.files, key=lambda n: (len(self.files[n]), n))
        if tier == "quick":
            # the 206 AOTS fonts share one directory layout: quick takes every 8th of them (the seed
            # chooses which residue class)
            aots = [n for n in names if corpus.is_aots(n)]
            keep = set(aots[self.seed % 8 :: 8])
            names = [n for n in names if not corpus.is_aots(n) or n in keep]
            names = [n for n in names if not n.startswith("derived/") or Truncate._full(self, n, "quick")]
        return names

    def bounds(self, tier, seed):
        return {"files": len(self.select(tier)), "values_per_byte": "<=5"}

    def cases(self, tier, seed):
        for name in self.select(tier):
            pos = cont.header_positions(self.files[name])
            for i in range(0, len(pos), 48):
                yield [name, pos[i : i + 48]]

    def check(self, case, rec):
        if case[0] == "b":
            name, positions, only = case[1], [case[2]], case[3]
        else:
            (name, positions), only = case, None
        data = self.files[name]
        kind = cont.kind_of(data)
        orc = ContainerOracle(rec, "corrupted header", kind)
        orig = orig_tables_woff2(data) if kind == "woff2" else None
        faces = faces_of(data)
        n = 0
        for p in positions:
            for v in replacement_values(data[p]) if only is None else [only]:
                bad = data[:p] + bytes([v]) + data[p + 1 :]
                sub = ["b", name, p, v]
                o = orig if (kind == "woff2" and p < 48) else None
                for fn in faces:
                    orc.face(bad, fn, sub, orig=o)
                    n += 1
                if kind == "ttc":
                    orc.collection(bad, sub)
                    n += 1
                    rec.witness("ttc header byte")
                elif kind in ("woff", "woff2"):
                    rec.witness(kind + " header byte")
                rec.nontrivial_n(1)
        rec.evals(max(0, n - 1))


# ------------------------------------------------------------------ E2b non-font inputs
MAGICS = [b"OTTO", b"true", b"\x00\x01\x00\x00", b"ttcf", b"wOFF", b"wOF2", b"typ1", b"\x00\x02\x00\x00"]
PNG = b"\x89PNG\r\n\x1a\n\x00\x00\x00\rIHDR\x00\x00\x00\x01\x00\x00\x00\x01\x08\x06\x00\x00\x00\x1f\x15\xc4\x89"


class NonFont(Unit):
    name = "E2-nonfont"
    rule = ("inputs that are not fonts: empty; every byte string of length 1..4 over {0x00,'O','t','w','F',0xFF} as is and padded with 0x00 / 0xFF to 12 and 64 bytes; every container magic followed by 0..64 bytes of 0x00 / 0xFF; a PNG; every non-font file of the corpus tree below 64 kB (TTX, fea, glif, plist, designspace...): "
            "TTFont(BytesIO(x)) and TTCollection(BytesIO(x)) raise TTLibError, or (only when x starts with a container magic and is long enough to hold the headers it announces) open; distinct = each input")
    required_witnesses = ("TTLibError at open", "ttx file rejected", "png rejected", "magic with padding")
    chunk = 1

    def setup(self, tier, seed):
        self.text = []
        for root, _d, fs in os.walk(corpus.TESTS):
            for f in fs:
                p = os.path.join(root, f)
                if not f.lower().endswith(corpus.BIN_EXT) and os.path.getsize(p) < 65536 and not f.endswith((".dfont", ".pfa", ".pfb", ".lwfn", ".rsrc")):
                    self.text.append(p)
        self.text.sort()

    def bounds(self, tier, seed):
        return {"short_strings": 6 + 36 + 216 + 1296, "corpus_non_font_files": len(self.text)}

    def cases(self, tier, seed):
        yield ["empty"]
        yield ["png"]
        for n in (1, 2, 3, 4):
            for first in range(6):
                yield ["short", n, first]
        for i in range(len(MAGICS)):
            yield ["magic", i]
        for i in range(0, len(self.text), 32):
            yield ["files", i, min(len(self.text), i + 32)]

    def one(self, x, rec, sub, not_a_font):
        """not_a_font: the input cannot be a font (no magic / too short) -> must raise."""
        kind = "nonfont"
        for opener, oname in ((lambda b: TTFont(b), "TTFont"), (lambda b: TTCollection(b), "TTCollection")):
            try:
                f = opener(io.BytesIO(x))
            except TTLibError:
                rec.witness("TTLibError at open")
                continue
            except Exception as e:
                rec.violation("%s:%s@%s" % (oname, exc_name(e), site_of(e)), "%s(<%d bytes %r...>) raised %s: %s (expected TTLibError)\n%s" % (oname, len(x), x[:12], exc_name(e), e, tb_tail(e)), case=sub)
                continue
            if not_a_font:
                rec.violation("%s:accepted:not-a-font" % oname, "%s opened %d bytes %r... that are not a font" % (oname, len(x), x[:12]), case=sub)
            else:
                rec.witness("degenerate font opened")
                if oname == "TTFont":
                    for t in sorted(f.reader.keys()):
                        try:
                            f.reader[t]
                        except TTLibError:
                            pass
        rec.nontrivial_n(1)

    @staticmethod
    def is_not_font(x):
        if len(x) < 12:
            return True
        if x[:4] not in (b"OTTO", b"true", b"\x00\x01\x00\x00", b"ttcf", b"wOFF", b"wOF2"):
            return True
        return False

    def check(self, case, rec):
        k = case[0]
        n = 0
        if k == "empty":
            self.one(b"", rec, case, True)
            n = 1
        elif k == "png":
            self.one(PNG, rec, case, True)
            self.one(PNG + b"\0" * 64, rec, case, True)
            rec.witness("png rejected")
            n = 2
        elif k == "short":
            import itertools

            alpha = [0x00, ord("O"), ord("t"), ord("w"), ord("F"), 0xFF]
            ln, first = case[1], case[2]
            for rest in itertools.product(alpha, repeat=ln - 1):
                s = bytes([alpha[first]] + list(rest))
                for x in (s, s.ljust(12, b"\0"), s.ljust(64, b"\0"), s.ljust(12, b"\xff"), s.ljust(64, b"\xff")):
                    self.one(x, rec, ["x", x], self.is_not_font(x))
                    n += 1
        elif k == "magic":
            m = MAGICS[case[1]]
            for pad in (b"\0", b"\xff"):
                for ln in range(0, 65):
                    x = m + pad * ln
                    self.one(x, rec, ["x", x], self.is_not_font(x))
                    n += 1
            rec.witness("magic with padding")
        else:
            for p in self.text[case[1] : case[2]]:
                x = open(p, "rb").read()
                self.one(x, rec, ["file", corpus.rel(p)], self.is_not_font(x))
                if p.endswith(".ttx"):
                    rec.witness("ttx file rejected")
                n += 1
        rec.evals(max(0, 2 * n - 1))

    def replay(self, case):
        if case and case[0] == "x":
            from mc.kernel import Recorder

            rec = Recorder(self.name)
            rec._case = case
            rec.evaluations += 1
            self.one(case[1], rec, case, self.is_not_font(case[1]))
            return rec
        if case and case[0] == "file":
            from mc.kernel import Recorder

            rec = Recorder(self.name)
            rec._case = case
            x = open(os.path.join(corpus.TESTS, case[1]), "rb").read()
            self.one(x, rec, case, self.is_not_font(x))
            return rec
        return super().replay(case)




# ------------------------------------------------------------------ E3
def _limits():
    """once per worker: cap the address space so that a damaged count cannot take the machine
    down (MemoryError is an ordinary exception for the code under test)."""
    import resource

    if getattr(_limits, "done", False):
        return
    _limits.done = True
    try:
        vm = 0
        for line in open("/proc/self/status"):
            if line.startswith("VmSize:"):
                vm = int(line.split()[1]) * 1024
        soft, hard = resource.getrlimit(resource.RLIMIT_AS)
        cap = vm + (1 << 30)
        if hard == resource.RLIM_INFINITY or hard > cap:
            resource.setrlimit(resource.RLIMIT_AS, (cap, hard))
    except Exception:
        pass


class Alarm(BaseException):
    pass


class time_limit:
    """CPU-time guard (ITIMER_PROF: user + system time of this process, so that the verdict
    does not depend on the load of the machine) around one call into the library: a damaged
    count can make a decoder loop for hours; expiry is counted, never silently skipped."""

    def __init__(self, seconds):
        self.seconds = seconds

    def __enter__(self):
        import signal

        def handler(signum, frame):
            raise Alarm()

        self.old = signal.signal(signal.SIGPROF, handler)
        signal.setitimer(signal.ITIMER_PROF, self.seconds)

    def __exit__(self, *a):
        import signal

        signal.setitimer(signal.ITIMER_PROF, 0)
        signal.signal(signal.SIGPROF, self.old)
        return False


def trunc_lengths(n, every_below):
    if n <= every_below:
        return list(range(0, n))
    s = set(range(0, 65)) | set(range(n - 16, n))
    k = 64
    while k < n:
        s.update(x for x in (k - 1, k, k + 1) if 0 <= x < n)
        k *= 2
    return sorted(s)


def ttc_shared_tables(data):
    """{tag: (offset, length, [member indices])} for the tables of a collection that two or more
    members point at (same offset and length in their directories); struct only."""
    h = cont.ttc_header(data)
    if h is None:
        return {}
    _v, offs, _end, _dsig = h
    where = {}
    for i, o in enumerate(offs):
        if len(data) < o + 12:
            return {}
        ntab = struct.unpack(">H", data[o + 4 : o + 6])[0]
        for k in range(ntab):
            e = o + 12 + 16 * k
            tag, _cs, toff, tlen = struct.unpack(">4sLLL", data[e : e + 16])
            where.setdefault((tag.decode("latin-1"), toff, tlen), []).append(i)
    return {tag: (toff, tlen, m) for (tag, toff, tlen), m in where.items() if len(m) > 1 and tlen > 0}


class Undecodable(Unit):
    name = "E3-undecodable"
    rule = ("every table of every plain-sfnt corpus font below the size bound (quick 4 kB non-AOTS plus one AOTS font chosen by the seed; thorough 16 kB; tables deduplicated by (tag, payload)): payload truncated to every length (tables <= 512 B (quick 128); else 0..64, 2^k-1..2^k+1, len-16..len-1), every single bit flipped in the first 64 B (quick 16), payload replaced by 4 x 0xFF; "
            "font rebuilt by an independent sfnt writer, opened with ignoreDecompileErrors=True: font[tag] never raises; when it is the DefaultTable fallback, save() succeeds and the saved file holds exactly the damaged bytes for that table and the original bytes for every table never loaded; plus every table shared by several members of a corpus collection damaged in place (12 patterns) x shareTables {True, False} x both access orders: every member sees the same outcome, a fallback holds exactly the damaged bytes; distinct = each (font, tag, damage)")
    required_witnesses = ("fallback to DefaultTable taken", "damaged table still decodes", "fallback saved byte-exact", "untouched tables unchanged",
                          "collection: shared damaged table fell back in every member")
    chunk = 1

    def setup(self, tier, seed):
        self.fonts = {n: d for n, d in corpus.binary_files() if cont.kind_of(d) == "sfnt" and len(d) < MEDIUM}
        self.ttcs = {n: d for n, d in corpus.binary_files() if cont.kind_of(d) == "ttc" and len(d) < MEDIUM}
        self.limit = 4 if tier == "quick" else 10
        self.seed = seed
        preload()

    def aots_pick(self):
        a = sorted(n for n in self.fonts if corpus.is_aots(n))
        return a[(self.seed * 37) % len(a)] if a else None

    def plan(self, tier):
        lim = SMALL if tier == "quick" else MEDIUM
        seen = set()
        out = []
        for name in sorted(self.fonts, key=lambda n: (len(self.fonts[n]), n)):
            data = self.fonts[name]
            if len(data) >= (MEDIUM if corpus.is_aots(name) else lim) or (tier == "quick" and corpus.is_aots(name) and name != self.aots_pick()):
                continue
            ref = cont.ref_sfnt(data)
            if ref.open_error or any(v is cont.MUST for v in ref.tables.values()):
                continue
            for tag in sorted(ref.tables):
                key = (tag, ref.tables[tag])
                if key in seen:
                    continue
                seen.add(key)
                out.append((name, tag, len(ref.tables[tag])))
        return out

    def bounds(self, tier, seed):
        p = self.plan(tier)
        return {"font_tables": len(p), "fonts": len({n for n, _t, _l in p})}

    def damages(self, n, tier):
        every = 128 if tier == "quick" else 512
        nbits = 8 * min(n, 16 if tier == "quick" else 64)
        out = [["t", L] for L in trunc_lengths(n, every)]
        out += [["f", b] for b in range(nbits)]
        out.append(["x"])
        return out

    def cases(self, tier, seed):
        for name, tag, n in self.plan(tier):
            ds = self.damages(n, tier)
            for i in range(0, len(ds), 64):
                yield [name, tag, ds[i : i + 64]]
        # collections: every table stored once and used by several members, damaged in place
        for name, data in sorted(self.ttcs.items()):
            for tag, (off, length, members) in sorted(ttc_shared_tables(data).items()):
                yield ["ttc", name, tag, off, length, members]

    def check_ttc(self, case, rec):
        """A damaged table that several members of a collection share: with and without the shared
        table cache, in both orders of access, every member must see the same thing - the decoded
        table, or the raw-bytes fallback holding exactly the damaged bytes."""
        from fontTools.ttLib.tables.DefaultTable import DefaultTable

        _k, name, tag, off, length, members = case
        data = self.ttcs[name]
        dmg = [("ff", b"\xff" * length), ("zero", b"\0" * length), ("head-ff", b"\xff" * min(4, length) + data[off + min(4, length) : off + length]),
               ("tail-ff", data[off : off + length - min(4, length)] + b"\xff" * min(4, length))]
        dmg += [("bit%d" % b, bytes([data[off] ^ (0x80 >> b)]) + data[off + 1 : off + length]) for b in range(8)] if length else []
        n = 0
        for label, payload in dmg:
            bad = data[:off] + payload + data[off + length :]
            for share in (True, False):
                for order in (list(members), list(reversed(members))):
                    n += 1
                    sub = ["ttc", name, tag, label, share, order]
                    try:
                        with time_limit(self.limit):
                            coll = TTCollection(io.BytesIO(bad), shareTables=share, ignoreDecompileErrors=True)
                            seen = []
                            for i in order:
                                try:
                                    t = coll.fonts[i][tag]
                                except Exception as e:
                                    rec.violation("ttc:font[tag]:%s:%s@%s" % (tag.strip(), exc_name(e), site_of(e)), "member %d: font[%r] raised %s although ignoreDecompileErrors=True\n%s" % (i, tag, exc_name(e), tb_tail(e)), case=sub)
                                    seen = None
                                    break
                                seen.append((i, type(t) is DefaultTable, t))
                    except Alarm:
                        rec.count("undecided: no answer within the time limit (%s)" % tag.strip())
                        continue
                    if not seen:
                        continue
                    kinds = {fb for _i, fb, _t in seen}
                    if len(kinds) > 1:
                        rec.violation("ttc:members-disagree:%s" % tag.strip(), "shareTables=%s order %s, table %r damaged (%s): fallback taken per member: %s" % (share, order, tag, label, [(i, fb) for i, fb, _t in seen]), case=sub)
                        continue
                    if True in kinds:
                        rec.witness("collection: shared damaged table fell back in every member")
                        for i, _fb, t in seen:
                            if t.data != payload:
                                rec.violation("ttc:fallback-not-byte-exact:%s" % tag.strip(), "member %d keeps %d raw bytes that differ from the damaged payload" % (i, len(t.data)), case=sub, observed=t.data[:48], expected=payload[:48])
                    else:
                        rec.witness("collection: shared damaged table still decodes")
        rec.evals(max(0, n - 1))
        rec.nontrivial_n(len(dmg))

    def check(self, case, rec):
        _limits()
        from fontTools.ttLib.tables.DefaultTable import DefaultTable

        if case[0] == "ttc":
            return self.check_ttc(case, rec)
        name, tag, ds = case
        data = self.fonts[name]
        ref = cont.ref_sfnt(data)
        orig = ref.tables[tag]
        for d in ds:
            sub = [name, tag, [d]]
            if d[0] == "t":
                payload = orig[: d[1]]
            elif d[0] == "f":
                b = bytearray(orig)
                b[d[1] // 8] ^= 0x80 >> (d[1] % 8)
                payload = bytes(b)
            else:
                payload = b"\xff\xff\xff\xff"
            bad = cont.rebuild_sfnt(data, {tag: payload})
            rec.nontrivial_n(1)
            try:
                with time_limit(self.limit):
                    font = TTFont(io.BytesIO(bad), ignoreDecompileErrors=True)
                    try:
                        table = font[tag]
                    except Exception as e:
                        rec.violation("font[tag]:%s:%s@%s" % (tag.strip(), exc_name(e), site_of(e)), "font[%r] raised %s: %s although ignoreDecompileErrors=True\n%s" % (tag, exc_name(e), e, tb_tail(e)), case=sub)
                        continue
                    if type(table) is not DefaultTable:
                        rec.witness("damaged table still decodes")
                        continue
                    if hasattr(table, "ERROR"):
                        rec.witness("fallback to DefaultTable taken")
                    buf = io.BytesIO()
                    try:
                        font.save(buf)
                    except Exception as e:
                        rec.violation("save-after-fallback:%s:%s@%s" % (tag.strip(), exc_name(e), site_of(e)), "save() raised %s: %s after %r fell back to raw bytes\n%s" % (exc_name(e), e, tag, tb_tail(e)), case=sub)
                        continue
                    never_loaded = [t for t in ref.tables if t != tag and not font.isLoaded(t)]
            except Alarm:
                # a damaged count makes a decoder loop for minutes: not judged (the property
                # promises nothing about time), but counted so that the evidence shows it
                rec.count("undecided: no answer within the time limit (%s)" % tag.strip())
                continue
            out = cont.ref_sfnt(buf.getvalue())
            saved = out.tables.get(tag)
            if tag == "head" and isinstance(saved, bytes) and len(saved) == len(payload):
                # bytes 8..11 of 'head' hold the whole-file checksum adjustment, which every
                # save recomputes: a field of the container, not of the table content
                saved = saved[:8] + payload[8:12] + saved[12:]
            if out.open_error or saved != payload:
                rec.violation("fallback-not-byte-exact:%s" % tag.strip(), "saved %r differs from the damaged payload" % tag, case=sub, observed=(saved if isinstance(saved, bytes) else b"")[:64], expected=payload[:64])
            else:
                rec.witness("fallback saved byte-exact")
            for t in never_loaded:
                if out.tables.get(t) != ref.tables[t]:
                    rec.violation("untouched-table-changed:%s:damaged-%s" % (t.strip(), tag.strip()), "table %r was never loaded but its bytes changed on save (damaged table %r, %d bytes)" % (t, tag, len(payload)), case=sub,
                                  observed=out.tables.get(t) if not isinstance(out.tables.get(t), bytes) else out.tables.get(t)[:32], expected=ref.tables[t][:32])
                    break
            else:
                if never_loaded:
                    rec.witness("untouched tables unchanged")
        rec.evals(len(ds) - 1)


# ------------------------------------------------------------------ E4 code-execution canaries


def judge_canary(rec, w, what, site_key, sub, exc, canary):
    """after a run inside Watch `w`: report execution; classify the ordinary outcomes."""
    if w.executed:
        rec.violation("executed:%s:%s" % (what, ":".join(str(k) for k in site_key)),
                      "%s value was executed (%s canary): %s" % (what, canary, "; ".join(sorted(set(w.executed)))), case=sub)
        return
    if exc is None:
        rec.witness("canary kept as data (clean parse)")
    else:
        if isinstance(exc, (RecursionError, MemoryError)):
            rec.witness("resource error survived")
        tb = exc.__traceback__
        in_ast = False
        while tb is not None:
            if tb.tb_frame.f_code.co_filename.endswith("/ast.py"):
                in_ast = True
            tb = tb.tb_next
        if in_ast:
            rec.witness("literal_eval refused the canary")
        else:
            rec.witness("ordinary exception")
    if w.compiles:
        rec.witness("value reached a parser (compile event only)")


def guarded(fn, limit=60):
    """run fn(); -> (exception | None).  BaseException other than Exception is re-raised
    (SystemExit etc. are not ordinary outcomes) except the time guard."""
    import warnings

    try:
        with warnings.catch_warnings():
            warnings.simplefilter("ignore")
            with time_limit(limit):
                fn()
        return None
    except Alarm:
        return TimeoutError("no answer within %d s" % limit)
    except Exception as e:
        return e


class CanaryTTX(Unit):
    name = "E4-ttx"
    rule = ("every distinct (table, element, attribute | text node) site of the corpus TTX files (smallest carrier file; document reduced to GlyphOrder + that table) plus the attributes the reader itself evaluates (raw, ERROR, sfntVersion, src) x 8 canaries (os.mkdir(P), open(P,'w'), __subclasses__ chain, 200-deep parenthesis bomb, and four quote-breakout forms \" ' \"\"\" ''' for readers that wrap the value in quotes before evaluating it): "
            "TTFont().importXML, then compile of every imported table; the audit hook sees no exec of the canary and no os.mkdir/open/system/Popen on P, P does not exist afterwards; outcome is a clean parse or an ordinary exception; distinct = each (site, canary)")
    required_witnesses = ("literal_eval refused the canary", "canary kept as data (clean parse)", "table compiled after import", "monitor sees a real eval", "monitor ignores literal_eval")
    chunk = 12

    def setup(self, tier, seed):
        preload()
        paths = sorted(corpus.ttx_files(), key=lambda p: (os.path.getsize(p), p))
        self.sites = sites.ttx_sites(paths, corpus.TESTS)
        self._cache = (None, None)

    def bounds(self, tier, seed):
        return {"sites": len(self.sites), "carrier_files": len({s[3] for s in self.sites}), "canaries": len(audit.CANARY_NAMES), "synthetic_sites": len(sites.SYNTHETIC_TTX)}

    def cases(self, tier, seed):
        yield ["selftest"]
        for k in sorted(sites.SYNTHETIC_TTX):
            yield ["synthetic", k]
        for s in sorted(self.sites, key=lambda s: (s[3], s[0], s[1], s[2])):
            yield ["site"] + s

    def root(self, rel):
        import xml.etree.ElementTree as ET

        if self._cache[0] != rel:
            self._cache = (rel, ET.parse(os.path.join(corpus.TESTS, rel)).getroot())
        return self._cache[1]

    def check(self, case, rec):
        _limits()
        if case[0] == "selftest":
            seen, lit_ok = audit.self_test()
            if len(seen) == 4:
                rec.witness("monitor sees a real eval")
            if lit_ok:
                rec.witness("monitor ignores literal_eval")
            return
        n = 0
        only = None
        if case[-1] in audit.CANARY_NAMES:  # a recorded violation: one canary of the site
            case, only = case[:-1], case[-1]
        for cname in audit.CANARY_NAMES if only is None else [only]:
            w = audit.Watch()
            value = w.canaries()[cname]
            if case[0] == "synthetic":
                doc = (sites.SYNTHETIC_TTX[case[1]] % sites.xml_attr_escape(value)).encode()
                key = ["synthetic", case[1]]
            else:
                _k, table, element, attr, rel = case
                doc = sites.ttx_reduced(self.root(rel), table, element, attr, value)
                key = [table, element, attr]
                if doc is None:
                    rec.count("site not found again")
                    continue
            font = TTFont()
            state = {}

            def run():
                font.importXML(io.BytesIO(doc))
                state["imported"] = True
                for tag in font.keys():
                    if tag != "GlyphOrder":
                        try:
                            font[tag].compile(font)
                            state["compiled"] = True
                        except Exception:
                            pass

            with w:
                exc = guarded(run)
            if state.get("compiled"):
                rec.witness("table compiled after import")
            judge_canary(rec, w, "ttx", key, case + [cname], exc, cname)
            rec.nontrivial_n(1)
            n += 1
        rec.evals(max(0, n - 1))


class CanaryXML(Unit):
    name = "E4-xml"
    rule = ("designspace / GLIF / property-list files of the corpus: quick = every distinct (root, element, attribute | text) site with its smallest carrier; thorough = every value occurrence of every file; x 8 canaries: "
            "DesignSpaceDocument.fromstring, glifLib.readGlyphFromString (glyph object + point pen), misc.plistlib.loads; same monitor as E4-ttx; distinct = each (file, occurrence, canary)")
    required_witnesses = ("designspace", "glif", "plist", "canary kept as data (clean parse)", "ordinary exception")
    chunk = 8

    EXT = {"designspace": ".designspace", "glif": ".glif", "plist": ".plist"}

    def setup(self, tier, seed):
        preload()
        self.plan = {}
        for fmt, ext in self.EXT.items():
            paths = [p for p in sites.files_with_ext(corpus.TESTS, ext) if os.path.getsize(p) < 200000]
            self.plan[fmt] = sites.xml_file_sites(paths, corpus.TESTS)

    def bounds(self, tier, seed):
        return {fmt: {"distinct_sites": len(s), "files": len(o), "occurrences": sum(o.values())} for fmt, (s, o) in self.plan.items()}

    def cases(self, tier, seed):
        for fmt in sorted(self.plan):
            s, occ = self.plan[fmt]
            if tier == "quick":
                for key, rel, idx in s:
                    yield [fmt, rel, [idx]]
            else:
                import xml.etree.ElementTree as ET

                for rel in sorted(occ):
                    root = ET.parse(os.path.join(corpus.TESTS, rel)).getroot()
                    oc = sites.xml_occurrences(root)
                    for i in range(0, len(oc), 8):
                        yield [fmt, rel, list(range(i, min(len(oc), i + 8)))]

    def check(self, case, rec):
        _limits()
        import xml.etree.ElementTree as ET

        only = None
        if case[-1] in audit.CANARY_NAMES:
            case, only = case[:-1], case[-1]
        fmt, rel, idxs = case
        root = ET.parse(os.path.join(corpus.TESTS, rel)).getroot()
        oc = sites.xml_occurrences(root)
        n = 0
        for j in idxs:
            i, tag, attr = oc[j]
            for cname in audit.CANARY_NAMES if only is None else [only]:
                w = audit.Watch()
                doc = sites.xml_replace(root, i, attr, w.canaries()[cname])
                if fmt == "designspace":
                    from fontTools.designspaceLib import DesignSpaceDocument

                    run = lambda: DesignSpaceDocument.fromstring(doc)  # noqa: E731
                elif fmt == "glif":
                    from fontTools.ufoLib.glifLib import readGlyphFromString
                    from fontTools.pens.recordingPen import RecordingPointPen

                    class G:
                        pass

                    run = lambda: readGlyphFromString(doc, glyphObject=G(), pointPen=RecordingPointPen())  # noqa: E731
                else:
                    from fontTools.misc import plistlib

                    run = lambda: plistlib.loads(doc)  # noqa: E731
                with w:
                    exc = guarded(run)
                rec.witness(fmt)
                judge_canary(rec, w, fmt, [root.tag, tag, attr], [fmt, rel, [j], cname], exc, cname)
                rec.nontrivial_n(1)
                n += 1
        rec.evals(max(0, n - 1))


class CanaryFea(Unit):
    name = "E4-fea"
    rule = ("value positions of the corpus feature files (string literals with and without their quotes, numbers, include() arguments): quick = every distinct (statement keyword, kind, ordinal) site with its smallest carrier; thorough = every position of every file; x 8 canaries: "
            "feaLib Parser (includes resolved next to the file) and then the builder on a font whose glyph order holds every name of the file; same monitor as E4-ttx; distinct = each (file, position, canary)")
    required_witnesses = ("fea parsed with canary as data", "fea built", "ordinary exception", "include argument replaced", "number replaced", "string replaced")
    chunk = 8

    def setup(self, tier, seed):
        preload()
        self.files = sites.files_with_ext(corpus.TESTS, ".fea")
        self.distinct = {}
        self.npos = {}
        for p in self.files:
            rel = os.path.relpath(p, corpus.TESTS)
            try:
                text = open(p, encoding="utf-8").read()
            except Exception:
                continue
            pos = sites.fea_positions(text)
            self.npos[rel] = len(pos)
            for j, (_a, _b, kind, kw, ordinal) in enumerate(pos):
                self.distinct.setdefault((kw, kind, ordinal), (rel, j))

    def bounds(self, tier, seed):
        return {"files": len(self.npos), "positions": sum(self.npos.values()), "distinct_sites": len(self.distinct)}

    def cases(self, tier, seed):
        if tier == "quick":
            for k in sorted(self.distinct):
                rel, j = self.distinct[k]
                yield [rel, [j]]
        else:
            for rel in sorted(self.npos):
                for i in range(0, self.npos[rel], 8):
                    yield [rel, list(range(i, min(self.npos[rel], i + 8)))]

    def check(self, case, rec):
        _limits()
        from fontTools.feaLib.parser import Parser
        from fontTools.feaLib.builder import addOpenTypeFeaturesFromString

        only = None
        if case[-1] in audit.CANARY_NAMES:
            case, only = case[:-1], case[-1]
        rel, idxs = case
        path = os.path.join(corpus.TESTS, rel)
        text = open(path, encoding="utf-8").read()
        pos = sites.fea_positions(text)
        names = [".notdef"] + [n for n in sites.fea_glyph_names(text) if n != ".notdef"]
        n = 0
        for j in idxs:
            a, b, kind, kw, ordinal = pos[j]
            for cname in audit.CANARY_NAMES if only is None else [only]:
                w = audit.Watch()
                doc = text[:a] + w.canaries()[cname] + text[b:]
                state = {}

                def run():
                    Parser(io.StringIO(doc), glyphNames=(), includeDir=os.path.dirname(path)).parse()
                    state["parsed"] = True
                    font = TTFont()
                    font.setGlyphOrder(list(names))
                    addOpenTypeFeaturesFromString(font, doc, filename=path)
                    state["built"] = True

                with w:
                    exc = guarded(run)
                if state.get("parsed"):
                    rec.witness("fea parsed with canary as data")
                if state.get("built"):
                    rec.witness("fea built")
                rec.witness({"include": "include argument replaced", "number": "number replaced"}.get(kind, "string replaced"))
                judge_canary(rec, w, "fea", [kw, kind, ordinal], [rel, [j], cname], exc, cname)
                rec.nontrivial_n(1)
                n += 1
        rec.evals(max(0, n - 1))


class CanaryBlend(Unit):
    name = "E4-cff-blend"
    rule = ("CFF2 blend-list syntax: lists of 1..4 <blend value='...'/> elements of 1..4 numbers with each single number position replaced by each of the 8 canaries, through cffLib.parseBlendList directly and through a CFF2 TTX private dict (BlueValues / StdHW) imported with TTFont.importXML; "
            "same monitor as E4-ttx; distinct = each (shape, position, canary, route)")
    required_witnesses = ("literal_eval refused the canary", "direct parseBlendList", "through importXML", "unmodified list parsed")
    chunk = 4

    def setup(self, tier, seed):
        preload()
        self.carrier = None
        import xml.etree.ElementTree as ET

        for p in sorted(corpus.ttx_files(), key=lambda p: (os.path.getsize(p), p)):
            try:
                root = ET.parse(p).getroot()
            except Exception:
                continue
            t = root.find("CFF2")
            if t is not None and any(el.tag == "blend" for el in t.iter()):
                self.carrier = os.path.relpath(p, corpus.TESTS)
                break

    def bounds(self, tier, seed):
        return {"shapes": 16, "carrier": self.carrier}

    def cases(self, tier, seed):
        for nel in range(1, 5):
            for nnum in range(1, 5):
                yield [nel, nnum]

    def check(self, case, rec):
        _limits()
        from fontTools import cffLib
        import xml.etree.ElementTree as ET
        import copy

        nel, nnum = case[:2]
        base = [[str(10 * e + k) for k in range(nnum)] for e in range(nel)]
        plain = [("blend", {"value": " ".join(v)}, []) for v in base]
        exp = [[int(x) for x in v] for v in base]
        if cffLib.parseBlendList(["\n"] + plain) == (exp[0] if nel == 1 else exp):
            rec.witness("unmodified list parsed")
        else:
            rec.violation("blend:baseline", "parseBlendList of a plain list gave %r" % (cffLib.parseBlendList(plain),), case=case)
        root = ET.parse(os.path.join(corpus.TESTS, self.carrier)).getroot() if self.carrier else None
        n = 0
        for e in range(nel):
            for k in range(nnum):
                for cname in audit.CANARY_NAMES:
                    # route 1: the function itself
                    w = audit.Watch()
                    vals = [list(v) for v in base]
                    vals[e][k] = w.canaries()[cname]
                    content = ["\n"] + [("blend", {"value": " ".join(v)}, []) for v in vals]
                    with w:
                        exc = guarded(lambda: cffLib.parseBlendList(content))
                    rec.witness("direct parseBlendList")
                    judge_canary(rec, w, "blend", ["parseBlendList"], [nel, nnum, e, k, cname, "direct"], exc, cname)
                    n += 1
                    # route 2: through a CFF2 TTX
                    if root is not None:
                        w = audit.Watch()
                        vals = [list(v) for v in base]
                        vals[e][k] = w.canaries()[cname]
                        new = ET.Element("ttFont", dict(root.attrib))
                        go = root.find("GlyphOrder")
                        if go is not None:
                            new.append(copy.deepcopy(go))
                        t = copy.deepcopy(root.find("CFF2"))
                        done = False
                        for el in t.iter():
                            if any(ch.tag == "blend" for ch in el) and not done:
                                for ch in list(el):
                                    el.remove(ch)
                                for v in vals:
                                    ET.SubElement(el, "blend", {"value": " ".join(v)})
                                done = True
                        new.append(t)
                        doc = ET.tostring(new, encoding="utf-8", xml_declaration=True)
                        font = TTFont()
                        with w:
                            exc = guarded(lambda: font.importXML(io.BytesIO(doc)))
                        rec.witness("through importXML")
                        judge_canary(rec, w, "blend", ["CFF2-ttx"], [nel, nnum, e, k, cname, "ttx"], exc, cname)
                        n += 1
        rec.nontrivial_n(n)
        rec.evals(max(0, n - 1))


# ------------------------------------------------------------------ E6 crash points of save
class InjectedFault(Exception):
    pass


KNOWN = b"C20 destination file: these bytes must survive a failed save.\n" * 3


class SaveCrash(Unit):
    name = "E6-save-crash"
    rule = ("every face of every corpus font below the size bound (quick 4 kB non-AOTS incl. the WOFF/WOFF2/TTC files + one AOTS font chosen by the seed; thorough 16 kB) x every table tag T x output flavor {as is, woff, woff2} x reorderTables {True, None, False (sfnt only)} x destination {str path, PathLike, file object opened r+b}: table T is loaded and its compile() made to raise during font.save(dest) onto an existing file of known content; "
            "also faults injected into reorderFontTables, the WOFF zlib / WOFF2 brotli compressor and the writer's close(); and TTCollection.save with a compile fault in each member; whenever save raised, the destination holds exactly the known bytes (file object: nothing written, position unchanged); distinct = each (font, tag|fault, flavor, destination)")
    required_witnesses = ("injected compile fault came out of save", "destination intact after failed save", "flavor woff", "flavor woff2", "file object destination",
                          "reorderFontTables fault", "compressor fault", "writer close fault", "collection save", "reorderTables=None", "reorderTables=False")
    chunk = 2

    def setup(self, tier, seed):
        preload()
        self.files = dict(corpus.binary_files())
        self.seed = seed

    def select(self, tier):
        lim = SMALL if tier == "quick" else MEDIUM
        out = []
        aots = sorted(n for n in self.files if corpus.is_aots(n))
        pick = aots[(self.seed * 37) % len(aots)] if aots else None
        for n in sorted(self.files, key=lambda n: (len(self.files[n]), n)):
            d = self.files[n]
            if tier == "quick" and corpus.is_aots(n):
                if n != pick:  # quick: one AOTS font, chosen by the seed
                    continue
            elif len(d) >= lim:
                continue
            if len(d) >= MEDIUM:
                continue
            out.append(n)
        return out

    def bounds(self, tier, seed):
        return {"fonts": len(self.select(tier)), "flavors": 3, "destinations": 3}

    def cases(self, tier, seed):
        for n in self.select(tier):
            d = self.files[n]
            for fn in faces_of(d):
                ref = cont.reference(d, fn)
                if cont.kind_of(d) == "woff2":
                    tags = sorted(orig_tables_woff2(d))
                else:
                    tags = sorted(ref.tables)
                for t in tags:
                    yield ["table", n, fn, t]
                yield ["global", n, fn]
            if cont.kind_of(d) == "ttc":
                yield ["collection", n]

    # -- one attempt ---------------------------------------------------------
    def attempt(self, rec, sub, do_save, what):
        """do_save(dest) must leave the existing destination untouched if it raises."""
        import tempfile
        import pathlib

        n = 0
        with tempfile.TemporaryDirectory(prefix="c20-save-") as tmp:
            for dest_kind in ("str", "pathlike", "fileobj"):
                path = os.path.join(tmp, "dest-" + dest_kind + ".bin")
                with open(path, "wb") as f:
                    f.write(KNOWN)
                raised = None
                fobj = None
                try:
                    if dest_kind == "str":
                        do_save(path)
                    elif dest_kind == "pathlike":
                        do_save(pathlib.Path(path))
                    else:
                        fobj = open(path, "r+b")
                        do_save(fobj)
                except Exception as e:
                    raised = e
                pos = None
                if fobj is not None:
                    try:
                        pos = fobj.tell()
                        fobj.close()
                    except Exception:
                        pass
                n += 1
                if raised is None:
                    rec.count("fault not reached: save succeeded (%s)" % what.split(":")[0])
                    continue
                if isinstance(raised, InjectedFault):
                    rec.witness("injected compile fault came out of save" if what.startswith("compile") else what.split(":")[0] + " fault")
                else:
                    rec.count("save failed earlier with %s" % exc_name(raised))
                after = open(path, "rb").read()
                if after != KNOWN or (pos not in (None, 0)):
                    rec.violation("destination-clobbered:%s:%s" % (sub[0] if sub[0] == "collection" else "TTFont.save", "path" if dest_kind != "fileobj" else "fileobj"),
                                  "save(%s) raised %s but the existing destination now holds %d bytes (%s), position %r" % (dest_kind, exc_name(raised), len(after), "changed" if after != KNOWN else "same", pos),
                                  case=sub + [what, dest_kind], observed=after[:48], expected=KNOWN[:48])
                else:
                    rec.witness("destination intact after failed save")
                    if dest_kind == "fileobj":
                        rec.witness("file object destination")
        return n

    def check(self, case, rec):
        _limits()
        from fontTools.ttLib import ttFont as ttFont_mod, sfnt as sfnt_mod, woff2 as woff2_mod

        def boom(*a, **k):
            raise InjectedFault("injected")

        kind, name = case[0], case[1]
        data = self.files[name]
        n = 0
        if kind == "table":
            fn, tag = case[2], case[3]
            for flavor in ("keep", "woff", "woff2"):
                font = TTFont(io.BytesIO(data), fontNumber=fn, recalcTimestamp=False)
                try:
                    with time_limit(60):
                        table = font[tag]
                except (Exception, Alarm):
                    rec.count("table does not decode (not a crash point)")
                    break
                if flavor != "keep":
                    font.flavor = flavor
                    rec.witness("flavor " + flavor)
                table.compile = boom
                n += self.attempt(rec, case, lambda dest: font.save(dest), "compile:%s" % flavor)
                rec.nontrivial_n(3)
                # the other two values of reorderTables take different routes to the destination
                # (None: no reordering pass; False: keep the order of the tables as loaded)
                for reorder in ((None, False) if flavor == "keep" else (None,)):
                    font = TTFont(io.BytesIO(data), fontNumber=fn, recalcTimestamp=False)
                    if flavor != "keep":
                        font.flavor = flavor
                    font[tag].compile = boom
                    n += self.attempt(rec, case, lambda dest: font.save(dest, reorderTables=reorder), "compile:%s:reorderTables=%s" % (flavor, reorder))
                    rec.nontrivial_n(3)
                    rec.witness("reorderTables=%s" % reorder)
        elif kind == "global":
            fn = case[2]
            faults = [
                ("reorderFontTables", None, ttFont_mod, "reorderFontTables"),
                ("compressor", "woff", sfnt_mod, "compress"),
                ("compressor", "woff2", woff2_mod.brotli, "compress"),
                ("writer close", None, sfnt_mod.SFNTWriter, "close"),
                ("writer close", "woff", sfnt_mod.SFNTWriter, "close"),
                ("writer close", "woff2", woff2_mod.WOFF2Writer, "close"),
            ]
            for label, flavor, owner, attr in faults:
                font = TTFont(io.BytesIO(data), fontNumber=fn, recalcTimestamp=False)
                font.flavor = flavor
                old = getattr(owner, attr)
                try:
                    setattr(owner, attr, boom)
                    n += self.attempt(rec, case, lambda dest: font.save(dest), "%s:%s" % (label, flavor or "sfnt"))
                finally:
                    setattr(owner, attr, old)
                rec.nontrivial_n(3)
        else:
            ncoll = len(cont.ttc_header(data)[1])
            for i in range(ncoll):
                coll = TTCollection(io.BytesIO(data), recalcTimestamp=False)
                tags = sorted(str(t) for t in coll.fonts[i].reader.keys())
                for tag in tags:
                    coll = TTCollection(io.BytesIO(data), recalcTimestamp=False)
                    try:
                        coll.fonts[i][tag].compile = boom
                    except Exception:
                        continue
                    rec.witness("collection save")
                    n += self.attempt(rec, case, lambda dest: coll.save(dest), "compile:ttc-member-%d:%s" % (i, tag.strip()))
                    rec.nontrivial_n(3)
        rec.evals(max(0, n - 1))


# ------------------------------------------------------------------ E5 path direction
def tree_snapshot(root):
    import hashlib

    snap = {}
    for d, dirs, files in os.walk(root):
        for x in dirs:
            p = os.path.join(d, x)
            snap[os.path.relpath(p, root)] = ("link", os.readlink(p)) if os.path.islink(p) else ("dir",)
        for x in files:
            p = os.path.join(d, x)
            if os.path.islink(p):
                snap[os.path.relpath(p, root)] = ("link", os.readlink(p))
            else:
                with open(p, "rb") as f:
                    snap[os.path.relpath(p, root)] = ("file", hashlib.sha1(f.read()).hexdigest())
    return snap


def tree_diff(before, after):
    out = []
    for k in sorted(set(before) | set(after)):
        if before.get(k) != after.get(k):
            out.append(("created" if k not in before else "deleted" if k not in after else "modified", k))
    return out


HOSTILE = ["../x", "ABS/x", "a/../../x", "../../x", "..\\x", "./../x", "out/../../x"]

VARLIB_DS = """<?xml version='1.0' encoding='UTF-8'?>
<designspace format="5.0">
    <axes>
        <axis tag="wght" name="Weight" minimum="300" maximum="700" default="300"/>
    </axes>
    <sources>
        <source filename="masters/TestFamily-Master0.ttf" name="Light">
            <location><dimension name="Weight" xvalue="300"/></location>
        </source>
        <source filename="masters/TestFamily-Master2.ttf" name="Bold">
            <location><dimension name="Weight" xvalue="700"/></location>
        </source>
    </sources>
    <variable-fonts>
        <variable-font name=%s%s>
            <axis-subsets>
                <axis-subset name="Weight"/>
            </axis-subsets>
        </variable-font>
    </variable-fonts>
</designspace>"""


def _quiet(fn):
    """run a command-line entry point: SystemExit and ordinary exceptions are both fine here
    (the oracle is the directory tree), stdout/stderr silenced."""
    import contextlib

    with open(os.devnull, "w") as null, contextlib.redirect_stdout(null), contextlib.redirect_stderr(null):
        try:
            with time_limit(60):
                fn()
            return "ok"
        except SystemExit as e:
            return "exit:%s" % (e.code,)
        except Alarm:
            return "timeout"
        except Exception as e:
            return "exc:" + exc_name(e)


class Paths(Unit):
    name = "E5-paths"
    rule = ("entry points that derive output names from input content, run inside a scratch tree whose complete state (names, contents, links) is compared before/after: makeOutputFileName (hostile input file names - not '.'/'..' themselves, which name directories - x outputDir x extension x suffix x overwrite); varLib.main with variable-font filename / name in {../x, <abs>/x, a/../../x, ../../x, ..\\x, ./../x, out/../../x} with and without --output-dir; "
            "ttx -s / -g / -z extfile -d OUT on fonts whose table tags and glyph names hold separators and dot-dot; UFOReader / UFOWriter (read all glyphs, rewrite, delete glyph, delete layer) on a UFO whose contents.plist / layercontents.plist point outside; TTX src= pointing outside: nothing is created, modified or deleted outside the requested output directory; distinct = each (entry point, hostile value, option)")
    required_witnesses = ("makeOutputFileName", "varLib.main built a font", "ttx split dump wrote files", "ttx -g wrote glyph files", "ufo glyph written", "xml src read", "extfile bitmaps written")
    chunk = 1

    def setup(self, tier, seed):
        preload()
        vdir = os.path.join(corpus.TESTS, "varLib", "data", "master_ttx_interpolatable_ttf")
        self.masters = {}
        for n in ("TestFamily-Master0", "TestFamily-Master2"):
            f = TTFont()
            f.importXML(os.path.join(vdir, n + ".ttx"))
            buf = io.BytesIO()
            f.save(buf)
            self.masters[n + ".ttf"] = buf.getvalue()
        self.ufo = os.path.join(corpus.TESTS, "ufoLib", "testdata", "TestFont1 (UFO3).ufo")
        self.bitmap_ttx = os.path.join(corpus.TESTS, "ttLib", "tables", "data", "NotoColorEmoji.subset.index_format_3.ttx")

    def cases(self, tier, seed):
        for h in HOSTILE + ["x", "x#1", "dir/x#2.ttf", "...", "..x", "a/..b"]:
            yield ["mkout", h]
        for field in ("filename", "name"):
            for h in HOSTILE:
                for use_d in (True, False):
                    yield ["varlib", field, h, use_d]
        for mode in ("-s", "-g"):
            yield ["ttx-split", mode]
        for h in ["../../../x", "ABS/x", "a/../../../../x", "../../../../outside/x"]:
            yield ["ttx-extfile", h]
        for h in ["../../../outside/victim", "../../../outside/new", "ABS/outside/victim", "ABS/outside/new", "../sibling", "sub/../../../../outside/victim"]:
            yield ["ufo", "contents", h]
        for h in ["../../outside", "ABS/outside", "../outside", "glyphs/../../../outside", ".."]:
            yield ["ufo", "layercontents", h]
        for h in ["../outside/sub.ttx", "ABS/sub.ttx"]:
            yield ["xml-src", h]

    def bounds(self, tier, seed):
        return {"hostile_names": HOSTILE, "cases": len(list(self.cases(tier, seed)))}

    def judge(self, rec, case, root, before, allowed, label):
        after = tree_snapshot(root)
        diff = tree_diff(before, after)
        bad = [(k, p) for k, p in diff if not any(p == a or p.startswith(a + os.sep) for a in allowed)]
        if bad:
            rec.violation("outside-output-dir:%s" % label, "%s touched paths outside the requested output directory %r: %r" % (label, allowed, bad[:6]), case=case, observed=bad[:10])
        return diff

    def check(self, case, rec):
        _limits()
        import tempfile

        kind = case[0]
        rec.nontrivial_n(1)
        if kind == "mkout":
            from fontTools.misc.cliTools import makeOutputFileName

            n = 0
            with tempfile.TemporaryDirectory(prefix="c20-p-") as root:
                out = os.path.join(root, "out")
                os.makedirs(out)
                open(os.path.join(out, "x.ttx"), "w").close()
                h = case[1].replace("ABS", os.path.join(root, "abs"))
                for ext in (".ttx", None, ""):
                    for suffix in ("", "-suf"):
                        for over in (False, True):
                            for inp in (h, h + ".ttf", os.path.join(root, "in", h + ".ttf")):
                                r = makeOutputFileName(inp, out, ext, over, suffix)
                                n += 1
                                nr = os.path.normpath(r)
                                if not (nr == out or nr.startswith(out + os.sep)):
                                    rec.violation("makeOutputFileName:outside", "makeOutputFileName(%r, outputDir=OUT, %r, %r, %r) = %r" % (inp.replace(root, "ROOT"), ext, over, suffix, r.replace(root, "ROOT")), case=case)
            rec.witness("makeOutputFileName")
            rec.evals(n - 1)
            return
        with tempfile.TemporaryDirectory(prefix="c20-p-") as root:
            root = os.path.realpath(root)
            proj = os.path.join(root, "outer", "proj")
            os.makedirs(proj)
            os.makedirs(os.path.join(root, "abs"))
            os.makedirs(os.path.join(root, "outer", "outside"))
            with open(os.path.join(root, "outer", "outside", "victim.txt"), "w") as f:
                f.write("victim")
            with open(os.path.join(root, "outer", "x.ttf"), "w") as f:
                f.write("existing file one level up")

            def real(h):
                return h.replace("ABS", os.path.join(root, "abs"))

            if kind == "varlib":
                from fontTools import varLib
                from xml.sax.saxutils import quoteattr

                _k, field, h, use_d = case
                os.makedirs(os.path.join(proj, "masters"))
                for n, d in self.masters.items():
                    with open(os.path.join(proj, "masters", n), "wb") as f:
                        f.write(d)
                hv = real(h)
                if field == "filename":
                    attrs = (quoteattr("TestFamily"), " filename=%s" % quoteattr(hv + ".ttf"))
                else:
                    attrs = (quoteattr(hv), "")
                ds = os.path.join(proj, "test.designspace")
                with open(ds, "w", encoding="utf-8") as f:
                    f.write(VARLIB_DS % attrs)
                args = [ds]
                allowed = ["outer/proj"]
                if use_d:
                    os.makedirs(os.path.join(proj, "out"))
                    args += ["--output-dir", os.path.join(proj, "out")]
                    allowed = ["outer/proj/out"]
                before = tree_snapshot(root)
                res = _quiet(lambda: varLib.main(args))
                diff = self.judge(rec, case, root, before, allowed, "varLib.main:variable-font-%s" % field)
                if any(k == "created" and p.endswith((".ttf", ".otf")) for k, p in diff):
                    rec.witness("varLib.main built a font")
                rec.count("varLib.main -> %s" % res)
            elif kind == "ttx-split":
                from fontTools import ttx

                font_path = os.path.join(proj, "hostile.ttf")
                with open(font_path, "wb") as f:
                    f.write(hostile_font())
                out = os.path.join(proj, "out")
                os.makedirs(out)
                before = tree_snapshot(root)
                res = _quiet(lambda: ttx.main([case[1], "-d", out, font_path]))
                diff = self.judge(rec, case, root, before, ["outer/proj/out"], "ttx%s" % case[1])
                made = [p for k, p in diff if k == "created"]
                if len(made) > 3:
                    rec.witness("ttx split dump wrote files")
                if case[1] == "-g" and any("_g_l_y_f" in p and p.count(".") >= 2 for p in made) and len(made) > 12:
                    rec.witness("ttx -g wrote glyph files")
                rec.count("ttx %s -> %s (%d files)" % (case[1], res, len(made)))
            elif kind == "ttx-extfile":
                from fontTools import ttx

                hv = real(case[1])
                text = open(self.bitmap_ttx, encoding="utf-8").read()
                victim = "eight"
                if ('"%s"' % victim) not in text:
                    victim = None
                font = TTFont()
                state = {}

                def build():
                    t2 = text.replace('"%s"' % victim, '"%s"' % hv) if victim else text
                    font.importXML(io.BytesIO(t2.encode("utf-8")))
                    post = font["post"]  # glyph names must be stored in the font: post format 2
                    post.formatType, post.extraNames, post.mapping = 2.0, [], {}
                    font.save(os.path.join(proj, "bitmap.ttf"))
                    state["built"] = True

                _quiet(build)
                if not state.get("built"):
                    rec.count("bitmap carrier did not build")
                    return
                out = os.path.join(proj, "out")
                os.makedirs(out)
                before = tree_snapshot(root)
                res = _quiet(lambda: ttx.main(["-z", "extfile", "-d", out, os.path.join(proj, "bitmap.ttf")]))
                diff = self.judge(rec, case, root, before, ["outer/proj/out"], "ttx-z-extfile")
                if any(k == "created" and p.endswith(".png") for k, p in diff):
                    rec.witness("extfile bitmaps written")
                rec.count("ttx -z extfile -> %s" % res)
            elif kind == "ufo":
                import shutil
                from fontTools.ufoLib import UFOReader, UFOWriter
                from fontTools.misc import plistlib

                _k, target, h = case
                hv = real(h)
                ufo = os.path.join(proj, "Test.ufo")
                shutil.copytree(self.ufo, ufo)
                os.makedirs(os.path.join(root, "abs", "outside"))
                for vd in (os.path.join(root, "abs", "outside"), os.path.join(root, "outer", "outside")):
                    for vn in ("victim.txt", "victim.glif"):
                        with open(os.path.join(vd, vn), "w") as f:
                            f.write("victim")
                if target == "contents":
                    p = os.path.join(ufo, "glyphs", "contents.plist")
                    c = plistlib.load(open(p, "rb"))
                    c["a"] = hv + ".glif"
                    with open(p, "wb") as f:
                        plistlib.dump(c, f)
                else:
                    p = os.path.join(ufo, "layercontents.plist")
                    c = [["public.default", "glyphs"], ["evil", hv]]
                    with open(p, "wb") as f:
                        plistlib.dump(c, f)
                before = tree_snapshot(root)

                class G:
                    pass

                def draw(pen):
                    pen.beginPath()
                    pen.addPoint((0, 0), "line")
                    pen.addPoint((10, 0), "line")
                    pen.addPoint((10, 10), "line")
                    pen.endPath()

                def read_all():
                    with UFOReader(ufo) as r:
                        for layer in r.getLayerNames():
                            gs = r.getGlyphSet(layer)
                            for name in gs.keys():
                                try:
                                    gs.readGlyph(name, G())
                                except Exception:
                                    pass

                state = {}

                def write_ops():
                    for layer in (None, "evil"):
                        try:
                            with UFOWriter(ufo) as w:
                                gs = w.getGlyphSet(layer, defaultLayer=layer is None)
                                g = G()
                                g.width = 100
                                gs.writeGlyph("a", g, drawPointsFunc=draw)
                                gs.writeGlyph("new/../../glyph", g, drawPointsFunc=draw)
                                gs.writeContents()
                                state["wrote"] = True
                                w.writeLayerContents()
                        except Exception:
                            pass

                def delete_glyph():
                    with UFOWriter(ufo) as w:
                        gs = w.getGlyphSet()
                        gs.deleteGlyph("a")
                        gs.writeContents()

                def delete_layer():
                    with UFOWriter(ufo) as w:
                        w.deleteGlyphSet("evil")
                        w.writeLayerContents()

                res = []
                for phase, fn in (("read", read_all), ("write", write_ops), ("deleteGlyph", delete_glyph), ("deleteGlyphSet", delete_layer)):
                    res.append("%s:%s" % (phase, _quiet(fn)))
                    self.judge(rec, case, root, before, ["outer/proj/Test.ufo"], "ufoLib:%s.plist:%s" % (target, phase))
                    before = tree_snapshot(root)
                if state.get("wrote"):
                    rec.witness("ufo glyph written")
                rec.count("ufo " + " ".join(res))
            elif kind == "xml-src":
                hv = real(case[1])
                sub = os.path.join(proj, hv) if not os.path.isabs(hv) else hv
                os.makedirs(os.path.dirname(sub), exist_ok=True)
                with open(sub, "w") as f:
                    f.write('<?xml version="1.0"?><ttFont><CUST><hexdata>01 02</hexdata></CUST></ttFont>')
                main = os.path.join(proj, "main.ttx")
                with open(main, "w") as f:
                    f.write('<?xml version="1.0"?><ttFont sfntVersion="OTTO"><CUST src=%s/></ttFont>' % __import__("xml.sax.saxutils").sax.saxutils.quoteattr(hv))
                before = tree_snapshot(root)
                font = TTFont()
                res = _quiet(lambda: font.importXML(main))
                self.judge(rec, case, root, before, [], "importXML:src")
                if "CUST" in font and getattr(font["CUST"], "data", None) == b"\x01\x02":
                    rec.witness("xml src read")
                rec.count("importXML src -> %s" % res)


_HOSTILE_FONT = None


def hostile_font():
    """a small TrueType font whose glyph names and table tags carry separators and dot-dot"""
    global _HOSTILE_FONT
    if _HOSTILE_FONT is None:
        from fontTools.fontBuilder import FontBuilder
        from fontTools.pens.ttGlyphPen import TTGlyphPen
        from fontTools.ttLib.tables.DefaultTable import DefaultTable

        names = [".notdef", "../../evil", "/abs", "a/b", "..", "con", "A", "a", "x\\y", "../up", "dir/../../z", "...", "nul.x", "a:b"]
        fb = FontBuilder(1000, isTTF=True)
        fb.setupGlyphOrder(names)
        fb.setupCharacterMap({0x41 + i: n for i, n in enumerate(names[1:])})
        glyphs = {}
        for n in names:
            pen = TTGlyphPen(None)
            pen.moveTo((0, 0))
            pen.lineTo((100, 0))
            pen.lineTo((100, 100))
            pen.closePath()
            glyphs[n] = pen.glyph()
        fb.setupGlyf(glyphs)
        fb.setupHorizontalMetrics({n: (500, 0) for n in names})
        fb.setupHorizontalHeader(ascent=800, descent=-200)
        fb.setupNameTable({"familyName": "Hostile", "styleName": "Regular"})
        fb.setupOS2()
        fb.setupPost()
        for tag in ("/../", "a/b ", "..  ", "\\x/y", "../x"):
            t = DefaultTable(tag)
            t.data = b"\x00\x01\x02\x03"
            fb.font[tag] = t
        buf = io.BytesIO()
        fb.font.save(buf)
        _HOSTILE_FONT = buf.getvalue()
    return _HOSTILE_FONT


def units():
    return [Truncate(), Corrupt(), NonFont(), Undecodable(), CanaryTTX(), CanaryXML(), CanaryFea(), CanaryBlend(), Paths(), SaveCrash()]
