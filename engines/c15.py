"""C15 - every low-level encoder and its decoder are mutually inverse.

Whole-domain enumeration.  Every unit cuts its finite domain into ranges (shards); a case is
one range, the inner loop visits every value of it.  Oracle: decode(encode(v)) == v, plus the
properties the docstrings promise (shortest representation, rejection of overlong forms).
"""
from mc import env  # noqa: F401
from mc.kernel import Unit

import itertools
import struct

from fontTools.misc import fixedTools, roundTools, psCharStrings, eexec, sstruct, timeTools
from fontTools.misc import iftSparseBitSet
from fontTools.misc.textTools import Tag
from fontTools.ttLib import woff2, TTLibError
from fontTools.ttLib import ttFont as _ttFont
from fontTools.ttLib.tables import otTables
from fontTools.ttLib.tables.TupleVariation import TupleVariation
from fontTools import agl

LEVEL = "exploration"
ASSUMPTIONS = [
    "domains are those named in the unit rules; values outside (e.g. 16.16 values away from the listed boundaries) are not visited",
    "struct/array/binascii of the Python runtime are trusted",
]


def ranges(lo, hi, step):
    for a in range(lo, hi, step):
        yield [a, min(hi, a + step)]


class RangeUnit(Unit):
    """A unit whose cases are [lo, hi) ranges of an integer domain."""

    chunk = 1
    domain = (0, 0)
    step = 4096

    def cases(self, tier, seed):
        return ranges(self.domain[0], self.domain[1], self.step)

    def check(self, case, rec):
        lo, hi = case
        for v in range(lo, hi):
            self.one(v, rec)
        rec.evals(hi - lo - 1)
        rec.nontrivial_n(hi - lo)

    def one(self, v, rec):
        raise NotImplementedError


# ---------------------------------------------------------------- fixed point
class F2Dot14(RangeUnit):
    name = "f2dot14"
    rule = "all 65536 F2Dot14 values v in [-32768,32767]: floatToFixed(fixedToFloat(v))==v, strToFixed(fixedToStr(v))==v, float(fixedToStr(v)) rounds to v, floatToFixedToStr/strToFixedToFloat agree; distinct = each value"
    domain = (-32768, 32768)

    def one(self, v, rec):
        f = fixedTools.fixedToFloat(v, 14)
        if fixedTools.floatToFixed(f, 14) != v:
            rec.violation("f2dot14:floatToFixed", "floatToFixed(fixedToFloat(%d))=%r" % (v, fixedTools.floatToFixed(f, 14)), case=v)
        s = fixedTools.fixedToStr(v, 14)
        if fixedTools.strToFixed(s, 14) != v:
            rec.violation("f2dot14:strToFixed", "strToFixed(fixedToStr(%d)=%r)=%r" % (v, s, fixedTools.strToFixed(s, 14)), case=v)
        if fixedTools.floatToFixedToStr(f, 14) != s:
            rec.violation("f2dot14:floatToFixedToStr", "%d: %r vs %r" % (v, fixedTools.floatToFixedToStr(f, 14), s), case=v)
        if fixedTools.strToFixedToFloat(s, 14) != f:
            rec.violation("f2dot14:strToFixedToFloat", "%d: %r vs %r" % (v, fixedTools.strToFixedToFloat(s, 14), f), case=v)
        if fixedTools.floatToFixedToFloat(f, 14) != f:
            rec.violation("f2dot14:floatToFixedToFloat", "%d" % v, case=v)
        # shortest: dropping the last fractional digit must not read back as v
        if "." in s and len(s.split(".")[1]) > 1:
            t = s[:-1]
            if fixedTools.strToFixed(t, 14) == v and float(t) != float(s):
                # a shorter string that still denotes v would contradict "shortest"
                rec.violation("f2dot14:notShortest", "%d -> %r but %r also reads back" % (v, s, t), case=v)
            rec.witness("multi-digit fraction")


def fixed1616_lattice():
    vals = set()
    for v in range(-(2 << 16), (2 << 16) + 1):
        vals.add(v)
    for k in range(0, 32):
        for d in range(-64, 65):
            for sgn in (1, -1):
                x = sgn * (1 << k) + d
                if -(1 << 31) <= x <= (1 << 31) - 1:
                    vals.add(x)
    for d in range(0, 65):
        vals.add((1 << 31) - 1 - d)
        vals.add(-(1 << 31) + d)
    return sorted(vals)


class Fixed1616(Unit):
    name = "fixed16.16"
    rule = "16.16 values: all with |integer part| <= 2 (2^18+1 values), +-64 around +-2^k for k<32, 65 values at each end of the int32 range: float/str round trips and T2 encodeFixed -> read_fixed1616/int readers, plus floats a quarter step / 2^-40 off the grid next to integers and half steps (nearest grid value must be written); distinct = each value"
    chunk = 1

    def setup(self, tier, seed):
        self.vals = fixed1616_lattice()

    def cases(self, tier, seed):
        n = len(self.vals)
        return ranges(0, n, 8192)

    def check(self, case, rec):
        lo, hi = case
        for i in range(lo, hi):
            v = self.vals[i]
            f = fixedTools.fixedToFloat(v, 16)
            if fixedTools.floatToFixed(f, 16) != v:
                rec.violation("fixed16:floatToFixed", "%d" % v, case=v)
            s = fixedTools.fixedToStr(v, 16)
            if fixedTools.strToFixed(s, 16) != v:
                rec.violation("fixed16:strToFixed", "strToFixed(%r) = %r, expected %d" % (s, fixedTools.strToFixed(s, 16), v), case=v)
            # T2 operand: encodeFixed -> decode through the T2 operand table
            code = psCharStrings.encodeFixed(f)
            got = decode_operand(psCharStrings.t2OperandEncoding, code)
            if got is None or got[0] != f or got[1] != len(code):
                rec.violation("fixed16:encodeFixed", "encodeFixed(%r)=%s decodes to %r" % (f, code.hex(), got), case=v)
            # floats OFF the 16.16 grid, a quarter of a step / 2^-40 away from grid values next to the
            # integers and the half steps: the operand written is the NEAREST grid value
            if (v & 0xFFFF) in (0, 1, 0x7FFF, 0x8000, 0xFFFF) and abs(v) < (1 << 30):
                for d in (2.0 ** -18, -(2.0 ** -18), 2.0 ** -40, -(2.0 ** -40)):
                    f2 = f + d
                    if f2 == f:
                        continue
                    import math

                    want = math.floor(f2 * 65536 + 0.5) / 65536
                    code = psCharStrings.encodeFixed(f2)
                    got = decode_operand(psCharStrings.t2OperandEncoding, code)
                    rec.witness("off-grid float")
                    if got is None or got[0] != want or got[1] != len(code):
                        rec.violation("fixed16:encodeFixed:off-grid", "encodeFixed(%r)=%s decodes to %r, nearest 16.16 value is %r" % (f2, code.hex(), got, want), case=v)
            if v & 0xFFFF == 0:
                rec.witness("integral 16.16 encoded as int")
            else:
                rec.witness("fractional 16.16")
        rec.evals(hi - lo - 1)
        rec.nontrivial_n(hi - lo)


def decode_operand(table, code):
    b0 = code[0]
    handler = table[b0]
    if handler is None:
        return None
    v, idx = handler(None, b0, code, 1)
    return v, idx


class OtRound(RangeUnit):
    name = "otRound"
    rule = "half-integer lattice k/2 for k in [-4e5,4e5) plus k/2 +- 2^-20: otRound rounds halves up (towards +inf) and is the identity on integers; nearestMultipleShortestRepr(value,factor) reads back to the same multiple for factors {1/2^14, 1/2^16, 180/2^14 (angles)}; distinct = each k"
    domain = (-400000, 400000)
    step = 20000

    def one(self, k, rec):
        x = k / 2
        r = roundTools.otRound(x)
        exp = (k + 1) // 2  # floor(x + 0.5) computed in integers
        if r != exp:
            rec.violation("otRound:half", "otRound(%r)=%r expected %r" % (x, r, exp), case=k)
        eps = 2.0 ** -20
        if roundTools.otRound(x - eps) != (k // 2 if k % 2 else k // 2):
            rec.violation("otRound:below", "otRound(%r)" % (x - eps), case=k)
        if roundTools.otRound(x + eps) != exp:
            rec.violation("otRound:above", "otRound(%r)" % (x + eps), case=k)
        if k % 2:
            rec.witness("half")
        if -40000 <= k < 40000:
            for factor in (1.0 / (1 << 14), 1.0 / (1 << 16), 180.0 / (1 << 14)):
                val = k * factor
                s = roundTools.nearestMultipleShortestRepr(val, factor)
                if roundTools.otRound(float(s) / factor) != k:
                    rec.violation("nearestMultipleShortestRepr", "k=%d factor=%r -> %r reads back %r" % (k, factor, s, float(s) / factor), case=[k, factor])


# ---------------------------------------------------------------- CFF / T2 operands
def int_lattice():
    vals = set(range(-70000, 70001))
    for k in range(0, 32):
        for d in range(-4, 5):
            for sgn in (1, -1):
                x = sgn * (1 << k) + d
                if -(1 << 31) <= x <= (1 << 31) - 1:
                    vals.add(x)
    for b in (107, 108, 1131, 1132, 32767, 32768):
        for d in range(-4, 5):
            vals.add(b + d)
            vals.add(-b + d)
    return sorted(vals)


class IntOperands(Unit):
    name = "cff-t2-ints"
    rule = "every integer in [-70000,70000] plus +-4 around every +-2^k (k<32) and every encoding boundary (107/108, 1131/1132, 32767/32768): getIntEncoder('cff'|'t1'|'t2') bytes decode through the matching operand table to the same integer, consuming all bytes; t2 only over its int16 domain (outside it the encoder documents a legacy 16.16 hack); encodings are minimal length among the format's forms; distinct = each (format,value)"
    chunk = 1
    required_witnesses = ("1-byte", "2-byte", "3-byte", "5-byte")

    def setup(self, tier, seed):
        self.vals = int_lattice()

    def cases(self, tier, seed):
        return ranges(0, len(self.vals), 8192)

    def check(self, case, rec):
        lo, hi = case
        fmts = (
            ("cff", psCharStrings.encodeIntCFF, psCharStrings.cffDictOperandEncoding),
            ("t1", psCharStrings.encodeIntT1, psCharStrings.t1OperandEncoding),
            ("t2", psCharStrings.encodeIntT2, psCharStrings.t2OperandEncoding),
        )
        n = 0
        for i in range(lo, hi):
            v = self.vals[i]
            for fmt, enc, table in fmts:
                if fmt == "t2" and not -32768 <= v <= 32767:
                    continue
                n += 1
                code = enc(v)
                got = decode_operand(table, code)
                if got is None or got[0] != v or type(got[0]) is not int or got[1] != len(code):
                    rec.violation("intenc:%s" % fmt, "%s encode(%d)=%s decodes to %r" % (fmt, v, code.hex(), got), case=[fmt, v])
                rec.witness("%d-byte" % len(code))
                exp_len = 1 if -107 <= v <= 107 else 2 if -1131 <= v <= 1131 else (3 if (-32768 <= v <= 32767 and fmt != "t1") else 5)
                if len(code) != exp_len:
                    rec.violation("intenc-len:%s" % fmt, "%s encode(%d) has %d bytes, minimal is %d" % (fmt, v, len(code), exp_len), case=[fmt, v])
        rec.evals(n - 1)
        rec.nontrivial_n(n)


class RealOperands(Unit):
    name = "cff-reals"
    rule = "CFF real operands: every k*10^e for k in 1..999, e in -12..12, both signs, plus edge literals; encodeFloat -> read_realNumber returns float('%.8G' % v) (8 significant digits by design), all bytes consumed, nibble string terminated by 0xF; distinct = each (k,e,sign)"
    chunk = 1
    required_witnesses = ("negative exponent nibble", "positive exponent", "leading-dot form")

    def cases(self, tier, seed):
        for e in range(-12, 13):
            yield e
        yield "edge"

    EDGE = [1e-05, 123000.0, 0.5, -0.5, 0.0, -0.0, 1.0, -1.0, 0.1, 0.001, 1234.5678, 12345678.0, 123456789.0,
            1e8, 1e9, 0.00001234, 99999999.0, 0.099999999, 100.0, 1000.0, 10000.0, 0.05, -0.05, 1e-10, 5e-324 * 0 + 1e-300,
            1e300, 65535.0, 0.0009765625, 3.14159265358979]

    def check(self, case, rec):
        if case == "edge":
            vals = self.EDGE
        else:
            vals = []
            for k in range(1, 1000):
                for sgn in (1, -1):
                    vals.append(sgn * float("%dE%d" % (k, case)))
        for v in vals:
            code = psCharStrings.encodeFloat(v)
            got = decode_operand(psCharStrings.cffDictOperandEncoding, code)
            exp = float("%.8G" % v)
            if got is None or got[0] != exp or got[1] != len(code):
                rec.violation("encodeFloat", "encodeFloat(%r)=%s decodes to %r expected %r" % (v, code.hex(), got, exp), case=v)
            if code[0] != 30 or (code[-1] & 0x0F) != 0x0F:
                rec.violation("encodeFloat:framing", "%r -> %s" % (v, code.hex()), case=v)
            body = "".join("%02x" % b for b in code[1:])
            if "c" in body:
                rec.witness("negative exponent nibble")
            if "b" in body:
                rec.witness("positive exponent")
            if body.startswith("a") or body.startswith("ea"):
                rec.witness("leading-dot form")
        rec.evals(len(vals) - 1)
        rec.nontrivial_n(len(vals))


# ---------------------------------------------------------------- variable-length ints
def varint_lattice():
    vals = set(range(0, 1 << 21))
    for k in range(0, 33):
        for d in range(-4, 5):
            x = (1 << k) + d
            if 0 <= x <= 0xFFFFFFFF:
                vals.add(x)
    return sorted(vals)


class Base128(Unit):
    name = "base128"
    rule = "UIntBase128: every n < 2^21 plus +-4 around 2^k up to 2^32-1: unpackBase128(packBase128(n)+tail)==(n,tail), len==base128Size(n), shortest form; every overlong (leading 0x80) / 6-byte / overflowing encoding is rejected with TTLibError; out-of-range n rejected; distinct = each n"
    chunk = 1

    def setup(self, tier, seed):
        self.vals = varint_lattice()

    def cases(self, tier, seed):
        for r in ranges(0, len(self.vals), 65536):
            yield r
        yield "reject"

    def check(self, case, rec):
        if case == "reject":
            n = 0
            for bad in (-1, 1 << 32, (1 << 32) + 5):
                n += 1
                try:
                    woff2.packBase128(bad)
                    rec.violation("base128:range", "packBase128(%d) accepted" % bad, case=bad)
                except TTLibError:
                    rec.witness("range rejected")
            # every encoding of length <= 3 starting with 0x80, and overflow forms
            for tail in itertools.product((0x00, 0x01, 0x7F, 0x80, 0xFF), repeat=2):
                n += 1
                data = bytes((0x80,) + tail)
                try:
                    woff2.unpackBase128(data)
                    rec.violation("base128:leadingzero", "unpackBase128(%s) accepted" % data.hex(), case=data)
                except TTLibError:
                    rec.witness("leading zero rejected")
            for first in range(0x90, 0x100):
                n += 1
                data = bytes((first, 0x80, 0x80, 0x80, 0x00))
                try:
                    v = woff2.unpackBase128(data)
                    rec.violation("base128:overflow", "unpackBase128(%s) = %r accepted" % (data.hex(), v), case=data)
                except TTLibError:
                    rec.witness("overflow rejected")
            for data in (b"", b"\x81", b"\x81\x80", b"\x8f\xff\xff\xff\xff\x7f", b"\x81\x80\x80\x80\x80\x00"):
                n += 1
                try:
                    woff2.unpackBase128(data)
                    rec.violation("base128:short", "unpackBase128(%s) accepted" % data.hex(), case=data)
                except TTLibError:
                    rec.witness("truncated/overlong rejected")
            rec.evals(n - 1)
            rec.nontrivial_n(n)
            return
        lo, hi = case
        tail = b"\x80\x01"
        for i in range(lo, hi):
            n = self.vals[i]
            code = woff2.packBase128(n)
            got = woff2.unpackBase128(code + tail)
            if got != (n, tail):
                rec.violation("base128:roundtrip", "n=%d code=%s -> %r" % (n, code.hex(), got), case=n)
            size = max(1, (n.bit_length() + 6) // 7)
            if len(code) != size or woff2.base128Size(n) != size:
                rec.violation("base128:size", "n=%d len=%d base128Size=%d minimal=%d" % (n, len(code), woff2.base128Size(n), size), case=n)
        rec.evals(hi - lo - 1)
        rec.nontrivial_n(hi - lo)


class U255(RangeUnit):
    name = "255UShort"
    rule = "255UInt16: all 65536 values: unpack255UShort(pack255UShort(v)+tail)==(v,tail); encoding length minimal (1 below 253, 2 below 762, else 3); all alternative encodings of a value decode to it; distinct = each value"
    domain = (0, 65536)

    def one(self, v, rec):
        tail = b"\xfd\x00"
        code = woff2.pack255UShort(v)
        got = woff2.unpack255UShort(code + tail)
        if got != (v, tail):
            rec.violation("255ushort:roundtrip", "v=%d code=%s -> %r" % (v, code.hex(), got), case=v)
        exp = 1 if v < 253 else 2 if v < 762 else 3
        if len(code) != exp:
            rec.violation("255ushort:len", "v=%d len=%d expected %d" % (v, len(code), exp), case=v)
        rec.witness("len%d" % len(code))
        alt = struct.pack(">BH", 253, v)
        if woff2.unpack255UShort(alt)[0] != v:
            rec.violation("255ushort:alt", "v=%d alt=%s" % (v, alt.hex()), case=v)


class Uint32Var(Unit):
    name = "uint32var"
    rule = "VARC uint32var: every n < 2^21 plus +-4 around 2^k up to 2^32-1: _read_uint32var(_write_uint32var(n)+pad, 0) == (n, len) with minimal length per the format; distinct = each n"
    chunk = 1

    def setup(self, tier, seed):
        self.vals = varint_lattice()

    def cases(self, tier, seed):
        return ranges(0, len(self.vals), 65536)

    def check(self, case, rec):
        lo, hi = case
        for i in range(lo, hi):
            n = self.vals[i]
            code = otTables._write_uint32var(n)
            got = otTables._read_uint32var(b"\xff" + code + b"\xff\xff", 1)
            exp = 1 if n < 0x80 else 2 if n < 0x4000 else 3 if n < 0x200000 else 4 if n < 0x10000000 else 5
            if got != (n, 1 + len(code)) or len(code) != exp:
                rec.violation("uint32var", "n=%d code=%s -> %r (expected len %d)" % (n, code.hex(), got, exp), case=n)
            rec.witness("len%d" % len(code))
        rec.evals(hi - lo - 1)
        rec.nontrivial_n(hi - lo)


# ---------------------------------------------------------------- packed points / deltas
POINT_GAPS = (1, 2, 255, 256, 257, 1000)
POINT_RUNS = (1, 2, 127, 128, 129)


def build_points(spec, start):
    pts, cur = [], start
    first = True
    for gap, run in spec:
        for _ in range(run):
            if first:
                first = False
            else:
                cur += gap
            pts.append(cur)
        # after a run the next run's first gap is its own gap
    return pts


class PackedPoints(Unit):
    name = "packed-points"
    rule = "point-number sets built as <=3 (quick) / <=4 (thorough) runs, run = (gap in {1,2,255,256,257,1000}, length in {1,2,127,128,129}), first point in {0,1,255,256,300}; plus every subset of {0..11} ; decompilePoints_(compilePoints(S)) == sorted(S), all bytes consumed; distinct = each set"
    chunk = 200
    required_witnesses = ("word run", "byte run", "run split at 128", "two-byte count")

    def cases(self, tier, seed):
        for bits in range(1, 1 << 12):
            yield ["subset", bits]
        maxruns = 3 if tier == "quick" else 4
        atoms = [(g, r) for g in POINT_GAPS for r in POINT_RUNS]
        for n in range(1, maxruns + 1):
            for spec in itertools.product(atoms, repeat=n):
                for start in (0, 1, 255, 256, 300):
                    yield ["runs", start, [list(a) for a in spec]]

    def check(self, case, rec):
        if case[0] == "subset":
            pts = [i for i in range(12) if case[1] >> i & 1]
        else:
            pts = build_points(case[2], case[1])
        if pts[-1] > 0xFFFF:
            return
        data = bytes(TupleVariation.compilePoints(set(pts)))
        got, pos = TupleVariation.decompilePoints_(pts[-1] + 1, data + b"\xAA", 0, "gvar")
        if list(got) != pts or pos != len(data):
            rec.violation("points:roundtrip", "points %s... -> %s" % (pts[:8], list(got)[:8]), observed=list(got)[:40], expected=pts[:40])
        rec.nontrivial()
        # witnesses from the encoded form
        n = len(pts)
        p = 1 if n < 0x80 else 2
        if n >= 0x80:
            rec.witness("two-byte count")
        nruns = 0
        while p < len(data):
            hdr = data[p]
            cnt = (hdr & 0x7F) + 1
            if hdr & 0x80:
                rec.witness("word run")
                p += 1 + 2 * cnt
            else:
                rec.witness("byte run")
                p += 1 + cnt
            if cnt == 128:
                rec.witness("run split at 128")
            nruns += 1


DELTA_ATOMS = (0, 1, -1, -128, 127, 128, -129, 32767, -32768, 32768, -32769, 70000)
DELTA_KINDS = {"zero": (0,), "byte": (5, -128, 127), "word": (300, -32768, 32767), "long": (70000, -32769, 32768)}
DELTA_LENS = (1, 2, 63, 64, 65)


class PackedDeltas(Unit):
    name = "packed-deltas"
    rule = "delta vectors: all vectors of length <=3 (quick) / <=4 (thorough) over {0,+-1,-128,127,128,-129,32767,-32768,32768,-32769,70000}; vectors built as <=3 runs, run=(kind in zero/byte/word/long with 3 values each, length in {1,2,63,64,65}); both optimizeSize settings: decompileDeltas_(n, compileDeltaValues_(d)) == d with all bytes consumed; the empty vector; vectors of length <= 3 also as whole tuples of coordinate width 1 (cvar) and 2 (gvar) with an untouched entry, through compileDeltas; distinct = each vector"
    chunk = 400
    required_witnesses = ("zero run", "byte run", "word run", "long run", "run of 64", "tuple of width 1", "tuple of width 2")

    def cases(self, tier, seed):
        maxlen = 3 if tier == "quick" else 4
        yield ["vec", []]
        for n in range(1, maxlen + 1):
            for vec in itertools.product(DELTA_ATOMS, repeat=n):
                yield ["vec", list(vec)]
        atoms = []
        for kind, vs in DELTA_KINDS.items():
            for vi in range(len(vs)):
                for ln in DELTA_LENS:
                    atoms.append((kind, vi, ln))
        maxruns = 2 if tier == "quick" else 3
        for n in range(1, maxruns + 1):
            for spec in itertools.product(atoms, repeat=n):
                yield ["runs", [list(a) for a in spec]]

    def check(self, case, rec):
        if case[0] == "vec":
            d = case[1]
        else:
            d = []
            for kind, vi, ln in case[1]:
                vs = DELTA_KINDS[kind]
                # alternate the chosen value with the kind's first value so runs are not constant
                d.extend(vs[vi] if i % 2 == 0 else vs[0] for i in range(ln))
        rec.nontrivial()
        if case[0] == "vec" and len(d) <= 3:
            # whole tuples: one value per entry (cvar) and two (gvar), with an untouched (None) entry in front
            for width in (1, 2):
                for opt in (True, False):
                    coords = [None] + ([v for v in d] if width == 1 else [(v, -v if abs(v) < 32768 else v) for v in d])
                    tv = TupleVariation({"wght": (0.0, 1.0, 1.0)}, coords)
                    try:
                        data = bytes(tv.compileDeltas(optimizeSize=opt))
                    except Exception as e:
                        rec.violation("deltas:compileDeltas:%s:width%d" % (type(e).__name__, width), "optimizeSize=%s coordinates %r: %r" % (opt, coords, e))
                        continue
                    rec.witness("tuple of width %d" % width)
                    want = [c for c in coords if c is not None]
                    gx, pos = TupleVariation.decompileDeltas_(len(want), data, 0)
                    got = list(gx)
                    if width == 2:
                        gy, pos = TupleVariation.decompileDeltas_(len(want), data, pos)
                        got = list(zip(gx, gy))
                    if got != want or pos != len(data):
                        rec.violation("deltas:compileDeltas:roundtrip:width%d" % width, "optimizeSize=%s coordinates %r read back as %r (%d of %d bytes)" % (opt, coords, got, pos, len(data)))
        for opt in (True, False):
            data = bytes(TupleVariation.compileDeltaValues_(d, optimizeSize=opt))
            got, pos = TupleVariation.decompileDeltas_(len(d), data + b"\x55", 0)
            if list(got) != list(d) or pos != len(data):
                rec.violation("deltas:roundtrip", "optimizeSize=%s deltas %s... -> %s..." % (opt, d[:8], list(got)[:8]), observed=list(got)[:70], expected=d[:70])
            got2, pos2 = TupleVariation.decompileDeltas_(None, data, 0)
            if list(got2) != list(d):
                rec.violation("deltas:roundtrip-open", "optimizeSize=%s numDeltas=None" % opt, observed=list(got2)[:70], expected=d[:70])
            p = 0
            while p < len(data):
                hdr = data[p]
                cnt = (hdr & 0x3F) + 1
                k = hdr & 0xC0
                if cnt == 64:
                    rec.witness("run of 64")
                if k == 0x80:
                    rec.witness("zero run"); p += 1
                elif k == 0x40:
                    rec.witness("word run"); p += 1 + 2 * cnt
                elif k == 0xC0:
                    rec.witness("long run"); p += 1 + 4 * cnt
                else:
                    rec.witness("byte run"); p += 1 + cnt


# ---------------------------------------------------------------- eexec / hex
class Eexec(Unit):
    name = "eexec"
    rule = "Type 1 encryption: all byte strings of length <=2 and 256 longer strings (each byte value repeated / ramps) x keys {55665, 4330, 0, 65535, 12321}: decrypt(encrypt(p,R),R)==p and encrypt(decrypt(c,R),R)==c with equal final keys; hexString/deHexString over all 256 bytes and all pairs; distinct = each (string,key)"
    chunk = 1

    def cases(self, tier, seed):
        for b0 in range(256):
            yield b0

    def check(self, case, rec):
        b0 = case
        strings = [bytes([b0])] + [bytes([b0, b1]) for b1 in range(256)]
        strings.append(bytes([(b0 + 7 * i) & 0xFF for i in range(b0 + 3)]))
        strings.append(bytes([b0]) * 17)
        if b0 == 0:
            strings.append(b"")
        n = 0
        for s in strings:
            for R in (55665, 4330, 0, 65535, 12321):
                n += 1
                c, r1 = eexec.encrypt(s, R)
                p, r2 = eexec.decrypt(c, R)
                if p != s or r1 != r2:
                    rec.violation("eexec:enc-dec", "s=%s R=%d" % (s.hex(), R), case=[s, R])
                p2, r3 = eexec.decrypt(s, R)
                c2, r4 = eexec.encrypt(p2, R)
                if c2 != s or r3 != r4:
                    rec.violation("eexec:dec-enc", "s=%s R=%d" % (s.hex(), R), case=[s, R])
                if len(s) and c != s:
                    rec.witness("ciphertext differs")
            h = eexec.hexString(s)
            if eexec.deHexString(h) != s:
                rec.violation("hexString", "s=%s" % s.hex(), case=s)
            if eexec.deHexString(h.upper()) != s:
                rec.violation("hexString:upper", "s=%s" % s.hex(), case=s)
        rec.evals(n - 1)
        rec.nontrivial_n(n)


# ---------------------------------------------------------------- sstruct / time
SSTRUCT_FIELDS = {
    "b": (-128, -1, 0, 1, 127), "B": (0, 1, 255), "h": (-32768, -1, 0, 32767), "H": (0, 1, 65535),
    "i": (-(1 << 31), 0, (1 << 31) - 1), "I": (0, (1 << 32) - 1), "l": (-(1 << 31), 0, (1 << 31) - 1),
    "L": (0, (1 << 32) - 1), "q": (-(1 << 63), 0, (1 << 63) - 1), "Q": (0, (1 << 64) - 1),
    "c": (b"a", b"\x00", b"\xff"), "4s": (b"abcd", b"\x00\x00\x00\x00", b"\xff\xfe\x80\x7f"),
    "f": (0.0, 1.0, -1.5), "d": (0.0, 1e-300, -1.5),
    "2.14F": (-2.0, -1.0, 0.0, 0.5, 1.0, 1.99993896484375, 6.103515625e-05),
    "16.16F": (-32768.0, -1.0, 0.0, 0.5, 1.0, 32767.99998474121, 1.52587890625e-05),
    "8.8F": (-128.0, -0.5, 0.0, 1.0, 127.99609375),
    "0.16F": (-0.5, 0.0, 0.25, 0.4999847412109375),
}


class Sstruct(Unit):
    name = "sstruct"
    rule = "sstruct: every ordered pair of field kinds (18 kinds incl. fixed-point 2.14F/16.16F/8.8F/0.16F) x byte order {>,<} x all boundary values per field: unpack(fmt, pack(fmt, obj)) == obj, len == calcsize(fmt) == struct.calcsize(getformat(fmt)); the same with a pad byte (named / anonymous) between the two fields, each new format text first met by pack, by calcsize or by unpack; distinct = each (fmt, values)"
    chunk = 4
    required_witnesses = ("fixed-point field", "pad byte, first use by pack", "pad byte, first use by unpack")

    def cases(self, tier, seed):
        kinds = sorted(SSTRUCT_FIELDS)
        for a in kinds:
            for b in kinds:
                for order in (">", "<"):
                    yield [order, a, b]

    def check(self, case, rec):
        order, a, b = case
        fmt = "\n  %s # order\n  fa: %s\n  fb: %s\n" % (order, a, b)
        n = 0
        for va in SSTRUCT_FIELDS[a]:
            for vb in SSTRUCT_FIELDS[b]:
                n += 1
                obj = {"fa": va, "fb": vb}
                data = sstruct.pack(fmt, obj)
                if len(data) != sstruct.calcsize(fmt):
                    rec.violation("sstruct:size", "fmt=%r" % fmt, case=case)
                got = sstruct.unpack(fmt, data)
                exp = dict(obj)
                for k, kind in (("fa", a), ("fb", b)):
                    if kind in ("c", "4s"):
                        # sstruct returns text for char fields when they decode as ASCII/latin
                        g = got[k]
                        if isinstance(g, str):
                            got[k] = g.encode("latin-1")
                if got != exp:
                    rec.violation("sstruct:roundtrip", "fmt=%r obj=%r got=%r" % (fmt, obj, got), case=case + [repr(va), repr(vb)])
                if "F" in a or "F" in b:
                    rec.witness("fixed-point field")
        # pad bytes between the fields (named and anonymous), each format text met for the first time by
        # pack, by calcsize or by unpack (the parsed format is cached per text: a comment makes it new)
        va, vb = SSTRUCT_FIELDS[a][-1], SSTRUCT_FIELDS[b][0]
        obj = {"fa": va, "fb": vb}
        for pad in ("gap: x", "x"):
            for first in ("pack", "calcsize", "unpack"):
                n += 1
                fmt = "\n  %s # first use by %s\n  fa: %s\n  %s\n  fb: %s\n" % (order, first, a, pad, b)
                plain = struct.pack(order + "x")
                ref = sstruct.pack("\n  %s\n  fa: %s\n" % (order, a), {"fa": va}) + plain + sstruct.pack("\n  %s\n  fb: %s\n" % (order, b), {"fb": vb})
                try:
                    if first == "calcsize":
                        sstruct.calcsize(fmt)
                    elif first == "unpack":
                        sstruct.unpack(fmt, ref)
                    data = sstruct.pack(fmt, obj)
                    got = sstruct.unpack(fmt, data)
                    size = sstruct.calcsize(fmt)
                except Exception as e:
                    rec.violation("sstruct:pad:%s-first:%s" % (first, type(e).__name__), "fmt=%r obj=%r: %r" % (fmt, obj, e), case=case)
                    continue
                rec.witness("pad byte, first use by " + first)
                for k, kind in (("fa", a), ("fb", b)):
                    if kind in ("c", "4s") and isinstance(got.get(k), str):
                        got[k] = got[k].encode("latin-1")
                if data != ref or size != len(ref) or got != obj:
                    rec.violation("sstruct:pad:%s-first:roundtrip" % first, "fmt=%r obj=%r data=%r expected=%r got=%r" % (fmt, obj, data, ref, got), case=case)
        rec.evals(n - 1)
        rec.nontrivial_n(n)


class TimeStamps(RangeUnit):
    name = "timestamps"
    rule = "timestamps (seconds since 1904): lattice of 20000 values spaced by a prime stride from the Unix epoch (2082844800) to 2^32+10^9, plus +-2 around year/leap/2^31/2^32 boundaries: timestampFromString(timestampToString(v)) == v; timestampNow honours SOURCE_DATE_EPOCH; distinct = each value"
    domain = (0, 20000)
    step = 1000
    EPOCH_DIFF = 2082844800

    def one(self, i, rec):
        span = (1 << 32) + 10**9 - self.EPOCH_DIFF
        stride = 161221  # prime, so consecutive cases hit different h:m:s
        v = self.EPOCH_DIFF + (i * stride * 2) % span
        vals = [v]
        if i < 400:
            b = [self.EPOCH_DIFF, self.EPOCH_DIFF + 86400 * 365, (1 << 31), (1 << 32), (1 << 32) - 1,
                 self.EPOCH_DIFF + 951782400, self.EPOCH_DIFF + 951868800, 3786825600, self.EPOCH_DIFF + 4102444800][i % 9]
            vals.append(b + (i // 9) % 5 - 2)
        for v in vals:
            if v < self.EPOCH_DIFF:
                continue
            s = timeTools.timestampToString(v)
            try:
                got = timeTools.timestampFromString(s)
            except Exception as e:
                rec.violation("timestamp:parse", "v=%d s=%r %s" % (v, s, e), case=v)
                continue
            if got != v:
                rec.violation("timestamp:roundtrip", "v=%d s=%r -> %d" % (v, s, got), case=v)
        if i == 0:
            import os

            old = os.environ.get("SOURCE_DATE_EPOCH")
            os.environ["SOURCE_DATE_EPOCH"] = "1234567890"
            try:
                if timeTools.timestampNow() != 1234567890 + self.EPOCH_DIFF:
                    rec.violation("timestamp:SOURCE_DATE_EPOCH", "timestampNow()=%r" % timeTools.timestampNow(), case=0)
                rec.witness("SOURCE_DATE_EPOCH honoured")
            finally:
                if old is None:
                    del os.environ["SOURCE_DATE_EPOCH"]
                else:
                    os.environ["SOURCE_DATE_EPOCH"] = old


# ---------------------------------------------------------------- tags
CLASS_REPS = " !-/0259AOSZ_az~"  # one or two representatives per character class + the characters of the special-cased tag OS/2
PRINTABLE = "".join(chr(c) for c in range(32, 127))


def valid_tag(t):
    # OpenType: printable ASCII; spaces only trailing; not all spaces
    # (the property quantifies over all 4-character printable-ASCII tags: leading and interior
    # spaces are part of the domain although OpenType itself only pads at the end)
    return True


class Tags(Unit):
    name = "tags"
    rule = "table tags: quick = all 4-tuples over 16 class representatives ' !-/0259AOSZ_az~' (65536); thorough = all 95^4 printable-ASCII 4-tuples; every tag, leading and interior spaces and the all-space tag included: identifierToTag(tagToIdentifier(t))==t, xmlToTag(tagToXML(t))==t, identifiers are [A-Za-z0-9_]+ not starting with a digit, both manglings injective (checked by inverse), identifier unique on caseless file systems; distinct = each tag"
    chunk = 1
    required_witnesses = ("plain xml name", "mangled xml name", "hex escape", "trailing space")

    def cases(self, tier, seed):
        alpha = CLASS_REPS if tier == "quick" else PRINTABLE
        for a in alpha:
            if tier == "quick":
                yield [a, alpha]
            else:
                for b in alpha:
                    yield [a + b, alpha]

    def check(self, case, rec):
        prefix, alpha = case
        import re

        identre = re.compile(r"^[A-Za-z_][A-Za-z0-9_]*$")
        n = 0
        lower_seen = {}
        for rest in itertools.product(alpha, repeat=4 - len(prefix)):
            t = prefix + "".join(rest)
            if not valid_tag(t):
                continue
            n += 1
            ident = _ttFont.tagToIdentifier(t)
            if not identre.match(ident):
                rec.violation("tagToIdentifier:notIdentifier", "tag %r -> %r" % (t, ident), case=t)
            back = _ttFont.identifierToTag(ident)
            if back != t:
                rec.violation("identifierToTag", "tag %r -> %r -> %r" % (t, ident, back), case=t)
            low = ident.lower()
            if low in lower_seen and lower_seen[low] != t:
                rec.violation("tagToIdentifier:caseless-collision", "%r and %r -> %r" % (t, lower_seen[low], low), case=t)
            lower_seen[low] = t
            x = _ttFont.tagToXML(t)
            xb = _ttFont.xmlToTag(x)
            if xb != t:
                rec.violation("xmlToTag:" + tag_class(t), "tag %r -> %r -> %r" % (t, x, xb), case=t)
            if x == t.strip():
                rec.witness("plain xml name")
            else:
                rec.witness("mangled xml name")
            if t.endswith(" "):
                rec.witness("trailing space")
            if re.search("[0-9a-f]{2}", ident) and not re.match("^(_[a-z0-9]|[A-Z]_)*$", ident):
                rec.witness("hex escape")
        if n:
            rec.evals(n - 1)
            rec.nontrivial_n(n)


def tag_class(t):
    import re

    s = t.rstrip(" ")
    if re.match("[A-Za-z_][A-Za-z_0-9]*$", s):
        return "plain"
    return "len%d-%s" % (len(s), "digit1st" if s[0].isdigit() else "nonname")


# ---------------------------------------------------------------- sparse bit set / agl
class SparseBitSet(Unit):
    name = "sparse-bitset"
    rule = "IFT sparse bit set: every subset of {0..11} (4096), every subset of size<=3 of boundary values {0,1,3,4,7,8,31,32,63,64,255,256,1023,1024,32767,32768,2^20,2^31-1,2^32-1}, and filled intervals [a,b] with a,b from the boundaries (b-a<=70000): decode(encode(S)) == (S, len(encoding)); with bias b in {0,5}: decode shifts by b; distinct = each set"
    chunk = 64
    required_witnesses = ("filled node", "multi-level tree")
    BOUND = (0, 1, 3, 4, 7, 8, 31, 32, 63, 64, 255, 256, 1023, 1024, 32767, 32768, 1 << 20, (1 << 31) - 1, (1 << 32) - 1)

    def cases(self, tier, seed):
        for bits in range(0, 1 << 12):
            yield ["bits", bits]
        for k in range(1, 4):
            for c in itertools.combinations(self.BOUND, k):
                yield ["set", list(c)]
        for a in self.BOUND:
            for b in self.BOUND:
                if a <= b and b - a <= 70000:
                    yield ["range", a, b]

    def check(self, case, rec):
        if case[0] == "bits":
            s = {i for i in range(12) if case[1] >> i & 1}
        elif case[0] == "set":
            s = set(case[1])
        else:
            s = set(range(case[1], case[2] + 1))
        data = iftSparseBitSet.encode(s)
        got, used = iftSparseBitSet.decode(data + b"\xff")
        if got != s or used != len(data):
            rec.violation("sparsebitset:roundtrip", "set(size %d, max %s) -> %d bytes -> size %d consumed %d" % (len(s), max(s) if s else None, len(data), len(got), used), case=case)
        if s and max(s) + 5 <= 0xFFFFFFFF:
            got2, _ = iftSparseBitSet.decode(data, bias=5)
            if got2 != {v + 5 for v in s}:
                rec.violation("sparsebitset:bias", "bias=5", case=case)
        rec.nontrivial()
        if data and (data[0] >> 2) > 1:
            rec.witness("multi-level tree")
        if case[0] == "range" and len(s) >= 32 and len(data) < len(s) // 8:
            rec.witness("filled node")


class Agl(Unit):
    name = "agl"
    rule = "glyph-name <-> Unicode: every AGLFN/AGL name maps through toUnicode to the listed string and UV2AGL/AGL2UV are consistent; every uniXXXX for the code point lattice (all BMP code points with step 1 in quick = 65536) and uXXXXX[X] for planes 0..16 boundaries: toUnicode returns exactly that character, surrogates/out-of-range return ''; underscore ligatures and .suffix stripping compose; distinct = each name"
    chunk = 1

    def cases(self, tier, seed):
        yield ["agl"]
        for hi in range(0, 256):
            yield ["uni", hi]
        yield ["u"]

    def check(self, case, rec):
        n = 0
        if case[0] == "agl":
            for name, uni in agl.AGL2UV.items():
                n += 1
                exp = "".join(chr(c) for c in uni) if isinstance(uni, (tuple, list)) else chr(uni)
                got = agl.toUnicode(name)
                if got != exp:
                    rec.violation("agl:toUnicode", "%r -> %r expected %r" % (name, got, exp), case=name)
                if agl.toUnicode(name + ".alt") != exp:
                    rec.violation("agl:suffix", "%r" % name, case=name)
            for uv, names in agl.UV2AGL.items():
                n += 1
                names = names if isinstance(names, (list, tuple, set)) else [names]
                for nm in names:
                    if agl.toUnicode(nm) != chr(uv):
                        rec.violation("agl:UV2AGL", "U+%04X -> %r -> %r" % (uv, nm, agl.toUnicode(nm)), case=uv)
            if agl.toUnicode("f_f_i") != "ffi" or agl.toUnicode("uni0041_b.sc") != "Ab":
                rec.violation("agl:ligature", "underscore composition", case="f_f_i")
            rec.witness("agl names")
        elif case[0] == "uni":
            hi = case[1]
            for lo in range(256):
                cp = hi << 8 | lo
                n += 1
                name = "uni%04X" % cp
                got = agl.toUnicode(name)
                surrogate = 0xD800 <= cp <= 0xDFFF
                exp = "" if surrogate else chr(cp)
                if got != exp:
                    rec.violation("agl:uni", "%s -> %r expected %r" % (name, got, exp), case=name)
                got = agl.toUnicode("u%04X" % cp)
                if got != exp:
                    rec.violation("agl:u", "u%04X -> %r expected %r" % (cp, got, exp), case=name)
                if surrogate:
                    rec.witness("surrogate rejected")
            # two code units in one uni name
            nm = "uni%04X%04X" % (0x41 + hi % 20, 0x3B1 + hi)
            if agl.toUnicode(nm) != chr(0x41 + hi % 20) + chr(0x3B1 + hi):
                rec.violation("agl:uni-multi", nm, case=nm)
        else:
            for plane in range(0, 18):
                for off in (0, 1, 0x7FFF, 0xFFFD, 0xFFFE, 0xFFFF):
                    cp = plane << 16 | off
                    n += 1
                    for fmtw in ("u%04X", "u%05X", "u%06X"):
                        name = fmtw % cp
                        if len(name) - 1 < len("%X" % cp):
                            continue
                        got = agl.toUnicode(name)
                        exp = chr(cp) if cp <= 0x10FFFF and not 0xD800 <= cp <= 0xDFFF else ""
                        if got != exp:
                            rec.violation("agl:uplane", "%s -> %r expected %r" % (name, got, exp), case=name)
            rec.witness("astral u-names")
        rec.evals(max(0, n - 1))
        rec.nontrivial_n(n)


# ---------------------------------------------------------------- Type 1 font program writer / reader
class Type1Charstrings(Unit):
    name = "type1-charstrings"
    rule = ("Type 1 charstring encryption as the font writer and reader use it: the repository's Type 1 test font with /lenIV in {absent,0,1,2,3,4,5,8} (placed before /Subrs), its Subrs replaced by "
            "every one-byte program, every three-byte program (v, 255-v, v) and the empty one (16 blocks of 16 byte values), its CharStrings by byte ramps of length 0..6; "
            "T1Font.createData -> parse, and saveAs in each of PFA (hex), PFB (segments) and raw binary -> T1Font(path).parse: every subroutine and charstring reads back byte-identical and "
            "lenIV is preserved; distinct = each (lenIV, block, container)")
    chunk = 4
    required_witnesses = ("lenIV absent", "lenIV 0", "lenIV 3", "container PFA", "container PFB", "container OTHER", "subroutines compared")

    def cases(self, tier, seed):
        for lenIV in (None, 0, 1, 2, 3, 4, 5, 8):
            for blk in range(16):
                yield [lenIV, blk]

    @staticmethod
    def _load(data=None):
        import os
        from fontTools.t1Lib import T1Font
        if data is None:
            f = T1Font(os.path.join(env.REPO, "Tests", "t1Lib", "data", "TestT1-Regular.pfa"))
        else:
            f = T1Font.__new__(T1Font)
            f.data = data
            f.encoding = "ascii"
        f.parse()
        return f

    def check(self, case, rec):
        import os, tempfile
        from fontTools.t1Lib import T1Font
        from fontTools.misc.psCharStrings import T1CharString
        lenIV, blk = case
        f = self._load()
        priv = f.font["Private"]
        items = [(k, v) for k, v in priv.items() if k != "lenIV"]
        priv.clear()
        if lenIV is not None:
            priv["lenIV"] = lenIV
        priv.update(items)
        vals = range(16 * blk, 16 * blk + 16)
        subrs = [T1CharString(bytecode=bytes([v])) for v in vals] + [T1CharString(bytecode=bytes([v, 255 - v, v])) for v in vals] + [T1CharString(bytecode=b"")]
        priv["Subrs"] = subrs
        cs = f.font["CharStrings"]
        for i, n in enumerate(list(cs)):
            cs[n] = T1CharString(bytecode=bytes([(i * 37 + j + 16 * blk) & 255 for j in range(i % 7)]))
        want_s = [bytes(x.bytecode) for x in subrs]
        want_c = {n: bytes(c.bytecode) for n, c in cs.items()}
        rec.witness("lenIV absent" if lenIV is None else "lenIV %d" % lenIV)

        def judge(g, how):
            rec.nontrivial(key=[lenIV, blk, how])
            if g["Private"].get("lenIV", 4) != (4 if lenIV is None else lenIV):
                rec.violation("type1:lenIV:" + how, "lenIV %r read back as %r" % (lenIV, g["Private"].get("lenIV")))
            got_s = [bytes(x.bytecode) for x in g["Private"]["Subrs"]]
            got_c = {n: bytes(c.bytecode) for n, c in g["CharStrings"].items()}
            rec.witness("subroutines compared")
            if got_s != want_s:
                bad = [i for i, (a, b) in enumerate(zip(want_s, got_s)) if a != b]
                rec.violation("type1:subrs:" + how, "lenIV=%r: %d of %d subroutines differ after write+read, e.g. #%s written %s read %s"
                              % (lenIV, len(bad), len(want_s), bad[:1], want_s[bad[0]].hex() if bad else "-", got_s[bad[0]].hex() if bad else "(count %d)" % len(got_s)))
            if got_c != want_c:
                bad = sorted(n for n in want_c if want_c[n] != got_c.get(n))
                rec.violation("type1:charstrings:" + how, "lenIV=%r: %d of %d charstrings differ after write+read, e.g. %s" % (lenIV, len(bad), len(want_c), bad[:1]))

        data = f.createData()
        judge(self._load(data), "createData")
        for fmt, suffix in (("PFA", ".pfa"), ("PFB", ".pfb"), ("OTHER", ".t1")):
            fd, path = tempfile.mkstemp(suffix=suffix, dir="/dev/shm" if os.path.isdir("/dev/shm") else None)
            os.close(fd)
            try:
                f.saveAs(path, fmt)
                h = T1Font(path)
                h.parse()
                rec.witness("container " + fmt)
                judge(h, fmt)
            finally:
                if os.path.exists(path):
                    os.unlink(path)


def units():
    return [F2Dot14(), Fixed1616(), OtRound(), IntOperands(), RealOperands(), Base128(), U255(), Uint32Var(),
            PackedPoints(), PackedDeltas(), Eexec(), Sstruct(), TimeStamps(), Tags(), SparseBitSet(), Agl(), Type1Charstrings()]
