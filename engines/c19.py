"""C19 - design sources survive being written and read back.

E1  histories: real GlyphSet / UFOWriter objects in a fresh temp directory, every operation
    sequence up to a depth bound, against a plain dict model; userNameToFileName over every
    name sequence of a hostile alphabet.
E2  documents: designspace documents, GLIF glyph records, fontinfo/kerning/groups/lib values,
    plist value trees, each enumerated from a grammar by a deviation bound and written/read.
E3  axis maps: every monotone map on a 5x5 lattice, forward/backward inverse.
"""
from mc import env  # noqa: F401
from mc.kernel import Unit

import itertools
import os
import plistlib as std_plistlib
import shutil
import tempfile
import xml.etree.ElementTree as StdET

from fontTools.ufoLib import filenames as ufo_filenames
from fontTools.misc import filenames as misc_filenames
from fontTools.ufoLib.glifLib import GlyphSet
from fontTools.ufoLib.errors import GlifLibError

from oracles import c19_names as N
from oracles import c19_glif as G

LEVEL = "model_checking"
ASSUMPTIONS = [
    "file-system behaviour is that of a case-sensitive POSIX tmpfs (/dev/shm); case-insensitive collisions are judged on the generated names with str.lower(), as the UFO conventions define them, not by a case-insensitive file system",
    "glyph/layer names in file-backed units are valid XML attribute text (no control characters); long names are ASCII (255 characters = 255 bytes); control characters only reach the bare userNameToFileName functions",
    "'legal' = the illegal-character and reserved-device-name lists of the UFO 3 conventions (ufoLib.filenames: plus '(' ')' and COM5-9/LPT4-9, which that module documents); names ending in '.' or ' ' are not judged",
    "the GlyphSet/UFOWriter models take file and directory names as opaque tokens observed from the implementation and only judge them by predicates; GlyphSet.readGlyph is run for every name at every end state instead of being a branching operation",
    "operations whose precondition the caller broke (deleting a glyph whose file is gone after an out-of-sync rebuild, reopening a UFO whose layercontents.plist is stale or has no default layer) are not explored; a refused layer operation (UFOLibError) is accepted if nothing changed",
    "designspace numbers have at most 6 decimals (the writer formats with %f); source names are always given (unnamed sources receive generated names); localised 'en' names of sources/instances, instance kerning/info flags and paths are outside the grammar",
    "GLIF notes with several lines are compared modulo white space (the element text is re-indented); numbers compare by value, bool/int/float/str/bytes types must be kept in plists",
    "up-conversion: UFO 1/2 kerning where a glyph sits in two kerning groups of one side has no defined meaning and is skipped; the glyph set of the old UFO is empty",
    "VERIF_SEED is not used: every tier enumerates one fixed space",
    "histories beyond the depth bounds, names outside the alphabets, plist trees deeper than 3, documents more than 2 (3) deviations away from the base are not visited",
]

TMP_ROOT = os.environ.get("C19_TMP") or ("/dev/shm" if os.path.isdir("/dev/shm") else tempfile.gettempdir())


_RUN_ROOT = None
_PROC_ROOT = {}
_COUNTER = itertools.count()


def run_root():
    """One directory per run (made in the parent before forking, removed at exit); every
    worker process works in its own sub-directory, so that the processes do not contend for
    the same parent directory."""
    global _RUN_ROOT
    if _RUN_ROOT is None or not os.path.isdir(_RUN_ROOT):
        import atexit

        _RUN_ROOT = tempfile.mkdtemp(prefix="c19-", dir=TMP_ROOT)
        owner = os.getpid()

        def cleanup(path=_RUN_ROOT):
            if os.getpid() == owner:
                shutil.rmtree(path, ignore_errors=True)

        atexit.register(cleanup)
    return _RUN_ROOT


class TempDir:
    """A fresh empty directory for one case, deleted afterwards."""

    def __enter__(self):
        pid = os.getpid()
        root = _PROC_ROOT.get(pid)
        if root is None or not os.path.isdir(root):
            root = _PROC_ROOT[pid] = tempfile.mkdtemp(prefix="w%d-" % pid, dir=run_root())
        self.path = os.path.join(root, "d%d" % next(_COUNTER))
        os.mkdir(self.path)
        return self.path

    def __exit__(self, *a):
        shutil.rmtree(self.path, ignore_errors=True)


class FSUnit(Unit):
    def setup(self, tier, seed):
        run_root()


# =============================================================== E1a  userNameToFileName
AFFIXES = (0, 5, 240)
FN_FUNCS = {"ufoLib": ufo_filenames.userNameToFileName, "misc": misc_filenames.userNameToFileName}


def affix(n, ch):
    # a fixed affix of length n; contains a dot so that it looks like "glyphs." / ".glif"
    if n == 0:
        return ""
    return (ch * (n - 1) + ".") if ch == "p" else ("." + ch * (n - 1))


class FileNames(Unit):
    name = "userNameToFileName"
    rule = ("every sequence of <=3 names (quick: <=2 over the full alphabet, 3 over the core) over the hostile alphabet "
            "(case variants, reserved names, 250/251/130-upper-case long names, '/', ':', '*', control characters, U+0130, astral, "
            "names ending +-2 around the clip point with/without reserved last part) x prefix/suffix lengths {0,5,240}^2 (sum<255) "
            "x {ufoLib.filenames, misc.filenames}; `existing` accumulates the lower-cased results; every result legal, <=255 chars, "
            "not in existing case-insensitively, keeps prefix and suffix; distinct = each (module, affixes, sequence)")
    required_witnesses = ("clash resolved by counter", "clipped", "reserved part escaped", "illegal character replaced", "upper case marked")
    chunk = 1

    def alphabet(self, plen, slen):
        return N.FS_NAMES + N.CTRL_NAMES + N.boundary_names(plen, slen)

    def cases(self, tier, seed):
        for flavour in ("ufoLib", "misc"):
            for plen in AFFIXES:
                for slen in AFFIXES:
                    if plen + slen >= 250:
                        continue
                    n = len(self.alphabet(plen, slen))
                    for first in range(n):
                        yield [flavour, plen, slen, first, tier]
            yield [flavour, 0, 5, "sweep", tier]

    def check(self, case, rec):
        flavour, plen, slen, first, tier = case
        func = FN_FUNCS[flavour]
        prefix, suffix = affix(plen, "p"), affix(slen, "s")
        if first == "sweep":
            # every character up to U+017F, U+0130-like specials and plane boundaries, alone in a name
            cps = list(range(0, 0x180)) + [0x1E9E, 0x2126, 0x212A, 0xFB00, 0xFFFF, 0x10000, 0x10400, 0x10FFFF]
            for cp in cps:
                for pos, nm in enumerate(("x" + chr(cp) + "y", chr(cp), chr(cp) + ".x")):
                    try:
                        out = func(nm, existing=frozenset(), prefix=prefix, suffix=suffix)
                    except Exception as e:
                        rec.violation("userNameToFileName:exception:%s:sweep" % type(e).__name__, "%s(%r): %r" % (flavour, nm, e))
                        continue
                    self.judge(rec, flavour, nm, out, frozenset(), prefix, suffix, plen, slen, None)
            rec.evals(3 * len(cps) - 1)
            rec.nontrivial_n(3 * len(cps))
            return
        names = self.alphabet(plen, slen)
        if isinstance(first, list):
            # replay form: exactly one sequence
            existing = frozenset()
            for k, idx in enumerate(first):
                out = func(names[idx], existing=existing, prefix=prefix, suffix=suffix)
                self.judge(rec, flavour, names[idx], out, existing, prefix, suffix, plen, slen, first[: k + 1])
                existing = existing | {out.lower()}
            return
        core = [i for i, nm in enumerate(names) if nm in N.CORE_NAMES or nm in N.CTRL_NAMES[:1]] + \
               [i for i, nm in enumerate(names) if nm.endswith(".con") and len(nm) > 200][:2]
        n = 0
        # depth-first over sequences starting with `first`; `existing` is rebuilt per path
        def step(seq, existing, results):
            nonlocal n
            idx = seq[-1]
            nm = names[idx]
            n += 1
            try:
                out = func(nm, existing=existing, prefix=prefix, suffix=suffix)
            except Exception as e:  # the functions document only NameTranslationError (exhaustion)
                rec.violation("userNameToFileName:exception:%s:%s" % (type(e).__name__, N.name_shape(nm, flavour)),
                              "%s.userNameToFileName(%s, existing=%d names, prefix %d, suffix %d) raised %r" % (flavour, N.short(nm), len(existing), plen, slen, e),
                              case=[flavour, plen, slen, list(seq), "replay"])
                return
            self.judge(rec, flavour, nm, out, existing, prefix, suffix, plen, slen, seq)
            maxlen = 3
            if len(seq) >= maxlen:
                return
            ex2 = existing | {out.lower()}
            if len(seq) == 1:
                nxt = range(len(names))
            elif tier == "quick":
                nxt = core
            else:
                nxt = range(len(names))
            for j in nxt:
                step(seq + [j], ex2, results)

        step([first], frozenset(), [])
        rec.evals(n - 1)
        rec.nontrivial_n(n)
        rec.trace(n)

    def judge(self, rec, flavour, nm, out, existing, prefix, suffix, plen, slen, seq):
        case = [flavour, plen, slen, list(seq), "replay"] if seq is not None else None
        shape = N.name_shape(nm, flavour)
        if not isinstance(out, str):
            rec.violation("userNameToFileName:not-a-string", "%r" % (out,), case=case)
            return
        reasons = N.illegal_reasons(out, flavour, prefix, suffix)
        clash = out.lower() in existing
        counter = len(out) >= 15 + len(suffix) and out[len(out) - len(suffix) - 15: len(out) - len(suffix)].isdigit() and existing
        for r in reasons:
            fkey = filename_fkey(flavour, r, nm, out, counter, plen + slen)
            rec.violation(fkey, "%s.userNameToFileName(%s, existing=%d, prefix=%d chars, suffix=%d chars) -> %s (%d chars): %s"
                          % (flavour, N.short(nm), len(existing), plen, slen, N.short(out, 40), len(out), r), case=case,
                          observed=out, expected="<=255 characters, legal")
        if clash:
            rec.violation("filename:%s:not-unique:%s" % (flavour, shape), "%s.userNameToFileName(%s) -> %s which is in `existing` ignoring case"
                          % (flavour, N.short(nm), N.short(out, 40)), case=case)
        if not (out.startswith(prefix) and out.endswith(suffix)):
            rec.violation("filename:affix-lost", "%s -> %s" % (N.short(nm), N.short(out, 40)), case=case)
        # witnesses from input shape / output text
        body = out[len(prefix): len(out) - len(suffix)] if suffix else out[len(prefix):]
        if counter:
            rec.witness("clash resolved by counter")
        if len(out) >= 255 and len(nm) + plen + slen > 255:
            rec.witness("clipped")
        if shape.startswith("reserved-part") and "reserved-part" not in reasons:
            rec.witness("reserved part escaped")
        if any(c in N.SPEC_ILLEGAL for c in nm) and "illegal-char" not in reasons:
            rec.witness("illegal character replaced")
        if any(c != c.lower() for c in nm) and "_" in body:
            rec.witness("upper case marked")
        rec.outcome(out)

    def bounds(self, tier, seed):
        return {"sequence_length": 3, "third_name": "core alphabet" if tier == "quick" else "full alphabet",
                "affix_lengths": list(AFFIXES), "alphabet_size": len(self.alphabet(0, 5))}


def filename_fkey(flavour, reason, userName, fileName, counter, affix_total):
    """Stable class key of a file-name violation, from the shape of the input."""
    shape = N.name_shape(userName, flavour)
    if reason == "too-long":
        if counter:
            return "filename:%s:too-long:clash-counter:%s" % (flavour, "long-affixes" if affix_total >= 240 else "short-affixes")
        if "reserved-part" in shape:
            return "filename:%s:too-long:reserved-part" % flavour
        return "filename:%s:too-long:other" % flavour
    if reason == "illegal-char":
        illegal = N.FLAVOURS[flavour][0]
        bad = sorted({c for c in fileName if c in illegal})
        cls = "+".join("nul" if c == "\x00" else "double-quote" if c == '"' else "control" if ord(c) < 32 or ord(c) == 127 else "punct" for c in bad)
        return "filename:%s:illegal-char:%s" % (flavour, cls)
    return "filename:%s:%s:%s" % (flavour, reason, shape)


# =============================================================== E1b  GlyphSet histories
LAYERINFO = [
    {},  # empty: nothing to write, an existing file must go away
    {"color": "1,0,0,0.5", "lib": {"k<&>": [1, 2.5, True]}},
    {"color": "0,0,1,1"},
]


class Info:
    pass


def make_layerinfo(k):
    o = Info()
    for a, v in LAYERINFO[k].items():
        setattr(o, a, v)
    return o


class GSModel:
    """Plain-dict model of a glyph set directory.  File names are opaque tokens observed from
    the implementation when a name first receives one; the model never computes them."""

    def __init__(self):
        self.mem = {}  # glyph name -> file name (the writer's view)
        self.files = {}  # file name -> (glyph name, record index) on disk
        self.committed = None  # contents.plist as last written: glyph name -> file name
        self.layerinfo = None  # index into LAYERINFO or None (no file)
        self.opened_with_contents = False  # did contents.plist exist when the GlyphSet object was made
        self.empty_write_shape = "never"  # how the GlyphSet that last wrote an empty layer info had been opened

    def clean(self):
        return self.committed == self.mem and set(self.mem.values()) == set(self.files)

    def key(self):
        return [sorted((n, f, self.files.get(f, (None, None))[1]) for n, f in self.mem.items()),
                sorted((f, v[0], v[1]) for f, v in self.files.items() if f not in self.mem.values()),
                None if self.committed is None else sorted(self.committed.items()),
                self.layerinfo]


def gs_ops(names, tier_records):
    ops = []
    for i in range(len(names)):
        for r in tier_records:
            ops.append(["w", i, r])
    for i in range(len(names)):
        ops.append(["d", i])
    ops.append(["c"])
    ops.append(["r"])
    for k in range(len(LAYERINFO)):
        ops.append(["li", k])
    return ops


def abstract_enabled(op, mem, committed):
    """Name-level enabling used to enumerate histories (the run-time model refines it)."""
    if op[0] == "d":
        return op[1] in mem
    return True


def abstract_apply(op, mem, committed):
    if op[0] == "w":
        return mem | {op[1]}, committed
    if op[0] == "d":
        return mem - {op[1]}, committed
    if op[0] == "c":
        return mem, mem
    if op[0] == "r":
        return committed, committed
    return mem, committed


class GlyphSetHistories(FSUnit):
    name = "glyphset-histories"
    rule = ("all operation histories on a real GlyphSet (UFO 3, default options) in a fresh /dev/shm directory: ops writeGlyph(name, record), deleteGlyph(name), writeContents, "
            "rebuild (new GlyphSet on the directory), writeLayerInfo(3 values); records = rich (all point types, components, anchors, guidelines, lib, image, unicodes, note) / empty / "
            "advance only; quick: depth 3 over 19 hostile names x 1 record and over 4 file-sharing names x 3 records; thorough adds depth 3 over 19 names x 3 records and depth 4 over the "
            "9-name core x 1 record and the 4 names x 3 records; model = dicts name -> file token -> record (tokens observed, never computed); at the end state of every history: "
            "names and name->file mapping equal the model, readGlyph of every name equals the written record (missing file: GlifLibError), absent name raises KeyError, "
            "directory listing equals the model's file set, contents.plist (read with the stdlib) equals the committed mapping and the listing when in sync, "
            "a fresh reader agrees, layerinfo read-back equals the last write, file names legal / <=255 / distinct ignoring case; distinct = each history")
    required_witnesses = ("clash resolved by counter", "long name clipped", "reserved name escaped", "overwrite keeps file",
                          "delete then rewrite", "rebuild in sync", "rebuild out of sync", "layerinfo removed", "fresh reader compared")
    chunk = 6

    RECORD_NAMES = ["a", "A", "a/B", "a:B"]

    def space(self, tier):
        """(names, record indices, depth).  Index 0..1 are the quick spaces; thorough adds the
        full product at depth 3 and depth 4 over the small alphabets."""
        sp = [
            (N.FS_NAMES, [2], 3),  # every name, one cheap record: name interplay
            (self.RECORD_NAMES, [0, 1, 2], 3),  # every record, names that share / overwrite files
        ]
        if tier == "thorough":
            sp += [
                (N.FS_NAMES, [0, 1, 2], 3),
                (N.CORE_NAMES, [2], 4),
                (self.RECORD_NAMES, [0, 1, 2], 4),
            ]
        return sp

    def cases(self, tier, seed):
        for si, (names, recs, depth) in enumerate(self.space(tier)):
            ops = gs_ops(names, recs)
            # a case is a prefix of length depth-1 (all shorter ones too); check() runs every
            # one-op extension of it
            def rec_enum(prefix, mem, committed):
                yield [si, prefix]
                if len(prefix) >= depth - 1:
                    return
                for op in ops:
                    if not abstract_enabled(op, mem, committed):
                        continue
                    m2, c2 = abstract_apply(op, mem, committed)
                    yield from rec_enum(prefix + [op], m2, c2)

            yield from rec_enum([], frozenset(), frozenset())

    def check(self, case, rec):
        si, prefix = case[:2]
        names, recs, depth = self.space("thorough")[si]
        if len(case) == 3:  # replay form: exactly this history
            self.run_history(names, prefix, rec, si)
            return
        ops = gs_ops(names, recs)
        mem, committed = frozenset(), frozenset()
        for op in prefix:
            mem, committed = abstract_apply(op, mem, committed)
        n = 0
        for op in ops:
            if not abstract_enabled(op, mem, committed):
                continue
            n += 1
            self.run_history(names, prefix + [op], rec, si)
        rec.evals(max(0, n - 1))
        rec.nontrivial_n(n)

    # -- one history on a fresh directory ---------------------------------
    def run_history(self, names, history, rec, si):
        self._si = si
        with TempDir() as d:
            gs = GlyphSet(d)
            m = GSModel()
            ok = True
            box = [gs]
            for k, op in enumerate(history):
                ok = self.apply(box, m, d, names, op, rec, [si, history[: k + 1], "exact"])
                gs = box[0]
                if ok is not True:
                    break
                rec.transition()
            if ok is True:
                self.verify(gs, m, d, names, rec, [si, history, "exact"])
                rec.state(m.key())
                rec.trace()
            elif ok == "disabled":
                rec.count("histories skipped: operation on a missing file")
            try:
                gs.close()
            except Exception:
                pass

    def apply(self, box, m, d, names, op, rec, hist):
        gs = box[0]
        kind = op[0]
        try:
            if kind == "w":
                nm = names[op[1]]
                known = nm in m.mem
                gs.writeGlyph(nm, G.make_glyph(G.HISTORY_RECORDS[op[2]]), G.make_draw(G.HISTORY_RECORDS[op[2]]))
                fn = gs.contents.get(nm)
                if known:
                    if fn != m.mem[nm]:
                        rec.violation("glyphset:file-renamed-on-overwrite", "glyph %s moved from %s to %s" % (N.short(nm), m.mem[nm], fn), case=hist)
                    rec.witness("overwrite keeps file")
                else:
                    if any(f.lower() == fn.lower() for f in m.mem.values()):
                        rec.violation("glyphset:filename-not-unique:%s" % N.name_shape(nm),
                                      "new glyph %s got file %s which collides (ignoring case) with %r" % (N.short(nm), N.short(fn, 40), sorted(m.mem.values())), case=hist)
                    if fn in m.files and fn not in m.mem.values() and m.files[fn][0] == nm:
                        rec.witness("delete then rewrite")
                    m.mem[nm] = fn
                m.files[fn] = (nm, op[2])
            elif kind == "d":
                nm = names[op[1]]
                if nm not in m.mem or m.mem[nm] not in m.files:
                    return "disabled"
                if any(v == m.mem[nm] for k2, v in m.mem.items() if k2 != nm):
                    return "disabled"
                gs.deleteGlyph(nm)
                del m.files[m.mem[nm]]
                del m.mem[nm]
            elif kind == "c":
                gs.writeContents()
                m.committed = dict(m.mem)
            elif kind == "r":
                gs.close()
                gs = box[0] = GlyphSet(d)
                if m.committed == m.mem:
                    rec.witness("rebuild in sync")
                else:
                    rec.witness("rebuild out of sync")
                m.mem = dict(m.committed or {})
                m.opened_with_contents = m.committed is not None
            elif kind == "li":
                gs.writeLayerInfo(make_layerinfo(op[1]))
                if LAYERINFO[op[1]]:
                    m.layerinfo = op[1]
                else:
                    if m.layerinfo is not None:
                        rec.witness("layerinfo removed")
                    m.layerinfo = None
                    m.empty_write_shape = "opened-with-contents.plist" if m.opened_with_contents else "opened-without-contents.plist"
        except Exception as e:
            nm = names[op[1]] if kind in ("w", "d") else ""
            fn = gs.contents.get(nm) if kind == "w" else None
            if fn is not None and len(fn) > N.MAX_LEN:
                fkey = filename_fkey("ufoLib", "too-long", nm, fn, False, 5)
                msg = "writeGlyph(%s) chose a %d-character file name %s and failed with %r" % (N.short(nm), len(fn), N.short(fn, 40), e)
            else:
                fkey = "glyphset:exception:%s:%s" % (type(e).__name__, kind)
                msg = "operation %r failed with %r" % (op, e)
            rec.violation(fkey, msg, case=hist)
            return "failed"
        return True

    def verify(self, gs, m, d, names, rec, hist):
        # 1. the writer's view
        if dict(gs.contents) != m.mem:
            rec.violation("glyphset:contents-differ", "GlyphSet.contents %r, model %r" % (short_map(gs.contents), short_map(m.mem)), case=hist)
            return
        # 2. file names
        seen = {}
        for nm, fn in sorted(m.mem.items()):
            shape = N.name_shape(nm)
            for r in N.illegal_reasons(fn, "ufoLib", "", ".glif"):
                rec.violation(filename_fkey("ufoLib", r, nm, fn, fn[:-5][-15:].isdigit(), 5),
                              "glyph %s is stored as %s (%d chars): %s" % (N.short(nm), N.short(fn, 40), len(fn), r), case=hist)
            if not fn.endswith(".glif"):
                rec.violation("filename:affix-lost", fn, case=hist)
            low = fn.lower()
            if low in seen:
                rec.violation("glyphset:filename-not-unique:%s" % shape, "%s and %s share %s ignoring case" % (N.short(nm), N.short(seen[low]), N.short(fn, 40)), case=hist)
            seen[low] = nm
            body = fn[:-5]
            if body[-15:].isdigit() and len(body) > 15:
                rec.witness("clash resolved by counter")
            if len(fn) == 255 and len(nm) > 250:
                rec.witness("long name clipped")
            if shape.startswith("reserved-part") and not N.illegal_reasons(fn, "ufoLib", "", ".glif"):
                rec.witness("reserved name escaped")
        # 3. read-back of every name
        for nm, fn in sorted(m.mem.items()):
            rec.transition()
            if fn in m.files:
                wname, ri = m.files[fn]
                try:
                    obs = G.read_back(lambda g, p: gs.readGlyph(nm, g, p))
                except Exception as e:
                    rec.violation("glyphset:read-failed:%s" % type(e).__name__, "readGlyph(%s): %r" % (N.short(nm), e), case=hist)
                    continue
                dd = G.diff(obs, G.expected(G.HISTORY_RECORDS[ri], 2, name=wname))
                if dd:
                    rec.violation("glyphset:read-back-differs", "readGlyph(%s) from %s: %s" % (N.short(nm), N.short(fn, 40), dd), case=hist)
            else:
                try:
                    gs.readGlyph(nm, G.GlyphObj())
                    rec.violation("glyphset:read-of-missing-file", "readGlyph(%s) succeeded but %s is not on disk" % (N.short(nm), fn), case=hist)
                except GlifLibError:
                    pass
        absent = next((x for x in names if x not in m.mem), None)
        if absent is not None:
            try:
                gs.readGlyph(absent, G.GlyphObj())
                rec.violation("glyphset:read-absent", "readGlyph(%s) did not raise" % N.short(absent), case=hist)
            except KeyError:
                pass
            if absent in gs or len(gs) != len(m.mem) or sorted(gs.keys()) != sorted(m.mem):
                rec.violation("glyphset:dict-interface", "keys/len/in disagree with the model", case=hist)
        # 4. directory listing
        listing = sorted(os.listdir(d))
        exp_listing = set(m.files)
        if m.committed is not None:
            exp_listing.add("contents.plist")
        if m.layerinfo is not None:
            exp_listing.add("layerinfo.plist")
        if listing != sorted(exp_listing):
            extra = sorted(set(listing) - exp_listing)
            missing = sorted(exp_listing - set(listing))
            if extra == ["layerinfo.plist"] and not missing:
                fkey = "glyphset:layerinfo-not-removed:" + m.empty_write_shape
            else:
                fkey = "glyphset:directory-differs"
            rec.violation(fkey, "directory has extra %r, lacks %r" % ([N.short(x, 30) for x in extra], [N.short(x, 30) for x in missing]), case=hist)
        # 5. contents.plist through an independent reader
        if m.committed is not None:
            with open(os.path.join(d, "contents.plist"), "rb") as f:
                disk = std_plistlib.load(f)
            if disk != m.committed:
                rec.violation("glyphset:contents.plist-differs", "contents.plist %r, model %r" % (short_map(disk), short_map(m.committed)), case=hist)
            if m.clean():
                glifs = sorted(x for x in listing if x.endswith(".glif"))
                if sorted(disk.values()) != glifs:
                    rec.violation("glyphset:contents-vs-listing", "contents.plist lists %d files, directory has %d" % (len(disk), len(glifs)), case=hist)
                # 6. a fresh reader sees the same data
                rec.witness("fresh reader compared")
                gs2 = GlyphSet(d, expectContentsFile=True)
                try:
                    if dict(gs2.contents) != m.mem:
                        rec.violation("glyphset:fresh-reader-contents", "%r" % short_map(gs2.contents), case=hist)
                    for nm, fn in sorted(m.mem.items()):
                        rec.transition()
                        obs = G.read_back(lambda g, p: gs2.readGlyph(nm, g, p))
                        dd = G.diff(obs, G.expected(G.HISTORY_RECORDS[m.files[fn][1]], 2, name=nm))
                        if dd:
                            rec.violation("glyphset:fresh-reader-differs", "%s: %s" % (N.short(nm), dd), case=hist)
                    if sorted(gs2.getUnicodes().items()) != sorted((nm, G.dedup(G.HISTORY_RECORDS[m.files[fn][1]].get("unicodes", []))) for nm, fn in m.mem.items()):
                        rec.violation("glyphset:getUnicodes", "%r" % gs2.getUnicodes(), case=hist)
                finally:
                    gs2.close()
        # 7. each file names the glyph that was written into it (stdlib XML parser)
        for fn, (wname, ri) in sorted(m.files.items()):
            root = StdET.parse(os.path.join(d, fn)).getroot()
            if root.tag != "glyph" or root.get("name") != wname or root.get("format") != "2":
                rec.violation("glyphset:glif-header", "%s holds <%s name=%s format=%s>" % (N.short(fn, 40), root.tag, N.short(root.get("name") or ""), root.get("format")), case=hist)
        # 8. layer info
        info = Info()
        try:
            gs.readLayerInfo(info)
        except Exception as e:
            rec.violation("glyphset:readLayerInfo:%s" % type(e).__name__, repr(e), case=hist)
            return
        exp_info = LAYERINFO[m.layerinfo] if m.layerinfo is not None else {}
        dd = G.vdiff(info.__dict__, exp_info, "layerinfo")
        if dd:
            if not exp_info:
                fkey = "glyphset:layerinfo-not-removed:" + m.empty_write_shape
            else:
                fkey = "glyphset:layerinfo-differs"
            rec.violation(fkey, "readLayerInfo: %s" % dd, case=hist)

    def bounds(self, tier, seed):
        return {"spaces": [{"names": len(n), "records": len(r), "depth": dpt} for n, r, dpt in self.space(tier)],
                "layerinfo_values": len(LAYERINFO)}


# =============================================================== E1c  UFOWriter layer histories
from fontTools.ufoLib import UFOReader, UFOWriter, UFOLibError  # noqa: E402

LAYER_LONG = "layerlong." * 24 + "abcdefgh"  # 248 characters: exactly fills 255 after "glyphs."
LAYER_NAMES = ["public.default", "a", "A", "a_", "con", "a/B", "a:B", "a*B", LAYER_LONG, LAYER_LONG + "x", "İ", "b" * 244 + ".con"]
LAYER_CORE = ["public.default", "A", "a_", "a/B", "a:B"]


class LayerModel:
    def __init__(self):
        self.layers = {}  # ordered: layer name -> directory token
        self.marker = {}  # directory token -> advance width written into glyph "a"
        self.committed = None  # layercontents.plist as last written
        self.next_marker = 100

    def default_name(self):
        return next((n for n, d in self.layers.items() if d == "glyphs"), None)

    def in_sync(self):
        """layercontents.plist lists exactly the current layers (in whatever order was asked for)."""
        return self.committed is not None and sorted(map(tuple, self.committed)) == sorted(self.layers.items())

    def valid(self):
        dn = self.default_name()
        return dn is not None and ("public.default" not in self.layers or dn == "public.default")

    def key(self):
        return [list(self.layers.items()), self.committed]


def layer_ops(names):
    ops = []
    for i in range(len(names)):
        for dflt in (False, True):
            ops.append(["g", i, dflt])
    for i in range(len(names)):
        for j in range(len(names)):
            for dflt in (False, True):
                ops.append(["mv", i, j, dflt])
    for i in range(len(names)):
        ops.append(["rm", i])
    ops.append(["wl"])
    ops.append(["wo"])
    ops.append(["ro"])
    return ops


class LayerHistories(FSUnit):
    name = "ufowriter-layer-histories"
    rule = ("all operation histories on a real UFOWriter (format 3) in a fresh directory: getGlyphSet(layer, defaultLayer in {F,T}) + write one marked glyph, "
            "renameGlyphSet(old, new, defaultLayer), deleteGlyphSet(layer), writeLayerContents() / writeLayerContents(reversed order), reopen (new UFOWriter on the path, only when layercontents.plist is in sync and valid); "
            "layer names from a 12-name hostile alphabet (public.default, case variants, reserved, '/' vs ':' clash, 248/249-char names, U+0130, reserved part at the clip point); "
            "quick: depth 2 over all names + depth 3 over 5 core names, thorough: depth 3 over all names + depth 4 over 3 names; an operation may be refused with UFOLibError "
            "(then nothing may change); after every history: layerContents equals the model, no two layers share a directory, directory names are 'glyphs' or legal 'glyphs.*' <=255 chars "
            "distinct ignoring case, the UFO directory listing equals the model, every layer directory holds its own marked glyph, layercontents.plist (stdlib reader) equals the last commit, "
            "and a UFOReader returns the same layer order, default layer and glyphs; distinct = each history")
    required_witnesses = ("layer clash resolved by counter", "long layer name clipped", "default switched by rename", "operation refused", "reader compared", "reopened", "explicit layer order")
    chunk = 4

    def space(self, tier):
        sp = [(LAYER_NAMES, 2), (LAYER_CORE, 3)]
        if tier == "thorough":
            sp += [(LAYER_NAMES, 3), (LAYER_CORE[:3], 4)]
        return sp

    @staticmethod
    def a_enabled(op, layers):
        if op[0] == "mv":
            return op[1] in layers
        if op[0] == "rm":
            return op[1] in layers
        return True

    @staticmethod
    def a_apply(op, layers):
        # name-level over-approximation (refusals are decided at run time)
        if op[0] == "g":
            return layers | {op[1]}
        if op[0] == "mv":
            return (layers - {op[1]}) | {op[2]} | ({op[1]} if False else set())
        if op[0] == "rm":
            return layers - {op[1]}
        return layers

    def cases(self, tier, seed):
        for si, (names, depth) in enumerate(self.space(tier)):
            ops = layer_ops(names)

            def rec_enum(prefix, may):
                yield [si, prefix]
                if len(prefix) >= depth - 1:
                    return
                for op in ops:
                    if op[0] in ("mv", "rm") and op[1] not in may:
                        continue
                    if op[0] == "g":
                        m2 = may | {op[1]}
                    elif op[0] == "mv":
                        m2 = may | {op[2]}  # a refused rename keeps the old name
                    else:
                        m2 = may
                    yield from rec_enum(prefix + [op], m2)

            yield from rec_enum([], frozenset())

    def check(self, case, rec):
        si, prefix = case[:2]
        names, depth = self.space("thorough")[si]
        if len(case) == 3:  # replay form: exactly this history
            self.run_history(names, prefix, rec, si)
            return
        for op in layer_ops(names):
            self.run_history(names, prefix + [op], rec, si)

    def run_history(self, names, history, rec, si):
        self._si = si
        with TempDir() as d:
            path = os.path.join(d, "F.ufo")
            w = UFOWriter(path)
            m = LayerModel()
            box = [w]
            status = True
            for k, op in enumerate(history):
                status = self.apply(box, m, path, names, op, rec, [si, history[: k + 1], "exact"])
                if status is not True:
                    break
                rec.transition()
            if status != "disabled":
                rec.evals(1)
            if status is True:
                rec.nontrivial(history)
                self.verify(box[0], m, path, rec, [si, history, "exact"])
                rec.state(m.key())
                rec.trace()
            box[0].close()

    def apply(self, box, m, path, names, op, rec, hist):
        w = box[0]
        kind = op[0]
        before = (dict(w.layerContents), sorted(os.listdir(path)))
        try:
            if kind == "g":
                nm = names[op[1]]
                gs = w.getGlyphSet(nm, defaultLayer=op[2])
                dtok = w.layerContents.get(nm)
                marker = m.next_marker
                m.next_marker += 1
                g = G.GlyphObj()
                g.width = marker
                gs.writeGlyph("a", g)
                gs.writeContents()
                gs.close()
                m.layers[nm] = dtok
                m.marker[dtok] = marker
            elif kind == "mv":
                old, new = names[op[1]], names[op[2]]
                if old not in m.layers:
                    return "disabled"
                was_default = m.layers[old] == "glyphs"
                w.renameGlyphSet(old, new, defaultLayer=op[3])
                dtok = w.layerContents.get(new)
                olddir = m.layers[old]
                if dtok != olddir or old != new:
                    # a renamed / re-homed layer is registered anew: it goes to the end of the default order
                    del m.layers[old]
                    m.layers[new] = dtok
                if dtok != olddir:
                    m.marker[dtok] = m.marker.pop(olddir)
                    if (dtok == "glyphs") != was_default:
                        rec.witness("default switched by rename")
            elif kind == "rm":
                nm = names[op[1]]
                if nm not in m.layers:
                    return "disabled"
                w.deleteGlyphSet(nm)
                m.marker.pop(m.layers.pop(nm), None)
            elif kind == "wl":
                w.writeLayerContents()
                m.committed = [[n, dd] for n, dd in m.layers.items()]
            elif kind == "wo":
                # explicit layer order: the reverse of the current one
                order = list(m.layers)[::-1]
                w.writeLayerContents(order)
                m.committed = [[n, m.layers[n]] for n in order]  # only this file: the writer's default order stays
                if len(order) > 1:
                    rec.witness("explicit layer order")
            elif kind == "ro":
                if m.committed is None or not m.in_sync() or not m.valid():
                    return "disabled"
                w.close()
                w = box[0] = UFOWriter(path)
                m.layers = {n: dd for n, dd in m.committed}  # a new writer takes the order of the file
                rec.witness("reopened")
        except UFOLibError as e:
            after = (dict(w.layerContents), sorted(os.listdir(path)))
            if after != before:
                rec.violation("layers:refused-operation-changed-state:%s" % kind, "%r refused (%s) but layerContents/listing changed: %r -> %r" % (op, e, before, after), case=hist)
                return "failed"
            rec.witness("operation refused")
            return True
        except Exception as e:
            nm = names[op[2]] if kind == "mv" else names[op[1]] if kind in ("g", "rm") else ""
            dtok = w.layerContents.get(nm)
            import errno

            if (dtok is not None and len(dtok) > N.MAX_LEN) or (isinstance(e, OSError) and e.errno == errno.ENAMETOOLONG):
                # the directory name chosen for the layer does not fit (the OS refuses > 255 bytes)
                fkey = filename_fkey("ufoLib", "too-long", nm, dtok or "", False, 7)
            elif kind == "mv" and op[1] == op[2] and op[3] and m.default_name() not in (None, names[op[1]]):
                fkey = "layers:rename-to-default-while-another-default-exists:%s" % type(e).__name__
            else:
                fkey = "layers:exception:%s:%s" % (type(e).__name__, kind)
            rec.violation(fkey, "operation %r failed with %r (directory %s)" % ([kind] + [N.short(names[i]) if isinstance(i, int) and not isinstance(i, bool) else i for i in op[1:]], e, N.short(dtok or "", 40)), case=hist)
            return "failed"
        return True

    def verify(self, w, m, path, rec, hist):
        if dict(w.layerContents) != m.layers:
            rec.violation("layers:layerContents-differ", "%r vs model %r" % (short_map(w.layerContents), short_map(m.layers)), case=hist)
            return
        seen = {}
        for nm, dtok in m.layers.items():
            if dtok == "glyphs":
                pass
            elif not dtok.startswith("glyphs."):
                rec.violation("layers:directory-prefix", "%s -> %s" % (N.short(nm), N.short(dtok, 40)), case=hist)
            for r in N.illegal_reasons(dtok, "ufoLib", "glyphs.", ""):
                counter = dtok[-15:].isdigit() and len(dtok) > 22
                rec.violation(filename_fkey("ufoLib", r, nm, dtok, counter, 7), "layer %s is stored in %s (%d chars): %s" % (N.short(nm), N.short(dtok, 40), len(dtok), r), case=hist)
            low = dtok.lower()
            if low in seen:
                same = dtok == m.layers[seen[low]]
                rec.violation("layers:directory-shared" if same else "layers:directory-not-unique-ignoring-case",
                              "layers %s and %s use %s" % (N.short(seen[low]), N.short(nm), N.short(dtok, 40)), case=hist)
            seen[low] = nm
            if dtok[-15:].isdigit() and len(dtok) > 22:
                rec.witness("layer clash resolved by counter")
            if len(dtok) == 255 and len(nm) > 248:
                rec.witness("long layer name clipped")
        listing = sorted(os.listdir(path))
        exp = {"metainfo.plist"} | set(m.layers.values())
        if m.committed is not None:
            exp.add("layercontents.plist")
        if listing != sorted(exp):
            rec.violation("layers:directory-listing", "UFO holds %r, model %r" % ([N.short(x, 30) for x in listing], [N.short(x, 30) for x in sorted(exp)]), case=hist)
            return
        for nm, dtok in m.layers.items():
            rec.transition()
            try:
                root = StdET.parse(os.path.join(path, dtok, "a.glif")).getroot()
                width = root.find("advance").get("width")
            except Exception as e:
                rec.violation("layers:glyph-lost", "layer %s (%s): %r" % (N.short(nm), N.short(dtok, 40), e), case=hist)
                continue
            if width != str(m.marker[dtok]):
                rec.violation("layers:glyph-of-other-layer", "layer %s (%s) holds the glyph marked %s, expected %s" % (N.short(nm), N.short(dtok, 40), width, m.marker[dtok]), case=hist)
        if m.committed is not None:
            with open(os.path.join(path, "layercontents.plist"), "rb") as f:
                disk = std_plistlib.load(f)
            if disk != m.committed:
                rec.violation("layers:layercontents.plist-differs", "%r vs %r" % (disk, m.committed), case=hist)
            if m.in_sync() and m.valid():
                rec.witness("reader compared")
                r = UFOReader(path)
                try:
                    order = [n for n, dd in m.committed]
                    if r.getLayerNames() != order or r.getDefaultLayerName() != m.default_name():
                        rec.violation("layers:reader-names", "reader: %r default %r; model %r default %r" % (r.getLayerNames(), r.getDefaultLayerName(), order, m.default_name()), case=hist)
                    for nm, dtok in m.layers.items():
                        rec.transition()
                        gs = r.getGlyphSet(nm)
                        g = G.GlyphObj()
                        gs.readGlyph("a", g)
                        if getattr(g, "width", None) != m.marker[dtok]:
                            rec.violation("layers:reader-glyph", "layer %s: width %r, expected %r" % (N.short(nm), getattr(g, "width", None), m.marker[dtok]), case=hist)
                    g = G.GlyphObj()
                    r.getGlyphSet().readGlyph("a", g)
                    if g.width != m.marker["glyphs"]:
                        rec.violation("layers:reader-default-glyph", "default glyph set returns width %r" % g.width, case=hist)
                except UFOLibError as e:
                    rec.violation("layers:reader-refuses", "UFOReader on a committed valid layer set: %s" % e, case=hist)
                finally:
                    r.close()

    def bounds(self, tier, seed):
        return {"spaces": [{"names": len(n), "depth": dpt} for n, dpt in self.space(tier)]}


# =============================================================== E2a  designspace documents
import re  # noqa: E402
from fractions import Fraction  # noqa: E402

from fontTools.designspaceLib import DesignSpaceDocument, DesignSpaceDocumentError  # noqa: E402
from oracles import c19_dsdoc as D  # noqa: E402


class DesignspaceDocs(Unit):
    name = "designspace-documents"
    rule = ("designspace documents = a base document (2 mapped/plain axes, 2 sources, 1 instance, 1 rule) changed by every set of <=2 (thorough <=3) of %d deviations "
            "(axis kinds/maps/labels/ordering/hidden, axis mappings, location labels, 0..2 rules with 0..2 condition sets, 1..3 sources with every flag, 0..2 instances with every "
            "name/location form, 0..2 variable fonts with every axis-subset form, nested lib) x declared format {4.1, 5.0}; fromstring(tostring(doc)) compared field by field with "
            "the expectation computed from the spec (numbers by value, format 4 completes locations, version-5-only data forces format 5); second generation text is a fixed point; "
            "distinct = each (format, deviation set)" % len(D.DEVIATIONS))
    required_witnesses = ("format 4 written", "format 5 written", "format 5.1 written", "format raised by content", "discrete axis", "anisotropic location",
                          "location completed (format 4)", "variable font", "nested lib", "localised names", "axis labels")
    chunk = 40

    def cases(self, tier, seed):
        n = len(D.DEVIATIONS)
        k = 2 if tier == "quick" else 3
        for fmt in ("4.1", "5.0"):
            for size in range(0, k + 1):
                for idxs in itertools.combinations(range(n), size):
                    yield [fmt, list(idxs)]

    def check(self, case, rec):
        fmt, idxs = case
        names = [D.DEVIATIONS[i][0] for i in idxs]
        suspects = [nm for nm in names if nm.startswith("suspect-")][-1:]  # they all replace the variable fonts: the last one is in effect
        spec = D.apply_deviations(fmt, idxs)
        exp = D.expected(spec)
        doc = D.build(spec)
        rec.nontrivial()
        try:
            text = doc.tostring()
        except Exception as e:
            rec.violation("designspace:write-error:%s:%s" % (type(e).__name__, "+".join(suspects) or "plain"), "tostring failed for %s %r: %r" % (fmt, names, e))
            return
        try:
            doc2 = DesignSpaceDocument.fromstring(text)
        except Exception as e:
            rec.violation("designspace:unreadable:%s:%s" % (type(e).__name__, "+".join(suspects) or "plain"),
                          "the document written for format %s with %r cannot be read back: %s: %s" % (fmt, names, type(e).__name__, e), observed=text.decode("utf-8", "replace"))
            return
        obs = D.extract(doc2)
        dd = D.vdiff(obs, exp)
        if dd:
            field = re.sub(r"\[\d+\]", "[]", dd.split(":")[0]).strip()
            rec.violation("designspace:differs:%s%s" % (field, (":" + "+".join(suspects)) if suspects else ""),
                          "format %s, deviations %r: read-back differs at %s" % (fmt, names, dd), observed=text.decode("utf-8", "replace"))
        eff = D.effective_format(spec)
        if doc2.formatTuple != eff:
            rec.violation("designspace:format", "written as %r, expected %r (declared %s)" % (doc2.formatTuple, eff, fmt))
        text2 = doc2.tostring()
        if text2 != text:
            rec.violation("designspace:second-generation-differs", "format %s, deviations %r: writing the read document gives different text" % (fmt, names),
                          observed=text2.decode("utf-8", "replace"), expected=text.decode("utf-8", "replace"))
        # witnesses from the spec / text
        rec.witness("format %s written" % ("4" if eff < (5, 0) else "5" if eff == (5, 0) else "5.1"))
        if eff > tuple(int(x) for x in fmt.split(".")):
            rec.witness("format raised by content")
        if any(a["kind"] == "discrete" for a in spec["axes"]):
            rec.witness("discrete axis")
        if b"yvalue=" in text:
            rec.witness("anisotropic location")
        if eff < (5, 0) and any(len(x["designLocation"]) < len(spec["axes"]) for x in spec["sources"] + spec["instances"]):
            rec.witness("location completed (format 4)")
        if spec["variableFonts"]:
            rec.witness("variable font")
        if b"<dict>" in text and b"<array>" in text:
            rec.witness("nested lib")
        if b"xml:lang" in text:
            rec.witness("localised names")
        if b"<labels" in text:
            rec.witness("axis labels")
        rec.outcome(text)

    def bounds(self, tier, seed):
        return {"deviations": len(D.DEVIATIONS), "deviation_bound": 2 if tier == "quick" else 3, "formats": ["4.1", "5.0"]}


# =============================================================== E3  axis maps
from fontTools.designspaceLib import AxisDescriptor, DiscreteAxisDescriptor  # noqa: E402


def monotone_maps():
    """Every map with 1..4 knots on the 5x5 lattice {0..4}^2, inputs strictly increasing,
    outputs strictly increasing / strictly decreasing / weakly increasing (flat segments)."""
    for k in range(1, 5):
        for ins in itertools.combinations(range(5), k):
            seen = set()
            for outs in itertools.combinations(range(5), k):
                yield "inc", list(zip(ins, outs))
                seen.add(outs)
                if k > 1:
                    yield "dec", list(zip(ins, outs[::-1]))
            for outs in itertools.combinations_with_replacement(range(5), k):
                if outs not in seen:
                    yield "flat", list(zip(ins, outs))


class AxisMaps(Unit):
    name = "axis-maps"
    rule = ("every monotone axis map with 1..4 knots on the 5x5 integer lattice (strictly increasing, strictly decreasing, weakly increasing with flat segments) x scale {1, 1/3 (non-dyadic floats)}: "
            "map_forward(v) equals the exact piecewise-linear value (Fractions, 1e-9) on the half-step lattice from -1 to 5; for strict maps map_backward(map_forward(v)) == v "
            "(increasing: whole lattice incl. the slope-1 continuation outside; decreasing: inside the knot range) and map_forward(map_backward(d)) == d; for flat maps forward(backward(d)) == d "
            "inside the range; DesignSpaceDocument.map_forward/map_backward on dict locations over two such axes incl. missing keys (default) and anisotropic tuples; discrete axes: every "
            "injective value map; distinct = each (map, scale)")
    required_witnesses = ("increasing", "decreasing", "flat segment", "outside range", "discrete", "document level")
    chunk = 40

    def cases(self, tier, seed):
        for kind, knots in monotone_maps():
            for scale in (1, 3):
                yield [kind, knots, scale]
        for perm in itertools.permutations(range(3)):
            yield ["discrete", [[i, p] for i, p in enumerate(perm)], 1]

    def check(self, case, rec):
        kind, knots, scale = case
        rec.nontrivial()
        if kind == "discrete":
            ax = DiscreteAxisDescriptor(tag="ITAL", name="d", values=[0, 1, 2], default=0, map=[(i, o * 10 + 5) for i, o in knots])
            for i, o in knots:
                if ax.map_forward(i) != o * 10 + 5 or ax.map_backward(o * 10 + 5) != i or ax.map_backward((o * 10 + 5, 99)) != i:
                    rec.violation("axismap:discrete", "map %r: forward(%r)=%r backward=%r" % (ax.map, i, ax.map_forward(i), ax.map_backward(o * 10 + 5)))
            if ax.map_forward(7) != 7 or ax.map_backward(7) != 7:
                rec.violation("axismap:discrete-unmapped", "unmapped value must be returned unchanged")
            rec.witness("discrete")
            return
        fk = [(Fraction(i, scale), Fraction(o, scale)) for i, o in knots]
        m = [(float(a), float(b)) for a, b in fk]
        ax = AxisDescriptor(tag="wght", name="w", minimum=m[0][0], default=m[0][0], maximum=m[-1][0], map=list(m))
        lo, hi = fk[0][0], fk[-1][0]
        tol = 1e-9
        rec.witness({"inc": "increasing", "dec": "decreasing", "flat": "flat segment"}[kind])
        for h in range(-2, 11):
            v = Fraction(h, 2 * scale)
            inside = lo <= v <= hi
            if not inside:
                rec.witness("outside range")
            f = ax.map_forward(float(v))
            ef = D.pl_map(fk, v)
            if abs(f - float(ef)) > tol:
                rec.violation("axismap:forward:%s" % kind, "map %r forward(%r) = %r, exact %s" % (m, float(v), f, ef))
                continue
            if kind == "inc" or (kind == "dec" and inside):
                b = ax.map_backward(f)
                if abs(b - float(v)) > tol:
                    rec.violation("axismap:backward-forward:%s:%s" % (kind, "inside" if inside else "outside"), "map %r: backward(forward(%r)=%r) = %r" % (m, float(v), f, b))
                if abs(ax.map_backward((f, 12345.0)) - float(v)) > tol:
                    rec.violation("axismap:backward-anisotropic", "map %r: backward((%r, y))" % (m, f))
        # right inverse on the design side, inside the range of outputs
        outs = sorted(o for _, o in fk)
        for h in range(0, 9):
            d = Fraction(h, 2 * scale)
            if not outs[0] <= d <= outs[-1]:
                continue
            u = ax.map_backward(float(d))
            back = ax.map_forward(u)
            if abs(back - float(d)) > tol:
                rec.violation("axismap:forward-backward:%s" % kind, "map %r: forward(backward(%r)=%r) = %r" % (m, float(d), u, back))
        # document level
        doc = DesignSpaceDocument()
        doc.addAxis(ax)
        doc.addAxis(AxisDescriptor(tag="wdth", name="x", minimum=0, default=1, maximum=4, map=[(0.0, 10.0), (4.0, 50.0)]))
        rec.witness("document level")
        for h in (0, 3, 8):
            v = Fraction(h, 2 * scale)
            if not lo <= v <= hi:
                continue
            loc = doc.map_forward({"w": float(v)})
            exp = {"w": float(D.pl_map(fk, v)), "x": 20.0}
            if set(loc) != {"w", "x"} or abs(loc["w"] - exp["w"]) > tol or abs(loc["x"] - exp["x"]) > tol:
                rec.violation("axismap:document-forward", "map_forward({'w': %r}) = %r expected %r" % (float(v), loc, exp))
                continue
            if kind != "flat":
                back = doc.map_backward({"w": (loc["w"], 7.0), "x": loc["x"]})
                if abs(back["w"] - float(v)) > tol or abs(back["x"] - 1.0) > tol:
                    rec.violation("axismap:document-backward", "map_backward(%r) = %r expected w=%r x=1" % (loc, back, float(v)))
                back = doc.map_backward({"w": loc["w"]})
                if back.get("x") != 1:
                    rec.violation("axismap:document-backward-default", "missing axis must come back as its user default: %r" % back)


# =============================================================== E2b  GLIF records
from fontTools.ufoLib.glifLib import readGlyphFromString, writeGlyphToString  # noqa: E402

ABSENT = "__absent__"
FULL_IMAGE = {"fileName": "dir/é <&>.png", "xScale": 0.5, "xyScale": 0.25, "yxScale": -0.25, "yScale": 2, "xOffset": 10, "yOffset": -20.5, "color": "1,0.5,0,1"}
OPEN_CONTOUR = ["contour", None, [[0, 0, "move", False, None, None], [10, 0, "line", False, None, None], [20, 5, None, False, None, None],
                                   [30, 5, None, False, None, None], [40, 0, "curve", True, "nm<&>", None]]]
CLOSED_CONTOUR = ["contour", "cid", [[0, 0, "line", False, None, "pid1"], [0, 100.5, "line", True, None, None], [50, 150, None, False, None, None],
                                     [100, 100, "qcurve", True, None, "pid2"], [120, 50, None, False, None, None], [100, 20, None, False, None, None],
                                     [100, 0, "curve", False, "é", None]]]
GLIF_FIELDS = [
    ("width", [ABSENT, 0, 500, 500.5, -20, 1e-07, 1e22, 0.1]),
    ("height", [ABSENT, 0, 1000, -0.5]),
    ("unicodes", [ABSENT, [], [0x41], [0x41, 0x42, 0x41], [0, 0x10FFFF], [0x1F600]]),
    ("note", [ABSENT, "plain", "x<&>\"'y", "é\U0001d49c", "two\nlines", "  indented\n\n    blank line above  ", "tab\there"]),
    ("image", [ABSENT, {"fileName": "a.png"}, FULL_IMAGE, {"fileName": "b.png", "xScale": 1, "xyScale": 0, "yxScale": 0, "yScale": 1, "xOffset": 0, "yOffset": 0},
               {"fileName": "c.png", "xOffset": 0.5}]),
    ("guidelines", [ABSENT, [], [{"x": 10}], [{"y": -20.5}], [{"x": 1, "y": 2, "angle": 0}], [{"x": 1.5, "y": 2, "angle": 360}],
                    [{"x": 0, "name": "g<&>é", "color": "0,0,0,0", "identifier": "gid"}], [{"x": 10, "identifier": "g1"}, {"y": 10, "identifier": "g2"}]]),
    ("anchors", [ABSENT, [], [{"x": 1, "y": 2, "name": "top"}], [{"x": 1, "y": 2}], [{"x": 0, "y": 0, "name": "t<&>é", "color": "1,1,1,1", "identifier": "aid"}],
                 [{"x": 0.5, "y": -1e-07, "name": "f"}], [{"x": 1, "y": 1, "name": "dup"}, {"x": 2, "y": 2, "name": "dup"}]]),
    ("lib", [ABSENT, {}, {"k": 1}, D.NESTED_LIB, {"public.markColor": "1,0,0,1", "a.b": [{"c": [True, 0.5, "s"]}]}]),
    ("outline", [None, [], [OPEN_CONTOUR], [CLOSED_CONTOUR], [["contour", None, [[1, 1, None, False, None, None], [2, 2, None, False, None, None]]]],
                 [["component", "a", [1, 0, 0, 1, 0, 0], None], ["component", "b é", [0.5, 0.25, -0.25, 2, 10, -20.5], "cmp"]],
                 [["contour", None, []]], [["contour", None, [[5, 5, "move", False, "anchorlike", None]]]],
                 [OPEN_CONTOUR, CLOSED_CONTOUR, ["component", "c", [1, 0, 0, 1, 1e-07, 0], None]],
                 [["contour", None, [[0, 0, "move", False, None, None]]]]]),
]
GLIF_BASE = {"width": 500, "unicodes": [0x41], "note": "base", "image": {"fileName": "a.png"}, "guidelines": [{"x": 10}], "anchors": [{"x": 1, "y": 2, "name": "top"}],
             "lib": {"k": 1}, "outline": [OPEN_CONTOUR]}


def glif_expected(rec, fmt, name):
    """GLIF 1 stores anchors as named one-point 'move' contours, so such contours *are*
    anchors when read; unnamed anchors do not exist in GLIF 1."""
    exp = G.expected(rec, fmt, name)
    if fmt == 1:
        anchors, outline = [], []
        for el in exp["outline"]:
            if el[0] == "contour" and len(el[2]) == 1 and el[2][0][2] == "move" and el[2][0][4] is not None:
                anchors.append({"x": el[2][0][0], "y": el[2][0][1], "name": el[2][0][4]})
            else:
                outline.append(el)
        anchors += exp.get("anchors", [])
        exp["outline"] = outline
        if anchors:
            exp["anchors"] = anchors
        else:
            exp.pop("anchors", None)
    return exp


class GlifRecords(Unit):
    name = "glif-records"
    rule = ("glyph records = a base record with every choice of <=2 (thorough <=3) of the 9 fields {width, height, unicodes, note, image, guidelines, anchors, lib, outline} replaced by "
            "each value of its boundary alphabet (absent/zero/float/duplicates/XML specials/non-BMP/all point types/identifiers/transforms/empty containers) x GLIF format {1,2} x glyph name "
            "{a, 'é <&>\"'}: readGlyphFromString(writeGlyphToString(r)) equals r restricted to what the format stores (GLIF 1: no image/guidelines/identifiers, anchors as named move "
            "points); numbers by value; notes verbatim when single-line, modulo white space otherwise; distinct = each (format, name, record)")
    required_witnesses = ("format 1", "format 2", "anchors in GLIF 1 outline", "identifier kept", "float coordinate", "lib with data and date", "empty outline element", "unicode deduplicated")
    chunk = 150

    def cases(self, tier, seed):
        k = 2 if tier == "quick" else 3
        nf = len(GLIF_FIELDS)
        for fmt in (2, 1):
            for size in range(0, k + 1):
                for fields in itertools.combinations(range(nf), size):
                    for choice in itertools.product(*[range(len(GLIF_FIELDS[f][1])) for f in fields]):
                        yield [fmt, list(fields), list(choice)]

    def check(self, case, rec):
        fmt, fields, choice = case
        r = {k: v for k, v in GLIF_BASE.items()}
        for f, c in zip(fields, choice):
            key, alts = GLIF_FIELDS[f]
            v = alts[c]
            if v == ABSENT:
                r.pop(key, None)
            else:
                r[key] = v
        if "outline" not in r:
            r["outline"] = None
        if fmt == 1 and any("name" not in a for a in r.get("anchors") or []):
            return  # GLIF 1 has no unnamed anchors
        rec.nontrivial()
        for name in ("a", "é <&>\""):
            rec.evals(1)
            try:
                text = writeGlyphToString(name, G.make_glyph(r), G.make_draw(r), formatVersion=fmt)
            except Exception as e:
                rec.violation("glif%d:write-error:%s" % (fmt, type(e).__name__), "writeGlyphToString(%r) failed: %r" % (r, e))
                return
            try:
                obs = G.read_back(lambda g, p: readGlyphFromString(text, g, p))
            except Exception as e:
                has_ids = any((el[0] == "contour" and (el[1] is not None or any(pt[5] is not None for pt in el[2]))) or (el[0] == "component" and el[3] is not None)
                              for el in r.get("outline") or [])
                shape = ":outline-identifiers" if (fmt == 1 and has_ids) else ""
                rec.violation("glif%d:read-error:%s%s" % (fmt, type(e).__name__, shape), "cannot read back %r: %r" % (r, e), observed=text)
                return
            exp = glif_expected(r, fmt, name)
            dd = G.diff(obs, exp)
            if dd:
                field = re.split(r"[ .:\[]", dd.replace("unexpected attribute ", "").replace("attribute ", ""))[0]
                shape = ""
                if field == "anchors" and fmt == 1 and r.get("outline") is None:
                    shape = ":no-outline"
                rec.violation("glif%d:differs:%s%s" % (fmt, field, shape), "format %d glyph %r record %r: %s" % (fmt, name, r, dd), observed=text)
        rec.witness("format %d" % fmt)
        if fmt == 1 and r.get("anchors") and r.get("outline") is not None:
            rec.witness("anchors in GLIF 1 outline")
        if fmt == 2 and "identifier=" in text:
            rec.witness("identifier kept")
        if re.search(r'[xy]="-?\d+\.\d+"', text):
            rec.witness("float coordinate")
        if "<data>" in text and "<date>" in text:
            rec.witness("lib with data and date")
        if r.get("outline") == []:
            rec.witness("empty outline element")
        if r.get("unicodes") and len(set(r["unicodes"])) < len(r["unicodes"]):
            rec.witness("unicode deduplicated")

    def bounds(self, tier, seed):
        return {"fields": {k: len(v) for k, v in GLIF_FIELDS}, "deviation_bound": 2 if tier == "quick" else 3}


# =============================================================== E2c  plist value trees
import datetime  # noqa: E402
from fontTools.misc import plistlib as ft_plistlib  # noqa: E402
from fontTools.misc import etree as ft_etree  # noqa: E402

PL_ATOMS = [True, False, 0, -1, 2 ** 63 - 1, 2 ** 64 - 1, -(2 ** 63), 0.5, 1e-07, 0.1 + 0.2, -1e22,
            datetime.datetime(2020, 1, 2, 3, 4, 5), datetime.datetime(1, 1, 1), datetime.datetime(9999, 12, 31, 23, 59, 59),
            b"", b"\x00\xff", bytes(range(256)), "", "x", "<&>\"']]>", " lead and trail ", "line\nbreak\ttab", "é\U0001d49c", "\r\n"]
PL_KEYS = ["k", "", "é<&> k", "z"]
PL_SMALL = [0, True, 0.5, "x", b"\x00\xff", datetime.datetime(2020, 1, 2, 3, 4, 5)]


def pl_level1():
    out = [[], {}]
    out += [[a] for a in PL_ATOMS]
    out += [{k: a} for a in PL_ATOMS for k in PL_KEYS[:2]]
    out += [[a, b] for a in PL_SMALL for b in PL_SMALL]
    out += [{"k": a, "z": b} for a in PL_SMALL for b in PL_SMALL]
    out += [{k: 1 for k in PL_KEYS}]
    return out


def pl_wrap(items):
    for c in items:
        yield [c]
        yield {"k": c}
        yield [0, c, "x"]
        yield {"": c, "z": []}


def strict_equal(a, b):
    """Equality that keeps bool / int / float / str / bytes apart."""
    if type(a) is not type(b):
        return False
    if isinstance(a, dict):
        return a.keys() == b.keys() and all(strict_equal(a[k], b[k]) for k in a)
    if isinstance(a, list):
        return len(a) == len(b) and all(strict_equal(x, y) for x, y in zip(a, b))
    return a == b


class PlistTrees(Unit):
    name = "plist-trees"
    rule = ("plist value trees of depth <=3: 24 atoms (booleans, 0, -1, 2^63-1, 2^64-1, -2^63, floats incl. 1e-7 and 0.1+0.2, dates year 1..9999, data b''/binary/256 bytes, strings with "
            "XML specials, white space, CR LF, non-BMP), lists/dicts of <=2 atoms over keys {'k','','é<&> k','z'}, wrapped in 4 container shapes per further level; "
            "loads(dumps(v)) == v and fromtree(totree(v)) == v with exact types, for pretty_print in {T,F}, sort_keys in {T,F}; the text is also read by the stdlib plistlib (and the "
            "stdlib's text by fontTools) with the same result; out-of-range integers raise OverflowError; distinct = each tree")
    required_witnesses = ("depth 3", "uint64", "data wrapped over lines", "empty containers", "second reader agreed")
    chunk = 3

    def cases(self, tier, seed):
        yield ["atoms"]
        l1 = pl_level1()
        for i in range(0, len(l1), 8):
            yield ["l1", i]
        l2 = list(pl_wrap(l1))
        for i in range(0, len(l2), 8):
            yield ["l2", i]
        if tier == "thorough":
            n3 = 4 * len(l2)
            for i in range(0, n3, 32):
                yield ["l3", i]
        else:
            # quick: depth 3 over the level-2 trees built from the small atom set only
            yield ["l3small"]

    def trees(self, case):
        kind = case[0]
        if kind == "atoms":
            return list(PL_ATOMS), 0
        l1 = pl_level1()
        if kind == "l1":
            return l1[case[1]: case[1] + 8], 1
        l2 = list(pl_wrap(l1))
        if kind == "l2":
            return l2[case[1]: case[1] + 8], 2
        if kind == "l3":
            l3 = itertools.islice(pl_wrap(l2), case[1], case[1] + 32)
            return list(l3), 3
        small = [c for c in l1 if len(c) <= 1][:60]
        return list(pl_wrap(pl_wrap(small))), 3

    def check(self, case, rec):
        trees, depth = self.trees(case)
        if case[0] == "atoms":
            for bad in (2 ** 64, -(2 ** 63) - 1):
                try:
                    ft_plistlib.dumps({"k": bad})
                    rec.violation("plist:overflow-accepted", "dumps(%d) did not raise" % bad)
                except OverflowError:
                    pass
        for v in trees:
            rec.nontrivial_n(1)
            self.one(v, rec, depth)
        rec.evals(max(0, len(trees) - 1))

    def one(self, v, rec, depth):
        if depth == 3:
            rec.witness("depth 3")
        for pretty in (True, False):
            for sort_keys in (True, False):
                try:
                    data = ft_plistlib.dumps(v, pretty_print=pretty, sort_keys=sort_keys)
                    back = ft_plistlib.loads(data)
                except Exception as e:
                    rec.violation("plist:dumps-loads:%s" % type(e).__name__, "value %r pretty=%s: %r" % (v, pretty, e))
                    return
                if not strict_equal(back, v):
                    rec.violation("plist:dumps-loads:%s" % leaf_class(v, back), "pretty=%s sort=%s: %r came back as %r" % (pretty, sort_keys, v, back), observed=data)
                    return
            # second opinion: the stdlib reads the same text
            try:
                other = std_plistlib.loads(data)
                if not strict_equal(other, v):
                    rec.violation("plist:stdlib-reads-differently:%s" % leaf_class(v, other), "%r read by the stdlib as %r" % (v, other), observed=data)
                else:
                    rec.witness("second reader agreed")
            except Exception as e:
                rec.violation("plist:stdlib-cannot-read:%s" % type(e).__name__, "%r: %r" % (v, e), observed=data)
            if b"18446744073709551615" in data:
                rec.witness("uint64")
            if pretty and b"<data>\n" in data and data.count(b"\n") > 12:
                rec.witness("data wrapped over lines")
            if b"<dict/>" in data or b"<array/>" in data or b"<dict></dict>" in data:
                rec.witness("empty containers")
        try:
            # (the stdlib writer itself folds CR into LF, so trees with CR are not comparable)
            std = std_plistlib.dumps(v, fmt=std_plistlib.FMT_XML)
            back = ft_plistlib.loads(std)
            if "\\r" not in repr(v) and not strict_equal(back, v):
                rec.violation("plist:reads-stdlib-text-differently:%s" % leaf_class(v, back), "%r written by the stdlib read as %r" % (v, back), observed=std)
        except Exception as e:
            rec.violation("plist:cannot-read-stdlib-text:%s" % type(e).__name__, "%r: %r" % (v, e))
        for indent in (0, 2):
            tree = ft_plistlib.totree(v, indent_level=indent)
            back = ft_plistlib.fromtree(tree)
            if not strict_equal(back, v):
                rec.violation("plist:totree-fromtree:%s" % leaf_class(v, back), "%r came back as %r" % (v, back))
            # through text, as GLIF and designspace libs do
            text = ft_etree.tostring(tree, pretty_print=True)
            back = ft_plistlib.fromtree(ft_etree.fromstring(text))
            if not strict_equal(back, v):
                rec.violation("plist:totree-text-fromtree:%s" % leaf_class(v, back), "%r came back as %r" % (v, back), observed=text)


def leaf_class(a, b):
    """Type name of the first differing leaf (stable key)."""
    if type(a) is not type(b):
        return "%s->%s" % (type(a).__name__, type(b).__name__)
    if isinstance(a, dict):
        if a.keys() != b.keys():
            return "dict-keys"
        for k in a:
            if not strict_equal(a[k], b[k]):
                return leaf_class(a[k], b[k])
    if isinstance(a, list):
        if len(a) != len(b):
            return "list-length"
        for x, y in zip(a, b):
            if not strict_equal(x, y):
                return leaf_class(x, y)
    return type(a).__name__


# =============================================================== E2d  fontinfo / kerning / groups / lib / features on disk
from fontTools.ufoLib import fontInfoAttributesVersion3ValueData as _INFO3  # noqa: E402  (attribute list + declared types: alphabet only)
from fontTools.ufoLib.kerning import lookupKerningValue  # noqa: E402
from oracles import c19_ufodata as U  # noqa: E402


def canon(v):
    """tuples -> lists, so that strict comparison ignores the sequence type only."""
    if isinstance(v, dict):
        return {k: canon(x) for k, x in v.items()}
    if isinstance(v, (list, tuple)):
        return [canon(x) for x in v]
    return v


def info_obj(d):
    o = Info()
    for k, v in d.items():
        setattr(o, k, G.lib_value(v))
    return o


UFO_WHAT = {
    "kerning": (U.KERNINGS, lambda w, v: w.writeKerning(U.kerning_value(v)), lambda r: r.readKerning(), U.kerning_value, "kerning.plist"),
    "groups": (U.GROUPS, lambda w, v: w.writeGroups(v), lambda r: r.readGroups(), lambda v: v, "groups.plist"),
    "lib": (U.LIBS, lambda w, v: w.writeLib(G.lib_value(v)), lambda r: r.readLib(), G.lib_value, "lib.plist"),
    # features.fea is a text file: line ends are not data
    "features": (U.FEATURES, lambda w, v: w.writeFeatures(v), lambda r: r.readFeatures(), lambda v: v.replace("\r\n", "\n"), "features.fea"),
    "info": ([{}, {"familyName": "A", "styleName": "B", "unitsPerEm": 1000}, {"familyName": "C"}, {"openTypeOS2Panose": [0] * 10, "guidelines": [{"x": 1}]}],
             lambda w, v: w.writeInfo(info_obj(v)), lambda r: read_info(r), lambda v: v, "fontinfo.plist"),
}


def read_info(reader):
    o = Info()
    reader.readInfo(o)
    return dict(o.__dict__)


class UfoData(FSUnit):
    name = "ufo-info-kerning-groups-lib"
    rule = ("UFO 3 packages in a fresh directory through UFOWriter -> UFOReader: every fontinfo attribute of the UFO 3 list x its boundary alphabet (strings with XML specials/newline/empty, "
            "ints 0/+-1/2^31, floats, booleans, every documented option list / record structure), 5 kerning dicts, 4 group dicts, 3 libs (nested, data, date, uint64), 3 feature texts; "
            "single writes, all values at once, and every ordered pair (v1 then v2, v2 possibly empty) written with the same writer or a new writer on the same path: what the reader "
            "returns equals the last value written, with exact types; the stdlib plist reader sees the same file; distinct = each case")
    required_witnesses = ("info attribute read back", "float info value", "record-list info value", "kerning read back", "groups read back", "lib read back", "features read back",
                          "overwritten by empty value", "second writer", "whole font at once")
    chunk = 12

    def cases(self, tier, seed):
        for attr in sorted(_INFO3):
            vals = U.values_for(attr, _INFO3[attr]["type"])
            for i in range(len(vals)):
                yield ["info", attr, i]
        for what in sorted(UFO_WHAT):
            n = len(UFO_WHAT[what][0])
            for i in range(n):
                yield ["single", what, i]
            for i in range(1, n):
                for j in range(n):
                    for same in (True, False):
                        yield ["pair", what, i, j, same]
        yield ["all"]

    def check(self, case, rec):
        rec.nontrivial()
        with TempDir() as d:
            path = os.path.join(d, "F.ufo")
            getattr(self, "case_" + case[0])(case, path, rec)

    def case_info(self, case, path, rec):
        _, attr, i = case
        v = G.lib_value(U.values_for(attr, _INFO3[attr]["type"])[i])
        w = UFOWriter(path)
        try:
            w.writeInfo(info_obj({attr: v}))
        except UFOLibError as e:
            rec.violation("ufoinfo:valid-value-rejected:%s" % attr, "writeInfo(%s=%r): %s" % (attr, v, e))
            return
        finally:
            w.close()
        r = UFOReader(path)
        try:
            got = read_info(r)
        except UFOLibError as e:
            rec.violation("ufoinfo:written-value-unreadable:%s" % attr, "readInfo after writeInfo(%s=%r): %s" % (attr, v, e))
            return
        finally:
            r.close()
        if not strict_equal(canon(got), {attr: canon(v)}):
            rec.violation("ufoinfo:differs:%s" % attr, "wrote %s=%r, read %r" % (attr, v, got))
        with open(os.path.join(path, "fontinfo.plist"), "rb") as f:
            disk = std_plistlib.load(f)
        if not strict_equal(disk, {attr: canon(v)}):
            rec.violation("ufoinfo:file-differs:%s" % attr, "fontinfo.plist holds %r" % disk)
        rec.witness("info attribute read back")
        if isinstance(v, float):
            rec.witness("float info value")
        if isinstance(v, list) and v and isinstance(v[0], dict):
            rec.witness("record-list info value")

    def case_single(self, case, path, rec):
        _, what, i = case
        self.sequence(what, [i], [True], path, rec)

    def case_pair(self, case, path, rec):
        _, what, i, j, same = case
        self.sequence(what, [i, j], [True, same], path, rec)

    def sequence(self, what, idxs, same_writer, path, rec):
        vals, write, read, conv, fname = UFO_WHAT[what]
        w = None
        for k, i in enumerate(idxs):
            if w is None or not same_writer[k]:
                if w is not None:
                    w.close()
                    rec.witness("second writer")
                w = UFOWriter(path)
                if k == 0:
                    # a complete UFO 3 package needs the default layer and layercontents.plist
                    gs = w.getGlyphSet()
                    gs.writeContents()
                    gs.close()
                    w.writeLayerContents()
            try:
                write(w, vals[i])
            except UFOLibError as e:
                rec.violation("ufo%s:valid-value-rejected" % what, "%r: %s" % (vals[i], e))
                w.close()
                return
        w.close()
        last = vals[idxs[-1]]
        exp = canon(conv(last))
        r = UFOReader(path)
        try:
            got = read(r)
        except UFOLibError as e:
            rec.violation("ufo%s:unreadable" % what, "after writing %r: %s" % ([vals[i] for i in idxs], e))
            return
        finally:
            r.close()
        shape = ""
        if len(idxs) == 2:
            shape = ":after-overwrite-by-%s:%s-writer" % ("empty" if not last else "value", "same" if same_writer[1] else "new")
            if not last:
                rec.witness("overwritten by empty value")
        ok = strict_equal(canon(got), exp) if what != "kerning" else (got == conv(last) and all(type(got[k]) is type(v) for k, v in conv(last).items()))
        if not ok:
            rec.violation("ufo%s:differs%s" % (what, shape), "wrote %r, read %r" % ([vals[i] for i in idxs], got))
        exists = os.path.exists(os.path.join(path, fname))
        if not last and exists and ok:
            rec.violation("ufo%s:stale-file%s" % (what, shape), "%s still exists after writing an empty value" % fname)
        rec.witness("%s read back" % what if what != "info" else "info attribute read back")

    def case_all(self, case, path, rec):
        info = {a: G.lib_value(U.values_for(a, _INFO3[a]["type"])[-1 if a in U.SPECIAL else 1]) for a in sorted(_INFO3)}
        w = UFOWriter(path)
        w.writeInfo(info_obj(info))
        w.writeKerning(U.kerning_value(U.KERNINGS[3]))
        w.writeGroups(U.GROUPS[2])
        w.writeLib(G.lib_value(U.LIBS[2]))
        w.writeFeatures(U.FEATURES[1])
        gs = w.getGlyphSet()
        gs.writeGlyph("a", G.make_glyph(G.RICH), G.make_draw(G.RICH))
        gs.writeContents()
        w.writeLayerContents()
        w.close()
        r = UFOReader(path)
        got = read_info(r)
        if not strict_equal(canon(got), canon(info)):
            bad = sorted(k for k in set(got) | set(info) if not strict_equal(canon(got.get(k)), canon(info.get(k))))
            rec.violation("ufoinfo:differs:all-at-once", "attributes %r differ" % bad)
        if r.readKerning() != U.kerning_value(U.KERNINGS[3]) or not strict_equal(canon(r.readGroups()), canon(U.GROUPS[2])) \
                or not strict_equal(canon(r.readLib()), canon(G.lib_value(U.LIBS[2]))) or r.readFeatures() != U.FEATURES[1]:
            rec.violation("ufo:whole-font-differs", "kerning/groups/lib/features of a complete font differ")
        # the kerning lookup helper against the reference semantics
        k3, g3 = U.kerning_value(U.KERNINGS[3]), U.GROUPS[2]
        for a in ("O", "D", "Q", "E", "F", "public.kern1.O"):
            for b in ("O", "E", "F", "public.kern2.E"):
                ref, _ = U.lookup_v3((a, b), k3, g3) if not a.startswith("public.") and not b.startswith("public.") else (None, None)
                if ref is None and not (a.startswith("public.") or b.startswith("public.")):
                    ref = 0
                if a.startswith("public.") or b.startswith("public."):
                    continue
                got_v = lookupKerningValue((a, b), r.readKerning(), r.readGroups())
                if got_v != ref:
                    rec.violation("kerning:lookup", "lookupKerningValue(%r) = %r, reference %r" % ((a, b), got_v, ref))
        dd = G.diff(G.read_back(lambda g, p: r.getGlyphSet().readGlyph("a", g, p)), G.expected(G.RICH, 2, "a"))
        if dd:
            rec.violation("ufo:whole-font-glyph", dd)
        r.close()
        rec.witness("whole font at once")


# =============================================================== E2e  UFO 1/2 -> 3 up-conversion
UPC_GROUPS = {"@MMK_L_A": ["A"], "@MMK_R_B": ["B"], "GroupA": ["A"], "other": ["A", "B"], "public.kern1.A": ["B"]}
UPC_FIRSTS = ["A", "@MMK_L_A", "GroupA"]
UPC_SECONDS = ["B", "@MMK_R_B", "GroupA"]


def write_old_ufo(path, fmt, info=None, kerning=None, groups=None):
    """A UFO 1/2 package written by hand (stdlib plist writer only)."""
    os.makedirs(os.path.join(path, "glyphs"))

    def dump(name, obj):
        with open(os.path.join(path, name), "wb") as f:
            std_plistlib.dump(obj, f)

    dump("metainfo.plist", {"creator": "c19", "formatVersion": fmt})
    dump(os.path.join("glyphs", "contents.plist"), {})
    if info is not None:
        dump("fontinfo.plist", info)
    if kerning is not None:
        dump("kerning.plist", kerning)
    if groups is not None:
        dump("groups.plist", groups)


class UpConversion(FSUnit):
    name = "ufo-upconversion"
    rule = ("hand-written UFO 1 and UFO 2 packages read with UFOReader (which presents UFO 3 data): (a) fontinfo: every UFO 1 attribute of the UFO 2 conversion table x values incl. every "
            "fontStyle/widthName/msCharSet code; every UFO 2 attribute that became integer / non-negative in UFO 3 x {750, 750.0, 750.4, -12.6, 0.5} -> integer within 0.5 (exact for "
            "integral input, absolute value for the non-negative ones); (b) kerning+groups: every set of <=2 kerning pairs over first {glyph, @MMK_L_ group, plain group} x second "
            "{glyph, @MMK_R_ group, plain group} x every subset of 5 groups (incl. an existing public.kern1 name that forces a unique rename): the converted data validates, "
            "every glyph pair kerns the same under UFO 1/2 semantics before and UFO 3 semantics after (reference lookup), old groups are kept, new names carry the side prefix and are "
            "unique, rename maps describe the renaming; distinct = each case")
    required_witnesses = ("info v1 renamed", "info v1 code converted", "info v2 float rounded", "group renamed to kern1", "group renamed to kern2", "unique name suffix", "same group both sides",
                          "ambiguous input skipped")
    chunk = 40

    def cases(self, tier, seed):
        for old, new in sorted(U.V1_TO_V3.items()):
            yield ["info1", old, new, "xé<&>"]
        for old, new in sorted(U.V1_INT.items()):
            for v in (0, 400, 400.0):
                yield ["info1", old, new, v]
        for old, new in sorted(U.V1_NUM.items()):
            for v in (0, -12, 12.5):
                yield ["info1", old, new, v]
        for code in sorted(U.FONTSTYLE):
            yield ["info1code", "fontStyle", "styleMapStyleName", code]
        for code in sorted(U.WIDTHNAME):
            yield ["info1code", "widthName", "openTypeOS2WidthClass", code]
        for code in sorted(U.MSCHARSET):
            yield ["info1code", "msCharSet", "postscriptWindowsCharacterSet", code]
        for attr in U.V2_FLOAT_TO_INT + U.V2_NONNEG_INT:
            for v in (750, 750.0, 750.4, -12.6, 0.5, 0):
                yield ["info2", attr, v]
        pairs = [[a, b] for a in UPC_FIRSTS for b in UPC_SECONDS]
        gnames = sorted(UPC_GROUPS)
        for fmt in (2, 1):
            for size in range(0, 3):
                for ps in itertools.combinations(range(len(pairs)), size):
                    for gbits in range(1 << len(gnames)):
                        yield ["kern", fmt, [pairs[i] for i in ps], [gnames[i] for i in range(len(gnames)) if gbits >> i & 1]]

    def check(self, case, rec):
        with TempDir() as d:
            path = os.path.join(d, "Old.ufo")
            if case[0] == "kern":
                self.kern(case, path, rec)
            else:
                self.info(case, path, rec)

    def info(self, case, path, rec):
        rec.nontrivial()
        kind = case[0]
        if kind == "info2":
            _, attr, v = case
            write_old_ufo(path, 2, info={attr: v})
            new = attr
        else:
            _, attr, new, v = case
            write_old_ufo(path, 1, info={attr: v})
        r = UFOReader(path)
        try:
            got = read_info(r)
        except UFOLibError as e:
            nonneg = kind == "info2" and attr in U.V2_NONNEG_INT
            rec.violation("upconvert:info-unreadable:%s" % attr, "UFO %s fontinfo {%s: %r}: %s" % ("2" if kind == "info2" else "1", attr, v, e))
            return
        finally:
            r.close()
        if set(got) != {new}:
            rec.violation("upconvert:info-attributes:%s" % attr, "{%s: %r} read as %r" % (attr, v, got))
            return
        g = got[new]
        if kind == "info1":
            exp = int(v) if isinstance(v, float) and v == int(v) else v  # "convert floats to ints if possible" (UFO 2 spec)
            if g != exp or (isinstance(exp, int) and not isinstance(g, int)):
                rec.violation("upconvert:info1-value:%s" % attr, "%r read as %s=%r" % (v, new, g))
            if new != attr:
                rec.witness("info v1 renamed")
        elif kind == "info1code":
            table = {"fontStyle": U.FONTSTYLE, "widthName": U.WIDTHNAME, "msCharSet": U.MSCHARSET}[attr]
            if g != table[v]:
                rec.violation("upconvert:info1-code:%s" % attr, "%r read as %s=%r, the table says %r" % (v, new, g, table[v]))
            rec.witness("info v1 code converted")
        else:
            target = abs(v) if attr in U.V2_NONNEG_INT else v
            if not isinstance(g, int) or isinstance(g, bool) or abs(g - target) > 0.5 or (target == int(target) and g != target):
                rec.violation("upconvert:info2-integer:%s" % ("non-negative" if attr in U.V2_NONNEG_INT else "float-to-int"), "%s=%r read as %r" % (attr, v, g))
            if isinstance(v, float) and v != int(v):
                rec.witness("info v2 float rounded")

    def kern(self, case, path, rec):
        _, fmt, pairs, gnames = case
        groups = {n: list(UPC_GROUPS[n]) for n in gnames}
        flat = {}
        for k, (a, b) in enumerate(pairs):
            flat[(a, b)] = -10 * (k + 1)
        nested = {}
        for (a, b), v in flat.items():
            nested.setdefault(a, {})[b] = v
        # UFO 1/2 input where a glyph sits in two kerning groups of one side has no defined meaning
        glyphs = ["A", "B"]
        ambiguous = any(U.lookup_v2((x, y), flat, groups)[1] for x in glyphs for y in glyphs)
        if ambiguous:
            rec.witness("ambiguous input skipped")
            return
        rec.nontrivial()
        write_old_ufo(path, fmt, kerning=nested, groups=groups)
        r = UFOReader(path)
        try:
            k3 = r.readKerning()
            g3 = r.readGroups()
            maps = r.getKerningGroupConversionRenameMaps()
        except UFOLibError as e:
            rec.violation("upconvert:kerning-unreadable", "UFO %d kerning %r groups %r: %s" % (fmt, nested, groups, e))
            return
        finally:
            r.close()
        for n, m in groups.items():
            if g3.get(n) != m:
                rec.violation("upconvert:old-group-lost", "group %r %r became %r" % (n, m, g3.get(n)))
        new_names = [n for n in g3 if n not in groups]
        for n in new_names:
            if not (n.startswith("public.kern1.") or n.startswith("public.kern2.")):
                rec.violation("upconvert:new-group-prefix", "new group %r" % n)
        for side, prefix in (("side1", "public.kern1."), ("side2", "public.kern2.")):
            for old, new in maps[side].items():
                if not new.startswith(prefix) or g3.get(new) != groups.get(old):
                    rec.violation("upconvert:rename-map", "%s: %r -> %r, groups %r" % (side, old, new, g3))
                rec.witness("group renamed to kern1" if side == "side1" else "group renamed to kern2")
                if new[-1].isdigit() and not old[-1].isdigit():
                    rec.witness("unique name suffix")
        if set(maps["side1"]) & set(maps["side2"]):
            rec.witness("same group both sides")
        if len(k3) != len(flat) or sorted(k3.values()) != sorted(flat.values()):
            rec.violation("upconvert:kerning-pairs", "kerning %r became %r" % (flat, k3))
        for x in glyphs:
            for y in glyphs:
                before, _ = U.lookup_v2((x, y), flat, groups)
                after, amb = U.lookup_v3((x, y), k3, g3)
                if before != after:
                    rec.violation("upconvert:kerning-meaning", "UFO %d kerning %r groups %r: pair %r kerned %r, after conversion %r (kerning %r groups %r)" % (fmt, flat, groups, (x, y), before, after, k3, g3))
                lib_v = lookupKerningValue((x, y), k3, g3, fallback=None)
                if not amb and lib_v != after:
                    rec.violation("kerning:lookup", "lookupKerningValue(%r) = %r, reference %r" % ((x, y), lib_v, after))


def short_map(d):
    return {N.short(k, 16): N.short(v, 24) for k, v in sorted(d.items())}


def units():
    return [FileNames(), GlyphSetHistories(), LayerHistories(), DesignspaceDocs(), GlifRecords(), UfoData(), UpConversion(), PlistTrees(), AxisMaps()]
