"""C19 - design sources survive being written and read back.

E1  histories: real GlyphSet / UFOWriter objects in a fresh temp directory, every operation
    sequence up to a depth bound, against a plain dict model; userNameToFileName over every
    name sequence of a hostile alphabet.
E2  documents: designspace documents, GLIF glyph records, fontinfo/kerning/groups/lib values,
    plist value trees, each enumerated from a grammar by a deviation bound and written/read.
E3  axis maps: every monotone map on a 5x5 lattice, forward/backward inverse.
"""
from mc import env  # noqa: F401
from mc.kernel import Unit

import itertools
import os
import plistlib as std_plistlib
import shutil
import tempfile
import xml.etree.ElementTree as StdET

from fontTools.ufoLib import filenames as ufo_filenames
from fontTools.misc import filenames as misc_filenames
from fontTools.ufoLib.glifLib import GlyphSet
from fontTools.ufoLib.errors import GlifLibError

from oracles import c19_names as N
from oracles import c19_glif as G

LEVEL = "model_checking"
ASSUMPTIONS = [
    "file-system behaviour is that of a case-sensitive POSIX tmpfs (/dev/shm); case-insensitive collisions are checked on the generated names with str.lower(), as the UFO conventions define them, not by a case-insensitive file system",
    "glyph/layer names in file-backed units are valid XML attribute text (no control characters); long names are ASCII (255 characters = 255 bytes)",
    "'legal' = the illegal-character and reserved-device-name lists of the UFO 3 conventions (ufoLib: plus '(' ')' and COM5-9/LPT4-9 which that module documents); names ending in '.' or ' ' are not judged",
    "GlyphSet.readGlyph is observed at every reached state for every name instead of being a branching operation (it has no model effect)",
    "designspace numbers are limited to 6 decimals (the writer documents '%f' formatting); format 4 documents carry complete locations",
    "histories beyond the depth bounds, names outside the alphabet, plist trees deeper than 3 are not visited",
]

TMP_ROOT = "/dev/shm" if os.path.isdir("/dev/shm") else tempfile.gettempdir()


class TempDir:
    def __enter__(self):
        self.path = tempfile.mkdtemp(prefix="c19-", dir=TMP_ROOT)
        return self.path

    def __exit__(self, *a):
        shutil.rmtree(self.path, ignore_errors=True)


# =============================================================== E1a  userNameToFileName
AFFIXES = (0, 5, 240)
FN_FUNCS = {"ufoLib": ufo_filenames.userNameToFileName, "misc": misc_filenames.userNameToFileName}


def affix(n, ch):
    # a fixed affix of length n; contains a dot so that it looks like "glyphs." / ".glif"
    if n == 0:
        return ""
    return (ch * (n - 1) + ".") if ch == "p" else ("." + ch * (n - 1))


class FileNames(Unit):
    name = "userNameToFileName"
    rule = ("every sequence of <=3 names (quick: <=2 over the full alphabet, 3 over the core) over the hostile alphabet "
            "(case variants, reserved names, 250/251/130-upper-case long names, '/', ':', '*', control characters, U+0130, astral, "
            "names ending +-2 around the clip point with/without reserved last part) x prefix/suffix lengths {0,5,240}^2 (sum<255) "
            "x {ufoLib.filenames, misc.filenames}; `existing` accumulates the lower-cased results; every result legal, <=255 chars, "
            "not in existing case-insensitively, keeps prefix and suffix; distinct = each (module, affixes, sequence)")
    required_witnesses = ("clash resolved by counter", "clipped", "reserved part escaped", "illegal character replaced", "upper case marked")
    chunk = 1

    def alphabet(self, plen, slen):
        return N.FS_NAMES + N.CTRL_NAMES + N.boundary_names(plen, slen)

    def cases(self, tier, seed):
        for flavour in ("ufoLib", "misc"):
            for plen in AFFIXES:
                for slen in AFFIXES:
                    if plen + slen >= 250:
                        continue
                    n = len(self.alphabet(plen, slen))
                    for first in range(n):
                        yield [flavour, plen, slen, first, tier]
            yield [flavour, 0, 5, "sweep", tier]

    def check(self, case, rec):
        flavour, plen, slen, first, tier = case
        func = FN_FUNCS[flavour]
        prefix, suffix = affix(plen, "p"), affix(slen, "s")
        if first == "sweep":
            # every character up to U+017F, U+0130-like specials and plane boundaries, alone in a name
            cps = list(range(0, 0x180)) + [0x1E9E, 0x2126, 0x212A, 0xFB00, 0xFFFF, 0x10000, 0x10400, 0x10FFFF]
            for cp in cps:
                for pos, nm in enumerate(("x" + chr(cp) + "y", chr(cp), chr(cp) + ".x")):
                    try:
                        out = func(nm, existing=frozenset(), prefix=prefix, suffix=suffix)
                    except Exception as e:
                        rec.violation("userNameToFileName:exception:%s:sweep" % type(e).__name__, "%s(%r): %r" % (flavour, nm, e), case=[flavour, "sweep", cp, pos])
                        continue
                    self.judge(rec, flavour, nm, out, frozenset(), prefix, suffix, plen, slen, ["sweep", cp, pos])
            rec.evals(3 * len(cps) - 1)
            rec.nontrivial_n(3 * len(cps))
            return
        names = self.alphabet(plen, slen)
        core = [i for i, nm in enumerate(names) if nm in N.CORE_NAMES or nm in N.CTRL_NAMES[:1]] + \
               [i for i, nm in enumerate(names) if nm.endswith(".con") and len(nm) > 200][:2]
        n = 0
        # depth-first over sequences starting with `first`; `existing` is rebuilt per path
        def step(seq, existing, results):
            nonlocal n
            idx = seq[-1]
            nm = names[idx]
            n += 1
            try:
                out = func(nm, existing=existing, prefix=prefix, suffix=suffix)
            except Exception as e:  # the functions document only NameTranslationError (exhaustion)
                rec.violation("userNameToFileName:exception:%s:%s" % (type(e).__name__, N.name_shape(nm, flavour)),
                              "%s.userNameToFileName(%s, existing=%d names, prefix %d, suffix %d) raised %r" % (flavour, N.short(nm), len(existing), plen, slen, e),
                              case=[flavour, plen, slen, list(seq)])
                return
            self.judge(rec, flavour, nm, out, existing, prefix, suffix, plen, slen, seq)
            maxlen = 3
            if len(seq) >= maxlen:
                return
            ex2 = existing | {out.lower()}
            if len(seq) == 1:
                nxt = range(len(names))
            elif tier == "quick":
                nxt = core
            else:
                nxt = range(len(names))
            for j in nxt:
                step(seq + [j], ex2, results)

        step([first], frozenset(), [])
        rec.evals(n - 1)
        rec.nontrivial_n(n)
        rec.trace(n)

    def judge(self, rec, flavour, nm, out, existing, prefix, suffix, plen, slen, seq):
        case = [flavour, plen, slen, list(seq)]
        shape = N.name_shape(nm, flavour)
        if not isinstance(out, str):
            rec.violation("userNameToFileName:not-a-string", "%r" % (out,), case=case)
            return
        reasons = N.illegal_reasons(out, flavour, prefix, suffix)
        clash = out.lower() in existing
        counter = len(out) >= 15 + len(suffix) and out[len(out) - len(suffix) - 15: len(out) - len(suffix)].isdigit() and existing
        for r in reasons:
            fkey = filename_fkey(flavour, r, nm, out, counter, plen + slen)
            rec.violation(fkey, "%s.userNameToFileName(%s, existing=%d, prefix=%d chars, suffix=%d chars) -> %s (%d chars): %s"
                          % (flavour, N.short(nm), len(existing), plen, slen, N.short(out, 40), len(out), r), case=case,
                          observed=out, expected="<=255 characters, legal")
        if clash:
            rec.violation("filename:%s:not-unique:%s" % (flavour, shape), "%s.userNameToFileName(%s) -> %s which is in `existing` ignoring case"
                          % (flavour, N.short(nm), N.short(out, 40)), case=case)
        if not (out.startswith(prefix) and out.endswith(suffix)):
            rec.violation("filename:affix-lost", "%s -> %s" % (N.short(nm), N.short(out, 40)), case=case)
        # witnesses from input shape / output text
        body = out[len(prefix): len(out) - len(suffix)] if suffix else out[len(prefix):]
        if counter:
            rec.witness("clash resolved by counter")
        if len(out) >= 255 and len(nm) + plen + slen > 255:
            rec.witness("clipped")
        if shape.startswith("reserved-part") and "reserved-part" not in reasons:
            rec.witness("reserved part escaped")
        if any(c in N.SPEC_ILLEGAL for c in nm) and "illegal-char" not in reasons:
            rec.witness("illegal character replaced")
        if any(c != c.lower() for c in nm) and "_" in body:
            rec.witness("upper case marked")
        rec.outcome(out)

    def bounds(self, tier, seed):
        return {"sequence_length": 3, "third_name": "core alphabet" if tier == "quick" else "full alphabet",
                "affix_lengths": list(AFFIXES), "alphabet_size": len(self.alphabet(0, 5))}


def filename_fkey(flavour, reason, userName, fileName, counter, affix_total):
    """Stable class key of a file-name violation, from the shape of the input."""
    shape = N.name_shape(userName, flavour)
    if reason == "too-long":
        if counter:
            return "filename:%s:too-long:clash-counter:%s" % (flavour, "long-affixes" if affix_total >= 240 else "short-affixes")
        if "reserved-part" in shape:
            return "filename:%s:too-long:reserved-part" % flavour
        return "filename:%s:too-long:other" % flavour
    if reason == "illegal-char":
        illegal = N.FLAVOURS[flavour][0]
        bad = sorted({c for c in fileName if c in illegal})
        cls = "+".join("nul" if c == "\x00" else "double-quote" if c == '"' else "control" if ord(c) < 32 or ord(c) == 127 else "punct" for c in bad)
        return "filename:%s:illegal-char:%s" % (flavour, cls)
    return "filename:%s:%s:%s" % (flavour, reason, shape)


# =============================================================== E1b  GlyphSet histories
LAYERINFO = [
    {},  # empty: nothing to write, an existing file must go away
    {"color": "1,0,0,0.5", "lib": {"k<&>": [1, 2.5, True]}},
    {"color": "0,0,1,1"},
]


class Info:
    pass


def make_layerinfo(k):
    o = Info()
    for a, v in LAYERINFO[k].items():
        setattr(o, a, v)
    return o


class GSModel:
    """Plain-dict model of a glyph set directory.  File names are opaque tokens observed from
    the implementation when a name first receives one; the model never computes them."""

    def __init__(self):
        self.mem = {}  # glyph name -> file name (the writer's view)
        self.files = {}  # file name -> (glyph name, record index) on disk
        self.committed = None  # contents.plist as last written: glyph name -> file name
        self.layerinfo = None  # index into LAYERINFO or None (no file)

    def clean(self):
        return self.committed == self.mem and set(self.mem.values()) == set(self.files)

    def key(self):
        return [sorted((n, f, self.files.get(f, (None, None))[1]) for n, f in self.mem.items()),
                sorted((f, v[0], v[1]) for f, v in self.files.items() if f not in self.mem.values()),
                None if self.committed is None else sorted(self.committed.items()),
                self.layerinfo]


def gs_ops(names, tier_records):
    ops = []
    for i in range(len(names)):
        for r in tier_records:
            ops.append(["w", i, r])
    for i in range(len(names)):
        ops.append(["d", i])
    ops.append(["c"])
    ops.append(["r"])
    for k in range(len(LAYERINFO)):
        ops.append(["li", k])
    return ops


def abstract_enabled(op, mem, committed):
    """Name-level enabling used to enumerate histories (the run-time model refines it)."""
    if op[0] == "d":
        return op[1] in mem
    return True


def abstract_apply(op, mem, committed):
    if op[0] == "w":
        return mem | {op[1]}, committed
    if op[0] == "d":
        return mem - {op[1]}, committed
    if op[0] == "c":
        return mem, mem
    if op[0] == "r":
        return committed, committed
    return mem, committed


class GlyphSetHistories(Unit):
    name = "glyphset-histories"
    rule = ("all operation histories on a real GlyphSet (UFO 3, default options) in a fresh /dev/shm directory: ops writeGlyph(name, record) "
            "for 18 hostile names x 3 records (rich: all point types, components, anchors, guidelines, lib, image, unicodes, note / empty / advance only), "
            "deleteGlyph(name), writeContents, rebuild (new GlyphSet on the directory), writeLayerInfo(3 values); depth 3 over the full alphabet "
            "(thorough: plus depth 4 over the 8-name core alphabet x 2 records); model = dicts name->file token->record; at the end state of every history: "
            "names and name->file mapping equal the model, readGlyph of every name equals the written record, absent name raises KeyError, "
            "directory listing equals the model's file set, contents.plist (read with the stdlib) equals the committed mapping and the listing when in sync, "
            "a fresh reader agrees, layerinfo read-back equals the last write, file names legal / <=255 / distinct ignoring case; distinct = each history")
    required_witnesses = ("clash resolved by counter", "long name clipped", "reserved name escaped", "overwrite keeps file",
                          "delete then rewrite", "rebuild in sync", "rebuild out of sync", "layerinfo removed", "fresh reader compared")
    chunk = 6

    def space(self, tier):
        full = (N.FS_NAMES, [0, 1, 2], 3)
        if tier == "quick":
            return [full]
        return [full, (N.CORE_NAMES, [0, 2], 4)]

    def cases(self, tier, seed):
        for si, (names, recs, depth) in enumerate(self.space(tier)):
            ops = gs_ops(names, recs)
            # a case is a prefix of length depth-1 (all shorter ones too); check() runs every
            # one-op extension of it
            def rec_enum(prefix, mem, committed):
                yield [si, prefix]
                if len(prefix) >= depth - 1:
                    return
                for op in ops:
                    if not abstract_enabled(op, mem, committed):
                        continue
                    m2, c2 = abstract_apply(op, mem, committed)
                    yield from rec_enum(prefix + [op], m2, c2)

            yield from rec_enum([], frozenset(), frozenset())

    def setup(self, tier, seed):
        self._spaces = {"quick": self.space("quick"), "thorough": self.space("thorough")}
        self._tier = tier

    def check(self, case, rec):
        si, prefix = case
        names, recs, depth = self.space("thorough")[si] if si else self.space("quick")[0]
        ops = gs_ops(names, recs)
        mem, committed = frozenset(), frozenset()
        for op in prefix:
            mem, committed = abstract_apply(op, mem, committed)
        n = 0
        for op in ops:
            if not abstract_enabled(op, mem, committed):
                continue
            n += 1
            self.run_history(names, prefix + [op], rec)
        rec.evals(max(0, n - 1))
        rec.nontrivial_n(n)

    # -- one history on a fresh directory ---------------------------------
    def run_history(self, names, history, rec):
        with TempDir() as d:
            gs = GlyphSet(d)
            m = GSModel()
            ok = True
            box = [gs]
            for k, op in enumerate(history):
                ok = self.apply(box, m, d, names, op, rec, history[: k + 1])
                gs = box[0]
                if ok is not True:
                    break
                rec.transition()
            if ok is True:
                self.verify(gs, m, d, names, rec, history)
                rec.state(m.key())
                rec.trace()
            elif ok == "disabled":
                rec.count("histories skipped: operation on a missing file")
            try:
                gs.close()
            except Exception:
                pass

    def apply(self, box, m, d, names, op, rec, hist):
        gs = box[0]
        kind = op[0]
        try:
            if kind == "w":
                nm = names[op[1]]
                known = nm in m.mem
                gs.writeGlyph(nm, G.make_glyph(G.HISTORY_RECORDS[op[2]]), G.make_draw(G.HISTORY_RECORDS[op[2]]))
                fn = gs.contents.get(nm)
                if known:
                    if fn != m.mem[nm]:
                        rec.violation("glyphset:file-renamed-on-overwrite", "glyph %s moved from %s to %s" % (N.short(nm), m.mem[nm], fn), case=hist)
                    rec.witness("overwrite keeps file")
                else:
                    if any(f.lower() == fn.lower() for f in m.mem.values()):
                        rec.violation("glyphset:filename-not-unique:%s" % N.name_shape(nm),
                                      "new glyph %s got file %s which collides (ignoring case) with %r" % (N.short(nm), N.short(fn, 40), sorted(m.mem.values())), case=hist)
                    if fn in m.files and fn not in m.mem.values() and m.files[fn][0] == nm:
                        rec.witness("delete then rewrite")
                    m.mem[nm] = fn
                m.files[fn] = (nm, op[2])
            elif kind == "d":
                nm = names[op[1]]
                if nm not in m.mem or m.mem[nm] not in m.files:
                    return "disabled"
                if any(v == m.mem[nm] for k2, v in m.mem.items() if k2 != nm):
                    return "disabled"
                gs.deleteGlyph(nm)
                del m.files[m.mem[nm]]
                del m.mem[nm]
            elif kind == "c":
                gs.writeContents()
                m.committed = dict(m.mem)
            elif kind == "r":
                gs.close()
                gs = box[0] = GlyphSet(d)
                if m.committed == m.mem:
                    rec.witness("rebuild in sync")
                else:
                    rec.witness("rebuild out of sync")
                m.mem = dict(m.committed or {})
            elif kind == "li":
                gs.writeLayerInfo(make_layerinfo(op[1]))
                if LAYERINFO[op[1]]:
                    m.layerinfo = op[1]
                else:
                    if m.layerinfo is not None:
                        rec.witness("layerinfo removed")
                    m.layerinfo = None
        except Exception as e:
            nm = names[op[1]] if kind in ("w", "d") else ""
            fn = gs.contents.get(nm) if kind == "w" else None
            if fn is not None and len(fn) > N.MAX_LEN:
                fkey = filename_fkey("ufoLib", "too-long", nm, fn, False, 5)
                msg = "writeGlyph(%s) chose a %d-character file name %s and failed with %r" % (N.short(nm), len(fn), N.short(fn, 40), e)
            else:
                fkey = "glyphset:exception:%s:%s" % (type(e).__name__, kind)
                msg = "operation %r failed with %r" % (op, e)
            rec.violation(fkey, msg, case=hist)
            return "failed"
        return True

    def verify(self, gs, m, d, names, rec, hist):
        # 1. the writer's view
        if dict(gs.contents) != m.mem:
            rec.violation("glyphset:contents-differ", "GlyphSet.contents %r, model %r" % (short_map(gs.contents), short_map(m.mem)), case=hist)
            return
        # 2. file names
        seen = {}
        for nm, fn in sorted(m.mem.items()):
            shape = N.name_shape(nm)
            for r in N.illegal_reasons(fn, "ufoLib", "", ".glif"):
                rec.violation(filename_fkey("ufoLib", r, nm, fn, fn[:-5][-15:].isdigit(), 5),
                              "glyph %s is stored as %s (%d chars): %s" % (N.short(nm), N.short(fn, 40), len(fn), r), case=hist)
            if not fn.endswith(".glif"):
                rec.violation("filename:affix-lost", fn, case=hist)
            low = fn.lower()
            if low in seen:
                rec.violation("glyphset:filename-not-unique:%s" % shape, "%s and %s share %s ignoring case" % (N.short(nm), N.short(seen[low]), N.short(fn, 40)), case=hist)
            seen[low] = nm
            body = fn[:-5]
            if body[-15:].isdigit() and len(body) > 15:
                rec.witness("clash resolved by counter")
            if len(fn) == 255 and len(nm) > 250:
                rec.witness("long name clipped")
            if shape.startswith("reserved-part") and not N.illegal_reasons(fn, "ufoLib", "", ".glif"):
                rec.witness("reserved name escaped")
        # 3. read-back of every name
        for nm, fn in sorted(m.mem.items()):
            rec.transition()
            if fn in m.files:
                wname, ri = m.files[fn]
                try:
                    obs = G.read_back(lambda g, p: gs.readGlyph(nm, g, p))
                except Exception as e:
                    rec.violation("glyphset:read-failed:%s" % type(e).__name__, "readGlyph(%s): %r" % (N.short(nm), e), case=hist)
                    continue
                dd = G.diff(obs, G.expected(G.HISTORY_RECORDS[ri], 2, name=wname))
                if dd:
                    rec.violation("glyphset:read-back-differs", "readGlyph(%s) from %s: %s" % (N.short(nm), N.short(fn, 40), dd), case=hist)
            else:
                try:
                    gs.readGlyph(nm, G.GlyphObj())
                    rec.violation("glyphset:read-of-missing-file", "readGlyph(%s) succeeded but %s is not on disk" % (N.short(nm), fn), case=hist)
                except GlifLibError:
                    pass
        absent = next((x for x in names if x not in m.mem), None)
        if absent is not None:
            try:
                gs.readGlyph(absent, G.GlyphObj())
                rec.violation("glyphset:read-absent", "readGlyph(%s) did not raise" % N.short(absent), case=hist)
            except KeyError:
                pass
            if absent in gs or len(gs) != len(m.mem) or sorted(gs.keys()) != sorted(m.mem):
                rec.violation("glyphset:dict-interface", "keys/len/in disagree with the model", case=hist)
        # 4. directory listing
        listing = sorted(os.listdir(d))
        exp_listing = set(m.files)
        if m.committed is not None:
            exp_listing.add("contents.plist")
        if m.layerinfo is not None:
            exp_listing.add("layerinfo.plist")
        if listing != sorted(exp_listing):
            extra = sorted(set(listing) - exp_listing)
            missing = sorted(exp_listing - set(listing))
            if extra == ["layerinfo.plist"] and not missing:
                fkey = "glyphset:layerinfo-not-removed"
            else:
                fkey = "glyphset:directory-differs"
            rec.violation(fkey, "directory has extra %r, lacks %r" % ([N.short(x, 30) for x in extra], [N.short(x, 30) for x in missing]), case=hist)
        # 5. contents.plist through an independent reader
        if m.committed is not None:
            with open(os.path.join(d, "contents.plist"), "rb") as f:
                disk = std_plistlib.load(f)
            if disk != m.committed:
                rec.violation("glyphset:contents.plist-differs", "contents.plist %r, model %r" % (short_map(disk), short_map(m.committed)), case=hist)
            if m.clean():
                glifs = sorted(x for x in listing if x.endswith(".glif"))
                if sorted(disk.values()) != glifs:
                    rec.violation("glyphset:contents-vs-listing", "contents.plist lists %d files, directory has %d" % (len(disk), len(glifs)), case=hist)
                # 6. a fresh reader sees the same data
                rec.witness("fresh reader compared")
                gs2 = GlyphSet(d, expectContentsFile=True)
                try:
                    if dict(gs2.contents) != m.mem:
                        rec.violation("glyphset:fresh-reader-contents", "%r" % short_map(gs2.contents), case=hist)
                    for nm, fn in sorted(m.mem.items()):
                        rec.transition()
                        obs = G.read_back(lambda g, p: gs2.readGlyph(nm, g, p))
                        dd = G.diff(obs, G.expected(G.HISTORY_RECORDS[m.files[fn][1]], 2, name=nm))
                        if dd:
                            rec.violation("glyphset:fresh-reader-differs", "%s: %s" % (N.short(nm), dd), case=hist)
                    if sorted(gs2.getUnicodes().items()) != sorted((nm, G.dedup(G.HISTORY_RECORDS[m.files[fn][1]].get("unicodes", []))) for nm, fn in m.mem.items()):
                        rec.violation("glyphset:getUnicodes", "%r" % gs2.getUnicodes(), case=hist)
                finally:
                    gs2.close()
        # 7. each file names the glyph that was written into it (stdlib XML parser)
        for fn, (wname, ri) in sorted(m.files.items()):
            root = StdET.parse(os.path.join(d, fn)).getroot()
            if root.tag != "glyph" or root.get("name") != wname or root.get("format") != "2":
                rec.violation("glyphset:glif-header", "%s holds <%s name=%s format=%s>" % (N.short(fn, 40), root.tag, N.short(root.get("name") or ""), root.get("format")), case=hist)
        # 8. layer info
        info = Info()
        try:
            gs.readLayerInfo(info)
        except Exception as e:
            rec.violation("glyphset:readLayerInfo:%s" % type(e).__name__, repr(e), case=hist)
            return
        exp_info = LAYERINFO[m.layerinfo] if m.layerinfo is not None else {}
        dd = G.vdiff(info.__dict__, exp_info, "layerinfo")
        if dd:
            rec.violation("glyphset:layerinfo-stale" if not exp_info else "glyphset:layerinfo-differs", "readLayerInfo: %s" % dd, case=hist)

    def bounds(self, tier, seed):
        return {"spaces": [{"names": len(n), "records": len(r), "depth": dpt} for n, r, dpt in self.space(tier)],
                "layerinfo_values": len(LAYERINFO)}


def short_map(d):
    return {N.short(k, 16): N.short(v, 24) for k, v in sorted(d.items())}


def units():
    return [FileNames(), GlyphSetHistories()]
