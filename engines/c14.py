"""C14 - pen adapters preserve geometry.

Model checking of the pen protocols: breadth-first exploration of every valid pen *call prefix*
of the segment-pen grammar and of the point-pen grammar (oracles/c14_model.py) up to a point
budget.  The explorer state is the call sequence so far; every complete glyph is delivered to
a fresh instance of every adapter and what arrives downstream (a plain recorder that is not
fontTools code) is compared with the documented image of the input, computed on an independent
interpretation of the protocol: exact call equality for pass-through adapters, canonical
Bezier geometry (oracles.geom) for the others, exact rational area, independent extrema.
"""
from mc import env  # noqa: F401
from mc.kernel import Unit, Recorder

import collections
import itertools
import math
from fractions import Fraction

from oracles import geom
from oracles import c14_model as M

from fontTools.pens.pointPen import (
    PointToSegmentPen,
    SegmentToPointPen,
    GuessSmoothPointPen,
    ReverseContourPointPen,
)
from fontTools.pens.recordingPen import (
    RecordingPen,
    RecordingPointPen,
    DecomposingRecordingPen,
    DecomposingRecordingPointPen,
    replayRecording,
)
from fontTools.pens.transformPen import TransformPen, TransformPointPen
from fontTools.pens.reverseContourPen import ReverseContourPen
from fontTools.pens.roundingPen import RoundingPen, RoundingPointPen
from fontTools.pens.filterPen import (
    FilterPen,
    ContourFilterPen,
    FilterPointPen,
    ContourFilterPointPen,
    OnCurveFirstPointPen,
)
from fontTools.pens.explicitClosingLinePen import ExplicitClosingLinePen
from fontTools.pens.ttGlyphPen import TTGlyphPen, TTGlyphPointPen
from fontTools.pens.t2CharStringPen import T2CharStringPen
from fontTools.pens.boundsPen import BoundsPen, ControlBoundsPen
from fontTools.pens.areaPen import AreaPen
from fontTools.pens.svgPathPen import SVGPathPen
from fontTools.pens import basePen as _basePen
from fontTools.svgLib.path import parse_path
from fontTools.misc.psCharStrings import T2CharString
from fontTools.misc.transform import Transform, Identity, Offset, Scale

LEVEL = "model_checking"
ASSUMPTIONS = [
    "coordinates come from 3- and 4-point lattices of multiples of 12 (one lattice per VERIF_SEED, fractional images of them for the rounding pens); other coordinate values are not visited",
    "bounds: <= 3 segments per contour, <= 3 off-curve points per segment (<= 4 in an off-curve-only contour), <= 2 contours and <= 1 component per glyph, total point budgets as listed per unit",
    "CFF charstrings have no open contours and T2CharStringPen documents none: the engine expects open contours to come back closed (as documented for TTGlyphPen)",
    "TTGlyphPen/TTGlyphPointPen are only given what a glyf outline can hold: lines, quadratic splines and cubic segments with exactly two off-curve points",
    "the downstream recorder, the protocol interpretation, B-spline blossoming for super-beziers, extrema and otRound are written here from the pen protocol documentation; oracles.geom canonicalises (segments shorter than 1e-3 dropped, closed contours compared up to rotation)",
    "Cu2Qu/Qu2Cu pens are left to C13; hash-based and drawing-backend pens (cairo, cocoa, qt, reportlab, freetype...) are not adapters in the sense of the property",
]

# ---------------------------------------------------------------------------------------------
# configuration: what VERIF_SEED / tier select (the space is exhaustive for the chosen values)
LATTICES3 = [
    [(0, 0), (12, 0), (12, 24)],
    [(0, 0), (-12, 24), (24, 12)],
    [(12, -12), (0, 24), (-24, 0)],
    [(0, 0), (0, 12), (36, 12)],
]
LATTICE4_EXTRA = [(-12, 12), (12, -12), (24, 24), (-24, -12)]

COMPS_QUICK = [("bq", (1, 0, 0, 1, 12, -12)), ("bq", (-1, 0, 0, 0.5, 0, 24)), ("nq", (1, 0, 0, 1, 0, 12))]  # nq: a base glyph that is itself a composite
COMPS_MORE = [("bq", (0, 1, -1, 0, 6, 6)), ("bq", (2.5, 0, 0, 1, 0, 0))]

# base glyph used by components (quadratic + line, closed, counter-clockwise)
BASE_SEG = {
    "bq": [("M", (0, 0)), ("L", (12, 0)), ("Q", (12, 12), (0, 12)), ("Z",)],
}
BASE_PTS = {
    "bq": [("b", None), ("p", (0, 0), "line", False, None, None), ("p", (12, 0), "line", False, None, None),
           ("p", (12, 12), None, False, None, None), ("p", (0, 12), "qcurve", False, None, None), ("e",)],
}

# the transform set: identity, scale, flip, quarter turn, skew+offset, general (all dyadic: exact)
TRANSFORMS = [
    (1, 0, 0, 1, 0, 0),
    (2, 0, 0, 3, 0, 0),
    (-1, 0, 0, 1, 12, 0),
    (0, 1, -1, 0, 0, 0),
    (1, 0, 0.5, 1, 10, -20),
    (0.5, 0.25, -0.75, 1.5, 3, -7),
]


def fracmap(p):
    """lattice point -> fractional point; multiples of 12 land on quarters; x = 0 gives the tie -0.5
    and y = 0 the tie +0.5 (every lattice has a zero in both coordinates)"""
    return (p[0] / 16.0 - 0.5, p[1] / 16.0 + 0.5)


def fraccomp(ct):
    return tuple(ct[:4]) + fracmap(ct[4:])


def collapse(p):
    """singular map onto a line of slope 1/2: the lattice points stay distinct and become
    collinear, which is what GuessSmoothPointPen looks for"""
    return (p[0] + p[1], (p[0] + p[1]) / 2.0)


def config(tier, seed):
    """Point budgets "p" = (one contour, two contours in total, glyph with a component)."""
    lat = LATTICES3[seed % len(LATTICES3)]
    lat4 = lat + [LATTICE4_EXTRA[seed % len(LATTICE4_EXTRA)]]
    if tier == "quick":
        return {
            "seg": [{"lat": lat, "p": (5, 4, 3), "comps": COMPS_QUICK},
                    {"lat": lat4, "p": (4, 3, 2), "comps": COMPS_QUICK}],
            "pts": [{"lat": lat, "p": (4, 4, 2), "comps": COMPS_QUICK, "style": 0},
                    {"lat": lat, "p": (3, 3, 2), "comps": COMPS_QUICK, "style": 1},
                    {"lat": lat, "p": (3, 3, 2), "comps": COMPS_QUICK, "style": 2}],
            "pairs": [],
        }
    comps = COMPS_QUICK + COMPS_MORE
    return {
        "seg": [{"lat": lat, "p": (6, 5, 3), "comps": comps},
                {"lat": lat4, "p": (5, 4, 3), "comps": COMPS_QUICK}],
        "pts": [{"lat": lat, "p": (5, 4, 3), "comps": comps, "style": 0},
                {"lat": lat, "p": (4, 3, 2), "comps": COMPS_QUICK, "style": 1},
                {"lat": lat, "p": (4, 3, 2), "comps": COMPS_QUICK, "style": 2},
                {"lat": lat4, "p": (4, 3, 2), "comps": COMPS_QUICK, "style": 0}],
        "pairs": [{"lat": lat, "p": (5, 4, 0), "comps": []}],
    }


_GRAMMARS = {}


def seg_grammar(cfg):
    key = ("s", repr(cfg))
    if key not in _GRAMMARS:
        _GRAMMARS[key] = M.SegGrammar([tuple(p) for p in cfg["lat"]], *cfg["p"], comps=[(n, tuple(t)) for n, t in cfg["comps"]])
    return _GRAMMARS[key]


def pt_grammar(cfg):
    key = ("p", repr(cfg))
    if key not in _GRAMMARS:
        _GRAMMARS[key] = M.PtGrammar([tuple(p) for p in cfg["lat"]], *cfg["p"], comps=[(n, tuple(t)) for n, t in cfg["comps"]], style=cfg["style"])
    return _GRAMMARS[key]


# ---------------------------------------------------------------------------------------------
# glyph set for components
class _BaseGlyph:
    def __init__(self, name):
        self.name = name

    def draw(self, pen):
        M.feed_seg(BASE_SEG[self.name], pen)

    def drawPoints(self, pen):
        M.feed_pts(BASE_PTS[self.name], pen)


class _NestedGlyph:
    """a base glyph that is itself a composite: one component of 'bq', moved"""

    T = (1, 0, 0, 1, 24, 0)

    def draw(self, pen):
        pen.addComponent("bq", self.T)

    def drawPoints(self, pen):
        pen.addComponent("bq", self.T)


GLYPHSET = {n: _BaseGlyph(n) for n in BASE_SEG}
GLYPHSET["nq"] = _NestedGlyph()
GLYPHSET_ABS = {n: M.interp_seg(c)[0] for n, c in BASE_SEG.items()}
GLYPHSET_ABS["nq"] = M.amap(GLYPHSET_ABS["bq"], lambda p: M.affine(_NestedGlyph.T, p))


class _Private:
    subrs = []
    nominalWidthX = 0
    defaultWidthX = 0


# ---------------------------------------------------------------------------------------------
# comparison helpers
TOL = 1e-6


def _demote(s):
    # a cubic whose control points coincide with its end points is the straight line between them
    if s[0] == "C" and s[1] == s[2] and s[3] == s[4]:
        return ("L", s[1], s[4])
    return s


def canon(exp, keep_points):
    exp = [(c, st, [_demote(s) for s in segs]) for c, st, segs in exp]
    c = geom.canon_contours(exp, eps=1e-3, drop_points=not keep_points)
    if keep_points:
        c = [(False, segs) if segs[0][0] == "P" else (cl, segs) for cl, segs in c]
    return c


def seg_flags(contours, comps):
    """stable shape class of the input (for fkeys and witnesses)"""
    f = set()
    for c in contours:
        if c[0] == "b":
            f.add("blob")
            if len(c[1]) > 1 and c[1][0] == c[1][-1]:
                f.add("blobdup")
            continue
        _k, closed, start, segs = c
        if not segs:
            f.add("anchor")
            continue
        f.add("closed" if closed else "open")
        if closed and segs[-1][-1] == start:
            f.add("closedup")
        for s in segs:
            if s[0] == "C" and len(s) > 5:
                f.add("superbez")
        # consecutive axis-parallel straight pieces running in opposite directions
        live = [_demote(s) for s in M.expand([("c", False, start, segs)])[0][2]]
        live = [s for s in live if any(p != s[1] for p in s[2:])]
        for a, b in zip(live, live[1:]):
            if a[0] == b[0] == "L":
                for ax in (0, 1):
                    if a[1][1 - ax] == a[2][1 - ax] == b[2][1 - ax] and (a[2][ax] - a[1][ax]) * (b[2][ax] - b[1][ax]) < 0:
                        f.add("hvbacktrack")
    if comps:
        f.add("comp")
    return f


def ftag(flags):
    keep = [x for x in ("anchor", "blob", "blobdup", "closedup", "comp", "hvbacktrack", "open", "superbez") if x in flags]
    return "+".join(keep) or "plain"


class Ctx:
    """Everything derived once from one complete glyph (model side)."""

    def __init__(self, calls, contours, comps):
        self.calls = calls
        self.contours = contours
        self.comps = comps
        self.flags = seg_flags(contours, comps)
        self.tag = ftag(self.flags)
        self._cache = {}

    def full(self, reverse_flipped=False):
        """contours with the components decomposed"""
        key = ("raw-full", reverse_flipped)
        if key not in self._cache:
            self._cache[key] = M.add_components(self.contours, self.comps, GLYPHSET_ABS, reverse_flipped) if self.comps else self.contours
        return self._cache[key]

    def want(self, key, build, keep_points):
        k = ("canon", key, keep_points)
        if k not in self._cache:
            self._cache[k] = canon(build(), keep_points)
        return self._cache[k]


def exc_kind(e):
    import traceback

    site = "?"
    for fr in reversed(traceback.extract_tb(e.__traceback__)):
        if "/fontTools/" in fr.filename:
            site = "%s:%s" % (fr.filename.split("/fontTools/")[-1], fr.name)
            break
    return "exception:%s@%s" % (type(e).__name__, site), "%s: %s\n%s" % (type(e).__name__, e, "".join(traceback.format_exception(e)[-4:]))


class Run:
    """One adapter run on one glyph: counts the trace, catches what escapes, reports."""

    def __init__(self, rec, case, ctx):
        self.rec = rec
        self.case = case
        self.ctx = ctx
        self.pending = []

    def bad(self, adapter, kind, msg, observed=None, expected=None, tag=None):
        self.pending.append(["%s:%s" % (adapter, kind), tag or self.ctx.tag, "%s: %s" % (adapter, msg), observed, expected])

    def flush(self, recheck_part, parts):
        """Report the collected violations.  The class key (fkey) ends with the shape class of the
        *smallest* failing input: when a glyph of several contours fails and one of its contours
        fails alone in the same way, the violation is filed under that contour's class."""
        if not self.pending:
            return
        inherited = {}
        if len(parts) > 1:
            for part in parts:
                for base, tag in recheck_part(part):
                    inherited.setdefault(base, tag)
        for base, tag, msg, observed, expected in self.pending:
            tag = inherited.get(base, tag)
            self.rec.violation("%s:%s" % (base, tag), msg, case=self.case, observed=observed, expected=expected)
        self.pending = []

    def go(self, adapter, fn):
        self.rec.trace(1)
        try:
            fn()
        except M.ProtocolError as e:
            self.bad(adapter, "invalid-output", "adapter emitted an invalid pen call sequence: %s" % e)
        except Exception as e:  # noqa: BLE001 - anything escaping an adapter on valid input
            kind, text = exc_kind(e)
            self.bad(adapter, kind, text)

    def same_calls(self, adapter, got, want, kind="calls"):
        got = list(got)
        want = list(want)
        if got != want:
            self.bad(adapter, kind, "calls delivered downstream differ from the documented image", observed=got, expected=want)
            return False
        return True

    def same_geo(self, adapter, got_exp, want_key, want_build, keep_points, kind="geometry", tol=TOL):
        a = canon(got_exp, keep_points)
        b = self.ctx.want(want_key, want_build, keep_points)
        msg = geom.contours_close(a, b, tol)
        if msg is not None:
            self.bad(adapter, kind, "geometry differs from the documented image: %s" % msg, observed=a, expected=b)
            return False
        return True


def map_calls(calls, f, fcomp=None):
    out = []
    for c in calls:
        k = c[0]
        if k in ("M", "L", "C", "Q", "B"):
            out.append((k,) + tuple(f(p) for p in c[1:]))
        elif k == "K":
            out.append(("K", c[1], fcomp(c[2]) if fcomp else c[2]))
        elif k == "p":
            out.append(("p", f(c[1])) + tuple(c[2:]))
        elif k == "k":
            out.append(("k", c[1], fcomp(c[2]) if fcomp else c[2]) + tuple(c[3:]))
        else:
            out.append(c)
    return out


def round_pt(p):
    return (M.otround(p[0]), M.otround(p[1]))


def round_comp(t):
    return tuple(t[:4]) + (M.otround(t[4]), M.otround(t[5]))


def split_contours(calls):
    """segment calls -> list of per-contour call lists (components on their own)"""
    out, cur = [], []
    for c in calls:
        cur.append(c)
        if c[0] in ("Z", "E", "K"):
            out.append(cur)
            cur = []
    assert not cur
    return out


# ---------------------------------------------------------------------------------------------
# documented images at the call level
def image_explicit_closing_line(calls):
    out = []
    for cont in split_contours(calls):
        if cont[0][0] == "M" and cont[-1][0] == "Z" and len(cont) >= 3 and cont[-2][-1] != cont[0][1]:
            cont = cont[:-1] + [("L", cont[0][1]), ("Z",)]
        out.extend(cont)
    return out


def image_seg_point_seg(calls, oicl):
    """SegmentToPointPen then PointToSegmentPen: open contours and off-curve-only contours
    unchanged; closed contours keep their start; a final line back to the start point is
    implied (dropped) unless outputImpliedClosingLine, or unless it joins two coincident
    on-curve points; a closed contour reduced to a single point comes out as a lone move."""
    out = []
    for cont in split_contours(calls):
        if cont[0][0] == "B" and len(cont[0]) == 2:
            # a lone off-curve point: "not much more we can do than output a single move"
            out.extend([("M", cont[0][1]), ("E",)])
            continue
        if cont[0][0] != "M" or cont[-1][0] != "Z":
            out.extend(cont)
            continue
        start = cont[0][1]
        segs = cont[1:-1]
        if not segs:
            out.extend([("M", start), ("E",)])
            continue
        if segs[-1][-1] == start:
            if len(segs) == 1 and len(segs[0]) == 2:
                out.extend([("M", start), ("E",)])
                continue
            if segs[-1][0] == "L" and not oicl:
                prev = segs[-2][-1]
                if prev != start:
                    segs = segs[:-1]
        elif oicl:
            segs = segs + [("L", start)]
        out.extend([("M", start)] + list(segs) + [("Z",)])
    return out


def image_reverse_points(calls):
    """Documented image of ReverseContourPointPen on point-pen calls: closed contours keep
    their first point and run backwards after it (reversed[N] == original[-N]), open contours
    are simply reversed and start with 'move'; every point keeps smooth/name/identifier; an
    on-curve point receives the type of the segment that used to *leave* it (the type of the
    next on-curve point of the original), which is the segment now arriving at it."""
    out = []
    cur = None
    for c in calls:
        if c[0] == "b":
            cur = []
            out.append(c)
        elif c[0] == "p":
            cur.append(c)
        elif c[0] == "e":
            n = len(cur)
            if n:
                opn = cur[0][2] == "move"
                ons = [i for i in range(n) if cur[i][2] is not None]
                newtype = {}
                for k, i in enumerate(ons):
                    if k + 1 < len(ons):
                        newtype[i] = cur[ons[k + 1]][2]
                    else:
                        newtype[i] = "move" if opn else cur[ons[0]][2]
                order = list(range(n - 1, -1, -1)) if opn else [0] + list(range(n - 1, 0, -1))
                for i in order:
                    pc = cur[i]
                    out.append(("p", pc[1], newtype.get(i)) + tuple(pc[3:]))
            cur = None
            out.append(c)
        else:
            out.append(c)
    return out


def lone_points_as_move(calls):
    """single-point contours compare as 'move' (a lone point cannot be closed)"""
    out = list(calls)
    for i in range(1, len(out) - 1):
        if out[i][0] == "p" and out[i - 1][0] == "b" and out[i + 1][0] == "e" and out[i][2] is not None:
            out[i] = ("p", out[i][1], "move") + tuple(out[i][3:])
    return out


# ---------------------------------------------------------------------------------------------
# the adapters of the segment side
def tt_ok(contours):
    for c in contours:
        if c[0] == "b":
            continue
        for s in c[3]:
            if s[0] == "C" and len(s) != 5:
                return False
    return True


def tt_ok_calls(calls):
    for c in calls:
        if c[0] == "C" and len(c) not in (2, 4):
            return False
    return True


def check_seg_glyph(calls, rec, case, _collect=False):
    contours, comps = M.interp_seg(calls)
    ctx = Ctx(calls, contours, comps)
    R = Run(rec, case, ctx)
    flags = ctx.flags
    ncalls = len(calls)

    def deliver(pen):
        rec.transition(M.feed_seg(calls, pen))

    ident = lambda: M.expand(contours)  # noqa: E731
    full = lambda: M.expand(ctx.full())  # noqa: E731

    # witnesses that follow from the input shape
    for w in ("blob", "anchor", "open", "superbez", "comp", "closedup", "blobdup"):
        if w in flags:
            rec.witness("in:" + w)
    if len(contours) > 1:
        rec.witness("in:two contours")
    for c in contours:
        if c[0] == "c" and c[1] and c[3]:
            if c[3][-1][0] == "L" and c[3][-1][-1] == c[2]:
                rec.witness("in:closing line on the start point")
            ons = [c[2]] + [s[-1] for s in c[3]]
            if any(ons[i] == ons[i + 1] for i in range(len(ons) - 1)):
                rec.witness("in:coincident consecutive on-curve points")
    rec.outcome(repr(ctx.want("ident", ident, True)))

    # ---- record / replay ---------------------------------------------------------------
    def a_recording():
        pen = RecordingPen()
        deliver(pen)
        out = M.SegRec()
        pen.replay(out)
        R.same_calls("RecordingPen", out.calls, calls)
        out2 = M.SegRec()
        replayRecording(pen.value, out2)
        R.same_calls("RecordingPen", out2.calls, calls, "replayRecording")
        if len(pen.value) != ncalls:
            R.bad("RecordingPen", "value-length", "%d recorded operations for %d calls" % (len(pen.value), ncalls))

    R.go("RecordingPen", a_recording)

    def a_decomposing(reverse_flipped):
        pen = DecomposingRecordingPen(GLYPHSET, reverseFlipped=reverse_flipped)
        deliver(pen)
        out = M.SegRec()
        pen.replay(out)
        name = "DecomposingRecordingPen(reverseFlipped=%s)" % reverse_flipped
        if not comps:
            R.same_calls(name, out.calls, calls)
            return
        oc, ocomps = M.interp_seg(out.calls)
        if ocomps:
            R.bad(name, "component-left", "components survive decomposition", observed=ocomps)
        R.same_geo(name, M.expand(oc), ("full", reverse_flipped), lambda: M.expand(ctx.full(reverse_flipped)), True)
        if reverse_flipped and any(M.det(t) < 0 for _n, t in comps):
            rec.witness("flipped component reversed")
            # direction matters: exact area of the decomposition
            want = geom.signed_area(M.expand(M.aclose(ctx.full(True))))
            got = geom.signed_area(M.expand(M.aclose(oc)))
            if got != want:
                R.bad(name, "area", "signed area %s, expected %s" % (got, want))

    R.go("DecomposingRecordingPen", lambda: a_decomposing(False))
    if comps:
        R.go("DecomposingRecordingPen", lambda: a_decomposing(True))

    # ---- pass-through filters ---------------------------------------------------------------
    def a_filter(cls):
        out = M.SegRec()
        deliver(cls(out))
        R.same_calls(cls.__name__, out.calls, calls)

    R.go("FilterPen", lambda: a_filter(FilterPen))
    R.go("ContourFilterPen", lambda: a_filter(ContourFilterPen))

    def a_explicit():
        out = M.SegRec()
        deliver(ExplicitClosingLinePen(out))
        want = image_explicit_closing_line(calls)
        if R.same_calls("ExplicitClosingLinePen", out.calls, want) and want != calls:
            rec.witness("explicit closing line added")

    R.go("ExplicitClosingLinePen", a_explicit)

    # ---- transform ---------------------------------------------------------------
    def a_transform(t, as_tuple):
        out = M.SegRec()
        deliver(TransformPen(out, tuple(t) if as_tuple else Transform(*t)))
        want = map_calls(calls, lambda p: M.affine(t, p), lambda ct: M.compose(t, ct))
        R.same_calls("TransformPen", out.calls, want)

    for i, t in enumerate(TRANSFORMS):
        R.go("TransformPen", lambda t=t, i=i: a_transform(t, i % 2 == 0))
    rec.witness("transform with negative determinant")

    # ---- rounding ---------------------------------------------------------------
    fcalls = map_calls(calls, fracmap, fraccomp)

    def a_rounding():
        out = M.SegRec()
        rec.transition(M.feed_seg(fcalls, RoundingPen(out)))
        want = map_calls(fcalls, round_pt, round_comp)
        if R.same_calls("RoundingPen", out.calls, want):
            if any(isinstance(v, float) for c in out.calls if c[0] in "MLCQB" for p in c[1:] for v in p):
                R.bad("RoundingPen", "not-int", "rounded coordinates are not integers", observed=out.calls)
        for c in fcalls:
            if c[0] in ("M", "L", "C", "Q", "B"):
                for p in c[1:]:
                    for v in p:
                        if v != int(v) and (v * 2) == int(v * 2):
                            rec.witness("rounding tie at .5" if v > 0 else "rounding tie at -.5")

    R.go("RoundingPen", a_rounding)

    # ---- segment -> point -> segment ---------------------------------------------------------------
    def a_sps(guess, oicl):
        out = M.SegRec()
        deliver(SegmentToPointPen(PointToSegmentPen(out, outputImpliedClosingLine=oicl), guessSmooth=guess))
        name = "SegmentToPointPen>PointToSegmentPen(oicl=%s)" % oicl
        oc, ocomps = M.interp_seg(out.calls)
        if list(ocomps) != list(comps):
            R.bad(name, "components", "components changed", observed=ocomps, expected=comps)
        ok = R.same_geo(name, M.expand(oc), "ident", ident, True)
        if ok:
            want = image_seg_point_seg(calls, oicl)
            if R.same_calls(name, out.calls, want, "image") and want != calls:
                rec.witness("closing line made implicit" if not oicl else "closing line made explicit")

    for guess, oicl in ((True, False), (False, False), (True, True)):
        R.go("SegmentToPointPen>PointToSegmentPen", lambda g=guess, o=oicl: a_sps(g, o))

    def a_seg_to_pts():
        out = M.PtRec()
        deliver(SegmentToPointPen(out, guessSmooth=False))
        oc, ocomps = M.interp_pts(out.calls)
        if list(ocomps) != list(comps):
            R.bad("SegmentToPointPen", "components", "components changed", observed=ocomps, expected=comps)
        R.same_geo("SegmentToPointPen", M.expand(oc), "ident", ident, True)

    R.go("SegmentToPointPen", a_seg_to_pts)

    # ---- reverse ---------------------------------------------------------------
    rev = lambda: M.expand(M.areverse(contours))  # noqa: E731
    area_in = None
    if M.all_closed(ctx.full()):
        area_in = geom.signed_area(M.expand(ctx.full()))
        if area_in != 0:
            rec.witness("non-zero signed area")

    def a_reverse(oicl):
        name = "ReverseContourPen(oicl=%s)" % oicl
        out = M.SegRec()
        deliver(ReverseContourPen(out, outputImpliedClosingLine=oicl))
        oc, ocomps = M.interp_seg(out.calls)
        if list(ocomps) != list(comps):
            R.bad(name, "components", "components changed", observed=ocomps, expected=comps)
        if not R.same_geo(name, M.expand(oc), "rev", rev, True):
            return
        # documented: closed contours keep their first point; open ones start at the old end
        if len(oc) == len(contours):
            for ci, co in zip(contours, oc):
                if ci[0] == "b" or not ci[3]:
                    continue
                want = ci[2] if ci[1] else ci[3][-1][-1]
                if co[0] != "c" or co[2] != want:
                    R.bad(name, "first-point", "reversed contour starts at %r, documented start %r" % (co[2] if co[0] == "c" else None, want), observed=out.calls)
                    break
        else:
            R.bad(name, "contour-count", "%d contours in, %d out" % (len(contours), len(oc)))
        # point structure (coincident points included): the reversed outline seen through
        # SegmentToPointPen is the documented point reversal of the outline seen the same way
        pa = M.PtRec()
        rec.transition(M.feed_seg(calls, ReverseContourPen(SegmentToPointPen(pa, guessSmooth=False), outputImpliedClosingLine=oicl)))
        pb = M.PtRec()
        M.feed_seg(calls, SegmentToPointPen(pb, guessSmooth=False))
        want_pts = lone_points_as_move(image_reverse_points(pb.calls))
        R.same_calls(name, lone_points_as_move(pa.calls), want_pts, "point-structure")
        # exact signed area negates
        if M.all_closed(contours):
            a0 = geom.signed_area(M.expand(contours))
            a1 = geom.signed_area(M.expand(oc))
            if a1 != -a0:
                R.bad(name, "area", "signed area %s after reversal of %s" % (a1, a0))
        # reversing twice restores the outline
        out2 = M.SegRec()
        rec.transition(M.feed_seg(out.calls, ReverseContourPen(out2, outputImpliedClosingLine=oicl)))
        oc2, _ = M.interp_seg(out2.calls)
        R.same_geo(name, M.expand(oc2), "ident", ident, True, kind="reverse-twice")
        if len(oc2) == len(contours):
            for ci, co in zip(contours, oc2):
                if ci[0] == "c" and ci[3] and (co[0] != "c" or co[2] != ci[2]):
                    R.bad(name, "reverse-twice-start", "start point %r became %r" % (ci[2], co[2] if co[0] == "c" else None))
                    break

    R.go("ReverseContourPen", lambda: a_reverse(False))
    R.go("ReverseContourPen", lambda: a_reverse(True))

    # ---- area ---------------------------------------------------------------
    if area_in is not None:
        def a_area():
            pen = AreaPen(GLYPHSET)
            deliver(pen)
            if abs(pen.value - float(area_in)) > 1e-9:
                R.bad("AreaPen", "value", "AreaPen %r, exact area %s" % (pen.value, area_in))
            pen2 = AreaPen(GLYPHSET)
            rp = ReverseContourPen(pen2)
            deliver(rp)
            # components are passed through unreversed by ReverseContourPen (documented)
            comp_area = area_in - geom.signed_area(M.expand(contours))
            want = -(area_in - comp_area) + comp_area
            if abs(pen2.value - float(want)) > 1e-9:
                R.bad("AreaPen", "reversed-value", "AreaPen after ReverseContourPen %r, exact %s" % (pen2.value, want))

        R.go("AreaPen", a_area)

    # ---- bounds ---------------------------------------------------------------
    def a_bounds():
        exp = M.expand(ctx.full())
        for isp in (False, True):
            bp = BoundsPen(GLYPHSET, ignoreSinglePoints=isp)
            deliver(bp)
            cp = ControlBoundsPen(GLYPHSET, ignoreSinglePoints=isp)
            deliver(cp)
            wb = M.bounds(exp, isp)
            wc = M.control_bounds(exp, isp)
            for nm, got, want in (("BoundsPen", bp.bounds, wb), ("ControlBoundsPen", cp.bounds, wc)):
                if (got is None) != (want is None) or (got is not None and any(abs(a - b) > 1e-9 for a, b in zip(got, want))):
                    R.bad(nm, "bounds(ignoreSinglePoints=%s)" % isp, "%s %r, independent extrema %r" % (nm, got, want))
            if bp.bounds is not None and cp.bounds is not None:
                b, c = bp.bounds, cp.bounds
                if b[0] < c[0] - 1e-9 or b[1] < c[1] - 1e-9 or b[2] > c[2] + 1e-9 or b[3] > c[3] + 1e-9:
                    R.bad("BoundsPen", "outside-control-bounds", "bounds %r not inside control bounds %r" % (b, c))
                if b != c:
                    rec.witness("bounds tighter than control bounds")
        rec.trace(3)

    R.go("BoundsPen", a_bounds)

    # ---- TrueType glyph ---------------------------------------------------------------
    if tt_ok_calls(calls):
        closed_full = lambda: M.expand(M.aclose(ctx.full()))  # noqa: E731
        n_pts_in = sum(len(c) - 1 for c in calls if c[0] in "MLCQB")
        # "ignore anchors (one-point paths)": lone points, on- or off-curve, leave no outline
        one_point = lambda c: M.is_single_point(c) or (c[0] == "b" and len(c[1]) == 1)  # noqa: E731
        expect_composite = bool(comps) and all(one_point(c) for c in contours) and not any(abs(v) > 2 for _n, t in comps for v in t[:4])

        def a_tt(oicl, drop):
            name = "TTGlyphPen(oicl=%s,dropImplied=%s)" % (oicl, drop)
            pen = TTGlyphPen(GLYPHSET, outputImpliedClosingLine=oicl)
            deliver(pen)
            glyph = pen.glyph(dropImpliedOnCurves=drop)
            out = M.SegRec()
            glyph.draw(out, None)
            oc, ocomps = M.interp_seg(out.calls)
            pout = M.PtRec()
            glyph.drawPoints(pout, None)
            pc, pcomps = M.interp_pts(pout.calls)
            if glyph.isComposite():
                rec.witness("tt composite glyph")
                want = [(n, tuple(t[:4]) + (M.otround(t[4]), M.otround(t[5]))) for n, t in comps]
                if not expect_composite:
                    R.bad(name, "composite", "composite glyph although contours or overflowing transforms are present")
                if [(n, tuple(t)) for n, t in ocomps] != want or [(n, tuple(t)) for n, t in pcomps] != want:
                    R.bad(name, "components", "components of the built glyph differ", observed=[ocomps, pcomps], expected=want)
                return
            if expect_composite:
                R.bad(name, "decomposed", "components were decomposed without documented reason")
            if comps:
                rec.witness("tt components decomposed")
            if any(not all(isinstance(v, int) for v in p) for p in glyph.coordinates):
                R.bad(name, "not-int", "glyph coordinates not integral", observed=list(glyph.coordinates))
            if not all(c[0] == "b" or c[1] for c in oc):
                R.bad(name, "open-contour", "a TrueType glyph drew an open contour", observed=out.calls)
            R.same_geo(name, M.expand(oc), "closedfull", closed_full, False)
            R.same_geo(name, M.expand(pc), "closedfull", closed_full, False, kind="geometry-drawPoints")
            if drop and len(glyph.coordinates) < len(pen_points[oicl]):
                rec.witness("implied on-curve point dropped")
            if "anchor" in flags and len(oc) < len(ctx.full()):
                rec.witness("tt single-point contour dropped")
            if "open" in flags:
                rec.witness("tt open contour closed")

        pen_points = {}
        for oicl in (False, True):
            p = TTGlyphPen(GLYPHSET, outputImpliedClosingLine=oicl)
            try:
                M.feed_seg(calls, p)
                pen_points[oicl] = list(p.points)
            except Exception:  # reported by the runs below
                pen_points[oicl] = []
        for oicl, drop in ((False, False), (False, True), (True, False), (True, True)):
            R.go("TTGlyphPen", lambda o=oicl, d=drop: a_tt(o, d))

    # ---- CFF charstring ---------------------------------------------------------------
    def a_t2():
        pen = T2CharStringPen(None, GLYPHSET)
        deliver(pen)
        want_key = "t2"
        build = lambda: M.map_expanded(M.expand(M.aclose(ctx.full()), elevate=True), round_pt)  # noqa: E731
        for optimize in (True, False):
            cs = pen.getCharString(private=_Private(), globalSubrs=[], optimize=optimize)
            out = M.SegRec()
            cs.draw(out)
            oc, _ = M.interp_seg(out.calls)
            R.same_geo("T2CharStringPen(optimize=%s)" % optimize, M.expand(oc, elevate=True), want_key, build, False)
            if not all(c[0] == "b" or c[1] for c in oc):
                R.bad("T2CharStringPen", "open-contour", "a charstring drew an open contour", observed=out.calls)
            cs.compile()
            cs2 = T2CharString(bytecode=cs.bytecode, private=_Private(), globalSubrs=[])
            out2 = M.SegRec()
            cs2.draw(out2)
            oc2, _ = M.interp_seg(out2.calls)
            if R.same_geo("T2CharStringPen(optimize=%s)" % optimize, M.expand(oc2, elevate=True), want_key, build, False, kind="geometry-bytecode"):
                rec.witness("t2 charstring compiled and drawn")
        rec.trace(3)

    R.go("T2CharStringPen", a_t2)

    # ---- SVG path ---------------------------------------------------------------
    def a_svg():
        pen = SVGPathPen(GLYPHSET)
        deliver(pen)
        d = pen.getCommands()
        out = M.SegRec()
        parse_path(d, out)
        oc, _ = M.interp_seg(out.calls)
        R.same_geo("SVGPathPen", M.expand(oc), "full", full, False)
        if "H" in d or "V" in d:
            rec.witness("svg H/V shorthand")
        if "-" in d:
            rec.witness("svg negative coordinate")

    R.go("SVGPathPen", a_svg)

    if _collect:
        return [(p[0], p[1]) for p in R.pending]
    R.flush(lambda part: check_seg_glyph(part, Recorder("scratch"), case, True), split_contours(calls))


# ---------------------------------------------------------------------------------------------
# the adapters of the point side
def pt_contours(calls):
    """point calls -> [(identifier, [point call, ...])] and components"""
    out, comps, cur = [], [], None
    for c in calls:
        if c[0] == "b":
            cur = (c[1], [])
        elif c[0] == "p":
            cur[1].append(c)
        elif c[0] == "e":
            out.append(cur)
            cur = None
        else:
            comps.append(c)
    return out, comps


def pts_tt_ok(calls):
    """only what a glyf outline can hold: 'curve' segments need exactly 0 or 2 off-curves"""
    for _ident, pts in pt_contours(calls)[0]:
        n = len(pts)
        types = [p[2] for p in pts]
        if not n or all(t is None for t in types):
            continue
        closed = types[0] != "move"
        for i, t in enumerate(types):
            if t != "curve":
                continue
            k, j = 0, i - 1
            while k < n:
                if j < 0:
                    if not closed:
                        break
                    j += n
                if types[j] is not None:
                    break
                k += 1
                j -= 1
            if k not in (0, 2):
                return False
    return True


def rotations(seq):
    return [seq[i:] + seq[:i] for i in range(len(seq))] if seq else [seq]


def split_pt_contours(calls):
    out, cur = [], []
    for c in calls:
        cur.append(c)
        if c[0] in ("e", "k"):
            out.append(cur)
            cur = []
    assert not cur
    return out


def check_pts_glyph(calls, rec, case, _collect=False):
    contours, comps = M.interp_pts(calls)
    ctx = Ctx(calls, contours, comps)
    R = Run(rec, case, ctx)
    flags = ctx.flags
    in_contours, in_comps = pt_contours(calls)

    def deliver(pen):
        rec.transition(M.feed_pts(calls, pen))

    ident = lambda: M.expand(contours)  # noqa: E731

    for w in ("blob", "anchor", "open", "superbez", "comp", "closedup", "blobdup"):
        if w in flags:
            rec.witness("in:" + w)
    if any(not pts for _i, pts in in_contours):
        rec.witness("in:empty contour")
    if any(pts and pts[0][2] is None and any(p[2] is not None for p in pts) for _i, pts in in_contours):
        rec.witness("in:closed contour starting off-curve")
    if any(p[3] or p[4] or p[5] for _i, pts in in_contours for p in pts):
        rec.witness("in:smooth/name/identifier set")
    rec.outcome(repr(ctx.want("ident", ident, True)))

    # ---- record / replay, filters ---------------------------------------------------------------
    def a_recording():
        pen = RecordingPointPen()
        deliver(pen)
        out = M.PtRec()
        pen.replay(out)
        R.same_calls("RecordingPointPen", out.calls, calls)

    R.go("RecordingPointPen", a_recording)

    def a_decomposing(rf):
        name = "DecomposingRecordingPointPen(reverseFlipped=%s)" % (rf,)
        pen = DecomposingRecordingPointPen(GLYPHSET, reverseFlipped=rf)
        deliver(pen)
        out = M.PtRec()
        pen.replay(out)
        if not comps:
            R.same_calls(name, out.calls, calls)
            return
        oc, ocomps = M.interp_pts(out.calls)
        if ocomps:
            R.bad(name, "component-left", "components survive decomposition", observed=ocomps)
        flip = rf is not False
        R.same_geo(name, M.expand(oc), ("full", flip), lambda: M.expand(ctx.full(flip)), True)
        if flip and any(M.det(t) < 0 for _n, t in comps):
            rec.witness("flipped component reversed")
            want = geom.signed_area(M.expand(M.aclose(ctx.full(True))))
            got = geom.signed_area(M.expand(M.aclose(oc)))
            if got != want:
                R.bad(name, "area", "signed area %s, expected %s" % (got, want))

    R.go("DecomposingRecordingPointPen", lambda: a_decomposing(False))
    if comps:
        R.go("DecomposingRecordingPointPen", lambda: a_decomposing(True))
        R.go("DecomposingRecordingPointPen", lambda: a_decomposing("on_curve_first"))

    def a_filter(cls):
        out = M.PtRec()
        deliver(cls(out))
        R.same_calls(cls.__name__, out.calls, calls)

    R.go("FilterPointPen", lambda: a_filter(FilterPointPen))
    R.go("ContourFilterPointPen", lambda: a_filter(ContourFilterPointPen))

    def a_transform(t, as_tuple):
        out = M.PtRec()
        deliver(TransformPointPen(out, tuple(t) if as_tuple else Transform(*t)))
        want = map_calls(calls, lambda p: M.affine(t, p), lambda ct: M.compose(t, ct))
        R.same_calls("TransformPointPen", out.calls, want)

    for i, t in enumerate(TRANSFORMS):
        R.go("TransformPointPen", lambda t=t, i=i: a_transform(t, i % 2 == 1))

    fcalls = map_calls(calls, fracmap, fraccomp)

    def a_rounding():
        out = M.PtRec()
        rec.transition(M.feed_pts(fcalls, RoundingPointPen(out)))
        want = map_calls(fcalls, round_pt, round_comp)
        if R.same_calls("RoundingPointPen", out.calls, want):
            if any(isinstance(v, float) for c in out.calls if c[0] == "p" for v in c[1]):
                R.bad("RoundingPointPen", "not-int", "rounded coordinates are not integers", observed=out.calls)
        for c in fcalls:
            if c[0] == "p":
                for v in c[1]:
                    if v != int(v) and (v * 2) == int(v * 2):
                        rec.witness("rounding tie at .5" if v > 0 else "rounding tie at -.5")

    R.go("RoundingPointPen", a_rounding)

    # ---- guess smooth ---------------------------------------------------------------
    def a_guess(collapsed):
        src = map_calls(calls, collapse) if collapsed else calls
        out = M.PtRec()
        rec.transition(M.feed_pts(src, GuessSmoothPointPen(out)))
        strip = lambda cs: [c[:3] + (None,) + c[4:] if c[0] == "p" else c for c in cs]  # noqa: E731
        # GuessSmoothPointPen recomputes smooth (the flags of the input are replaced)
        if not R.same_calls("GuessSmoothPointPen", strip(out.calls), strip(src)):
            return
        oconts, _ = pt_contours(out.calls)
        for _ident, pts in oconts:
            n = len(pts)
            opn = bool(pts) and pts[0][2] == "move"
            for i, p in enumerate(pts):
                inner = p[2] is not None and n > 1 and not (opn and i in (0, n - 1))
                d1 = d2 = None
                if inner:
                    prv, nxt = pts[(i - 1) % n], pts[(i + 1) % n]
                    inner = prv[2] is None or nxt[2] is None
                    d1 = (p[1][0] - prv[1][0], p[1][1] - prv[1][1])
                    d2 = (nxt[1][0] - p[1][0], nxt[1][1] - p[1][1])
                if p[3]:
                    rec.witness("smooth point guessed")
                    if not inner:
                        R.bad("GuessSmoothPointPen", "smooth-misplaced", "point %d marked smooth but it is off-curve, an end point, or has no off-curve neighbour" % i, observed=out.calls)
                        continue
                    cross = d1[0] * d2[1] - d1[1] * d2[0]
                    dot = d1[0] * d2[0] + d1[1] * d2[1]
                    if dot <= 0 or abs(cross) > 0.06 * dot:
                        R.bad("GuessSmoothPointPen", "smooth-not-aligned", "point %r marked smooth but its neighbours are not aligned" % (p[1],), observed=out.calls)
                elif inner and collapsed and d1 != (0, 0) and d2 != (0, 0):
                    # exactly collinear neighbours in the same direction must be recognised
                    if d1[0] * d2[1] - d1[1] * d2[0] == 0 and d1[0] * d2[0] + d1[1] * d2[1] > 0:
                        R.bad("GuessSmoothPointPen", "smooth-missed", "point %r has aligned neighbours but is not marked smooth" % (p[1],), observed=out.calls)

    R.go("GuessSmoothPointPen", lambda: a_guess(False))
    R.go("GuessSmoothPointPen", lambda: a_guess(True))

    # ---- on-curve first ---------------------------------------------------------------
    def a_oncurve_first():
        out = M.PtRec()
        deliver(OnCurveFirstPointPen(out))
        oconts, ocomps = pt_contours(out.calls)
        if ocomps != in_comps or len(oconts) != len(in_contours):
            R.bad("OnCurveFirstPointPen", "structure", "contours/components changed", observed=out.calls)
            return
        for (i0, p0), (i1, p1) in zip(in_contours, oconts):
            if i0 != i1 or p1 not in rotations(p0):
                R.bad("OnCurveFirstPointPen", "not-a-rotation", "contour is not a rotation of the input", observed=p1, expected=p0)
                return
            has_on = any(p[2] is not None for p in p0)
            if p0 and p0[0][2] != "move" and has_on:
                k = [p[2] is not None for p in p0].index(True)
                if p1 != p0[k:] + p0[:k]:
                    R.bad("OnCurveFirstPointPen", "start", "closed contour does not start at its first on-curve point", observed=p1, expected=p0[k:] + p0[:k])
                    return
                if k:
                    rec.witness("contour rotated to on-curve start")
            elif p1 != p0:
                R.bad("OnCurveFirstPointPen", "changed", "open/off-curve-only contour changed", observed=p1, expected=p0)
                return

    R.go("OnCurveFirstPointPen", a_oncurve_first)

    # ---- reverse ---------------------------------------------------------------
    rev = lambda: M.expand(M.areverse(contours))  # noqa: E731

    def a_reverse():
        name = "ReverseContourPointPen"
        out = M.PtRec()
        deliver(ReverseContourPointPen(out))
        oc, ocomps = M.interp_pts(out.calls)
        oconts, ocompcalls = pt_contours(out.calls)
        if ocompcalls != in_comps:
            R.bad(name, "components", "components changed", observed=ocompcalls, expected=in_comps)
        if not R.same_geo(name, M.expand(oc), "rev", rev, True):
            return
        if len(oconts) != len(in_contours):
            R.bad(name, "contour-count", "%d contours in, %d out" % (len(in_contours), len(oconts)))
            return
        if not R.same_calls(name, out.calls, image_reverse_points(calls), "image"):
            return
        if M.all_closed(contours):
            a0 = geom.signed_area(M.expand(contours))
            a1 = geom.signed_area(M.expand(oc))
            if a1 != -a0:
                R.bad(name, "area", "signed area %s after reversal of %s" % (a1, a0))
            if a0 != 0:
                rec.witness("non-zero signed area")
        out2 = M.PtRec()
        rec.transition(M.feed_pts(out.calls, ReverseContourPointPen(out2)))
        R.same_calls(name, out2.calls, calls, "reverse-twice")

    R.go("ReverseContourPointPen", a_reverse)

    # ---- point -> segment ---------------------------------------------------------------
    def a_p2s(oicl):
        name = "PointToSegmentPen(oicl=%s)" % oicl
        out = M.SegRec()
        deliver(PointToSegmentPen(out, outputImpliedClosingLine=oicl))
        oc, ocomps = M.interp_seg(out.calls)
        if list(ocomps) != list(comps):
            R.bad(name, "components", "components changed", observed=ocomps, expected=comps)
        R.same_geo(name, M.expand(oc), "ident", ident, True)
        if oicl:
            for c in split_contours(out.calls):
                if c[0][0] == "M" and c[-1][0] == "Z" and len(c) > 2 and c[-2][-1] != c[0][1]:
                    R.bad(name, "closing-line", "closed contour does not end on its start point although outputImpliedClosingLine", observed=c)
                    break

    R.go("PointToSegmentPen", lambda: a_p2s(False))
    R.go("PointToSegmentPen", lambda: a_p2s(True))

    def a_psp(guess, oicl):
        name = "PointToSegmentPen>SegmentToPointPen"
        out = M.PtRec()
        deliver(PointToSegmentPen(SegmentToPointPen(out, guessSmooth=guess), outputImpliedClosingLine=oicl))
        oconts, ocompcalls = pt_contours(out.calls)
        if [c[:3] for c in ocompcalls] != [c[:3] for c in in_comps]:
            R.bad(name, "components", "components changed", observed=ocompcalls, expected=in_comps)
        oc, _ = M.interp_pts(out.calls)
        if not R.same_geo(name, M.expand(oc), "ident", ident, True):
            return
        # structure: the segment protocol drops names/identifiers (documented) and empty
        # contours; the point list itself survives up to the choice of the start point;
        # a single point comes back as a lone 'move'
        want = [[(p[1], p[2]) for p in pts] for _i, pts in in_contours if pts]
        got = [[(p[1], p[2]) for p in pts] for _i, pts in oconts]
        ok = len(want) == len(got)
        if ok:
            for w, g in zip(want, got):
                if len(w) == 1:
                    ok = ok and g == [(w[0][0], "move")]
                elif w[0][1] == "move":
                    ok = ok and g == w
                else:
                    ok = ok and g in rotations(w)
        if not ok:
            R.bad(name, "structure(oicl=%s)" % oicl, "point structure not preserved", observed=got, expected=want)
        if not guess and any(p[3] for _i, pts in oconts for p in pts):
            R.bad(name, "smooth", "smooth flag set although guessSmooth=False", observed=out.calls)

    for guess, oicl in ((False, False), (True, False), (False, True)):
        R.go("PointToSegmentPen>SegmentToPointPen", lambda g=guess, o=oicl: a_psp(g, o))

    # ---- TrueType glyph ---------------------------------------------------------------
    if pts_tt_ok(calls):
        closed_full = lambda: M.expand(M.aclose(ctx.full()))  # noqa: E731
        has_points = any(pts for _i, pts in in_contours)
        expect_composite = bool(comps) and not has_points and not any(abs(v) > 2 for _n, t in comps for v in t[:4])

        def a_tt(drop):
            name = "TTGlyphPointPen(dropImplied=%s)" % drop
            pen = TTGlyphPointPen(GLYPHSET)
            deliver(pen)
            npts = len(pen.points)
            glyph = pen.glyph(dropImpliedOnCurves=drop)
            out = M.SegRec()
            glyph.draw(out, None)
            oc, ocomps = M.interp_seg(out.calls)
            pout = M.PtRec()
            glyph.drawPoints(pout, None)
            pc, pcomps = M.interp_pts(pout.calls)
            if glyph.isComposite():
                rec.witness("tt composite glyph")
                want = [(n, tuple(t[:4]) + (M.otround(t[4]), M.otround(t[5]))) for n, t in comps]
                if not expect_composite:
                    R.bad(name, "composite", "composite glyph although contours or overflowing transforms are present")
                if [(n, tuple(t)) for n, t in ocomps] != want or [(n, tuple(t)) for n, t in pcomps] != want:
                    R.bad(name, "components", "components of the built glyph differ", observed=[ocomps, pcomps], expected=want)
                return
            if expect_composite:
                R.bad(name, "decomposed", "components were decomposed without documented reason")
            if comps:
                rec.witness("tt components decomposed")
            R.same_geo(name, M.expand(oc), "closedfull", closed_full, False)
            R.same_geo(name, M.expand(pc), "closedfull", closed_full, False, kind="geometry-drawPoints")
            if not drop and not comps:
                # drawPoints "will not change the point indices": same points in the same order
                got = [p[1] for c in pout.calls if c[0] == "p" for p in [c]]
                want = [p[1] for _i, pts in in_contours for p in pts]
                if got != want:
                    R.bad(name, "point-order", "drawPoints does not return the points given to the pen", observed=got, expected=want)
            if drop and len(glyph.coordinates) < npts:
                rec.witness("implied on-curve point dropped")
            if "open" in flags:
                rec.witness("tt open contour closed")

        R.go("TTGlyphPointPen", lambda: a_tt(False))
        R.go("TTGlyphPointPen", lambda: a_tt(True))

    if _collect:
        return [(p[0], p[1]) for p in R.pending]
    R.flush(lambda part: check_pts_glyph(part, Recorder("scratch"), case, True), split_pt_contours(calls))


# ---------------------------------------------------------------------------------------------
# exploration units
class _Explore(Unit):
    """BFS over call prefixes.  cases(): one 'root' case holding every prefix of at most
    SPLIT calls, then one case per incomplete prefix of exactly SPLIT calls, whose whole
    subtree is explored breadth-first in check().  A violation is reported with the single
    glyph as its case, so replay re-executes exactly that glyph."""

    SPLIT = 3
    chunk = 1
    kind = "seg"

    def cfgs(self, tier, seed):
        return config(tier, seed)[self.kind if self.kind != "pairs" else "pairs"]

    def grammar(self, cfg):
        raise NotImplementedError

    def check_glyph(self, calls, rec, case):
        raise NotImplementedError

    def cases(self, tier, seed):
        for ci, cfg in enumerate(self.cfgs(tier, seed)):
            g = self.grammar(cfg)
            yield {"cfg": cfg, "root": True}
            level = [((), g.ROOT)]
            for _depth in range(self.SPLIT):
                nxt = []
                for pre, summ in level:
                    for call, ns in g.successors(summ):
                        nxt.append((pre + (call,), ns))
                level = nxt
            for pre, summ in level:
                if g.successors(summ):
                    yield {"cfg": cfg, "prefix": [list(c) for c in pre]}

    def bounds(self, tier, seed):
        return {"spaces": self.cfgs(tier, seed), "points_budget": "(one contour, two contours, with a component)"}

    def check(self, case, rec):
        cfg = case["cfg"]
        g = self.grammar(cfg)
        if "glyph" in case:
            calls = M.norm_calls(case["glyph"])
            self.check_glyph(calls, rec, case)
            return
        if case.get("root"):
            level = [((), g.ROOT)]
            depth = 0
            while level and depth <= self.SPLIT:
                nxt = []
                for pre, summ in level:
                    rec.state(["prefix", cfg["lat"], cfg.get("style", 0), pre])
                    if g.complete(summ) and pre:
                        self._glyph(pre, rec, cfg)
                    if depth < self.SPLIT:
                        for call, ns in g.successors(summ):
                            nxt.append((pre + (call,), ns))
                level = nxt
                depth += 1
            return
        pre = tuple(M.norm_calls(case["prefix"]))
        summ = g.summary(pre)
        queue = collections.deque()
        for call, ns in g.successors(summ):
            queue.append((pre + (call,), ns))
        while queue:
            pre, summ = queue.popleft()
            rec.state_n(1)  # prefixes below a case root are distinct by construction (tree)
            if g.complete(summ):
                self._glyph(pre, rec, cfg)
            for call, ns in g.successors(summ):
                queue.append((pre + (call,), ns))

    def _glyph(self, calls, rec, cfg):
        rec.evals(1)
        rec.nontrivial_n(1)
        self.check_glyph(list(calls), rec, {"cfg": cfg, "glyph": [list(c) for c in calls]})


class SegPens(_Explore):
    name = "segment-pens"
    kind = "seg"
    rule = ("BFS over segment-pen call prefixes: contour := moveTo seg{0..3} (closePath|endPath) | qCurveTo(off{1..4}, None) closePath; "
            "seg := lineTo | curveTo(0..3 off-curves: line, quadratic, cubic, super-bezier) | qCurveTo(0..3 off-curves); points from a 3-point lattice "
            "(4-point in thorough) so that coincident points / closing line on the start point occur; <= 2 contours + <= 1 addComponent; "
            "every complete glyph through a fresh instance of ~35 adapter configurations; oracle = documented image on an independent protocol "
            "interpretation (exact calls for pass-through pens, canonical Bezier geometry, exact Fraction area, independent extrema); distinct = each call sequence")
    required_witnesses = (
        "in:closing line on the start point", "in:coincident consecutive on-curve points", "in:blob", "in:blobdup", "in:anchor", "in:open",
        "in:superbez", "in:comp", "in:two contours", "explicit closing line added", "closing line made implicit", "closing line made explicit",
        "rounding tie at .5", "rounding tie at -.5", "non-zero signed area", "bounds tighter than control bounds",
        "implied on-curve point dropped", "tt single-point contour dropped", "tt open contour closed", "tt composite glyph", "tt components decomposed",
        "t2 charstring compiled and drawn", "svg H/V shorthand", "svg negative coordinate", "flipped component reversed",
    )

    def grammar(self, cfg):
        return seg_grammar(cfg)

    def check_glyph(self, calls, rec, case):
        check_seg_glyph(calls, rec, case)

    def summary_of(self, g, pre):
        return g.summary(pre)


class PointPens(_Explore):
    name = "point-pens"
    kind = "pts"
    SPLIT = 3
    rule = ("BFS over point-pen call prefixes: contour := beginPath(identifier) addPoint(pt, move|line|curve|qcurve|None, smooth, name, identifier)* endPath; "
            "valid contours only (open contours start with move and end on-curve, no off-curve before line, <= 3 off-curves per segment cyclically, <= 3 segments), "
            "contours without on-curve point (1..4 points), single-point and empty contours, <= 2 contours + <= 1 component, 3 attribute styles; "
            "every complete glyph through ~25 point-pen adapter configurations; oracle as for segment-pens plus exact preservation of smooth/name/identifier; distinct = each call sequence")
    required_witnesses = (
        "in:blob", "in:blobdup", "in:anchor", "in:open", "in:superbez", "in:comp", "in:closedup", "in:empty contour",
        "in:closed contour starting off-curve", "in:smooth/name/identifier set", "rounding tie at .5", "rounding tie at -.5",
        "smooth point guessed", "contour rotated to on-curve start", "non-zero signed area", "implied on-curve point dropped",
        "tt open contour closed", "tt composite glyph", "tt components decomposed", "flipped component reversed",
    )

    def grammar(self, cfg):
        return pt_grammar(cfg)

    def check_glyph(self, calls, rec, case):
        check_pts_glyph(calls, rec, case)


# ---------------------------------------------------------------------------------------------
# ordered pairs of adapters (thorough)
class Stage:
    """A segment->segment adapter as a pipeline stage: make(out) -> (pen, finish)."""

    def __init__(self, name, make, image, accepts=None):
        self.name, self.make, self.image, self.accepts = name, make, image, accepts


def _passthru(cls, *a, **k):
    return lambda out: (cls(out, *a, **k), None)


def _tt_stage(out):
    pen = TTGlyphPen(GLYPHSET)

    def finish():
        pen.glyph().draw(out, None)

    return pen, finish


def _t2_stage(out):
    pen = T2CharStringPen(None, GLYPHSET)

    def finish():
        pen.getCharString(private=_Private(), globalSubrs=[]).draw(out)

    return pen, finish


def _svg_stage(out):
    pen = SVGPathPen(GLYPHSET)

    def finish():
        parse_path(pen.getCommands(), out)

    return pen, finish


def _rec_stage(out):
    pen = RecordingPen()
    return pen, lambda: pen.replay(out)


# images work on ("abs", abstract contours) until a stage needs Bezier segments ("exp", expanded)
def _im_abs(f):
    def im(state):
        kind, v = state
        if kind == "abs":
            return ("abs", f(v))
        raise ValueError("abstract image after expansion")

    return im


def _im_map(f):
    def im(state):
        kind, v = state
        if kind == "abs":
            return ("abs", M.amap(v, f))
        return ("exp", M.map_expanded(v, f))

    return im


def _im_reverse(state):
    kind, v = state
    if kind == "abs":
        return ("abs", M.areverse(v))
    out = []
    for closed, start, segs in v:
        rs = [(s[0],) + tuple(reversed(s[1:])) for s in reversed(segs)]
        out.append((closed, rs[0][1] if rs else start, rs))
    return ("exp", out)


def _im_close(state):
    kind, v = state
    if kind == "abs":
        return ("abs", M.aclose(v))
    out = []
    for closed, start, segs in v:
        segs = list(segs)
        if not closed and segs and segs[-1][-1] != start:
            segs.append(("L", segs[-1][-1], start))
        out.append((True, start, segs))
    return ("exp", out)


def _im_t2(state):
    kind, v = _im_close(state)
    exp = M.expand(v, elevate=True) if kind == "abs" else [(c, s, [M._elev(x) for x in segs]) for c, s, segs in v]
    return ("exp", M.map_expanded(exp, round_pt))


def _im_tt(state):
    kind, v = _im_close(state)
    if kind == "abs":
        return ("abs", M.amap(v, round_pt))
    return ("exp", M.map_expanded(v, round_pt))


def _no_cubic_abs(state):
    kind, v = state
    if kind == "abs":
        return not any(c[0] == "c" and any(s[0] == "C" for s in c[3]) for c in v)
    return not any(s[0] == "C" for _c, _s, segs in v for s in segs)


T_FLIP = (-1, 0, 0, 1, 12, 0)
T_HALF = (0.5, 0, 0, 0.5, 3, 0)

STAGES = [
    Stage("Recording", _rec_stage, lambda s: s),
    Stage("Seg>Point>Seg", lambda out: (SegmentToPointPen(PointToSegmentPen(out)), None), lambda s: s),
    Stage("Transform(flip)", _passthru(TransformPen, T_FLIP), _im_map(lambda p: M.affine(T_FLIP, p))),
    Stage("Transform(half)", _passthru(TransformPen, T_HALF), _im_map(lambda p: M.affine(T_HALF, p))),
    Stage("Reverse", _passthru(ReverseContourPen), _im_reverse),
    Stage("Reverse(oicl)", _passthru(ReverseContourPen, outputImpliedClosingLine=True), _im_reverse),
    Stage("Rounding", _passthru(RoundingPen), _im_map(round_pt)),
    Stage("ExplicitClosingLine", _passthru(ExplicitClosingLinePen), lambda s: s),
    Stage("TTGlyph", _tt_stage, _im_tt, accepts=_no_cubic_abs),
    Stage("T2CharString", _t2_stage, _im_t2),
    Stage("SVGPath", _svg_stage, lambda s: ("exp", M.expand(s[1])) if s[0] == "abs" else s),
]


def has_blob(state):
    kind, v = state
    return kind == "abs" and any(c[0] == "b" for c in v)


BUILDERS = ("TTGlyph", "T2CharString", "SVGPath")


def _run_stages(stages, calls, rec=None):
    out = M.SegRec()
    pens = []
    sink = out
    for st in reversed(stages):
        pen, fin = st.make(sink)
        pens.append((pen, fin))
        sink = pen
    n = M.feed_seg(calls, sink)
    if rec is not None:
        rec.transition(n)
    for _pen, fin in reversed(pens):
        if fin:
            fin()
    return out.calls


def _pair_compare(out_calls, want_state, stages):
    """None when the calls denote the geometry of want_state, else (message, got, want)"""
    oc, _ = M.interp_seg(out_calls)
    kind, v = want_state
    want = M.expand(v) if kind == "abs" else v
    builder = any(x.name in BUILDERS for x in stages)
    elev = any(x.name == "T2CharString" for x in stages)
    got = M.expand(oc, elevate=elev)
    if elev:
        want = [(c, s, [M._elev(x) for x in segs]) for c, s, segs in want]
    a = canon(got, not builder)
    b = canon(want, not builder)
    msg = geom.contours_close(a, b, TOL)
    return None if msg is None else (msg, a, b)


def check_pairs_glyph(calls, rec, case, _collect=False):
    contours, comps = M.interp_seg(calls)
    if comps:
        return []
    ctx = Ctx(calls, contours, comps)
    R = Run(rec, case, ctx)
    s0 = ("abs", contours)
    tt_calls_ok = not any(c[0] == "C" and len(c) > 2 for c in calls)

    def attempt(stages, in_calls, want_state, count=None):
        """-> None | (kind, message, observed, expected)"""
        try:
            out = _run_stages(stages, in_calls, count)
            bad = _pair_compare(out, want_state, stages)
        except M.ProtocolError as e:
            return ("invalid-output", "invalid pen call sequence downstream: %s" % e, None, None)
        except Exception as e:  # noqa: BLE001
            kind, text = exc_kind(e)
            return (kind, text, None, None)
        if bad is None:
            return None
        return ("geometry", "output differs from the (composed) documented image: %s" % bad[0], bad[1], bad[2])

    for A in STAGES:
        if A.accepts and not A.accepts(s0):
            continue
        if A.name == "TTGlyph" and not tt_calls_ok:
            continue
        sA = A.image(s0)
        for B in STAGES:
            if B.accepts and not B.accepts(sA):
                continue
            if B.name == "TTGlyph" and not tt_calls_ok:
                continue
            name = "%s>%s" % (A.name, B.name)
            rec.trace(1)
            rec.witness("pair:" + name)
            sAB = B.image(sA)
            fail = attempt([A, B], calls, sAB, rec)
            if fail is None:
                continue
            # attribute the failure to the stage that fails alone on what it was given, and
            # classify by the shape of *that* stage's input
            failA = attempt([A], calls, sA)
            if failA is not None:
                R.bad("pair-stage:" + A.name, failA[0], "(in %s) %s" % (name, failA[1]), failA[2], failA[3])
                continue
            midcalls = _run_stages([A], calls)
            tagB = ftag(seg_flags(*M.interp_seg(midcalls)))
            failB = attempt([B], midcalls, sAB)
            if failB is not None:
                R.bad("pair-stage:" + B.name, failB[0], "(in %s, fed with %r) %s" % (name, midcalls, failB[1]), failB[2], failB[3], tag=tagB)
                continue
            R.bad("pair:" + name, "interaction:" + fail[0], "each stage alone is right, the pipeline is not: %s" % fail[1], fail[2], fail[3])
    if _collect:
        return [(p[0], p[1]) for p in R.pending]
    R.flush(lambda part: check_pairs_glyph(part, Recorder("scratch"), case, True), split_contours(calls))


class Pairs(_Explore):
    name = "adapter-pairs"
    kind = "pairs"
    tiers = ("thorough",)
    rule = ("every ordered pair (A then B) of 11 segment-pen adapters (record/replay, seg>point>seg, 2 transforms, 2 reversals, rounding, explicit closing "
            "line, TrueType builder, CFF builder, SVG writer+parser) on every glyph without components of the segment grammar with a smaller point budget; "
            "oracle = composition of the two documented images; distinct = each call sequence")
    required_witnesses = tuple("pair:%s>%s" % (a.name, b.name) for a in STAGES for b in STAGES)

    def grammar(self, cfg):
        return seg_grammar(cfg)

    def check_glyph(self, calls, rec, case):
        check_pairs_glyph(calls, rec, case)


# ---------------------------------------------------------------------------------------------
# Transform algebra
def F(t):
    return tuple(Fraction(v) for v in t)


class TransformAlgebra(Unit):
    name = "transform-algebra"
    chunk = 4
    rule = ("every ordered pair (and triple in thorough) of the 6 dyadic transforms + 4 built by translate/scale/rotate/skew: transform()/reverseTransform() "
            "compose exactly as affine maps on a 5x5 point lattice (Fractions), inverse() inverts (exactly for dyadic determinants), transformPoint(s)/"
            "transformVector(s) agree with the definition, Identity/Offset/Scale/bool/len; distinct = each tuple of transforms")
    required_witnesses = ("exact inverse", "approximate inverse", "non-commuting pair")

    def tset(self):
        ts = [tuple(t) for t in TRANSFORMS]
        ts.append(tuple(Identity.translate(3, -5).scale(2, 0.5)))
        ts.append(tuple(Identity.rotate(math.pi / 2).translate(1, 2)))
        ts.append(tuple(Identity.rotate(math.pi / 6)))
        ts.append(tuple(Identity.skew(math.atan(0.5), 0).scale(-1, 1)))
        return ts

    def cases(self, tier, seed):
        n = len(self.tset())
        yield ["builders"]
        for i in range(n):
            for j in range(n):
                yield ["pair", i, j]
        if tier == "thorough":
            for i in range(n):
                for j in range(n):
                    for k in range(n):
                        yield ["triple", i, j, k]

    PTS = [(x, y) for x in (-12, 0, 1, 12, 24) for y in (-24, 0, 0.5, 12, 36)]

    def check(self, case, rec):
        ts = self.tset()
        rec.nontrivial()
        if case[0] == "builders":
            self.builders(rec)
            return
        idx = case[1:]
        chain = [ts[i] for i in idx]
        # self.transform(other): "transformed by another transformation": other applied first
        T = Transform(*chain[0])
        for t in chain[1:]:
            T = T.transform(t)
            rec.transition(1)
        want = F(chain[0])
        for t in chain[1:]:
            want = M.compose(want, F(t))
        exact = all(Fraction(v).denominator & (Fraction(v).denominator - 1) == 0 and Fraction(v).denominator < 2 ** 20 for t in chain for v in t)
        self.same(rec, "transform", tuple(T), want, exact, case)
        # reverseTransform: self applied first
        Rv = Transform(*chain[0])
        for t in chain[1:]:
            Rv = Rv.reverseTransform(t)
            rec.transition(1)
        want_r = F(chain[0])
        for t in chain[1:]:
            want_r = M.compose(F(t), want_r)
        self.same(rec, "reverseTransform", tuple(Rv), want_r, exact, case)
        if tuple(T) != tuple(Rv):
            rec.witness("non-commuting pair")
        # points and vectors
        for p in self.PTS:
            got = T.transformPoint(p)
            w = M.affine(want, (Fraction(p[0]), Fraction(p[1])))
            if not self.close(got, w, exact):
                rec.violation("transform:transformPoint", "T=%r p=%r -> %r expected %r" % (tuple(T), p, got, w), case=case)
                break
            gv = T.transformVector(p)
            wv = M.affine(want[:4] + (0, 0), (Fraction(p[0]), Fraction(p[1])))
            if not self.close(gv, wv, exact):
                rec.violation("transform:transformVector", "T=%r v=%r -> %r expected %r" % (tuple(T), p, gv, wv), case=case)
                break
        if [tuple(q) for q in T.transformPoints(self.PTS)] != [tuple(T.transformPoint(p)) for p in self.PTS]:
            rec.violation("transform:transformPoints", "transformPoints differs from transformPoint", case=case)
        if [tuple(q) for q in T.transformVectors(self.PTS)] != [tuple(T.transformVector(p)) for p in self.PTS]:
            rec.violation("transform:transformVectors", "transformVectors differs from transformVector", case=case)
        # inverse
        d = M.det(want)
        if d != 0:
            inv = T.inverse()
            rec.transition(1)
            dexact = exact and d.denominator & (d.denominator - 1) == 0 and d.numerator in (1, -1, 2, -2, 4, -4, 8, -8)
            rec.witness("exact inverse" if dexact else "approximate inverse")
            for nm, comp in (("inverse-left", inv.transform(T)), ("inverse-right", T.transform(inv))):
                if not self.close6(tuple(comp), F((1, 0, 0, 1, 0, 0)), dexact, scale=self.mag(want)):
                    rec.violation("transform:" + nm, "T=%r inverse=%r composition=%r" % (tuple(T), tuple(inv), tuple(comp)), case=case)
            for p in self.PTS:
                q = inv.transformPoint(T.transformPoint(p))
                if abs(q[0] - p[0]) > 1e-7 or abs(q[1] - p[1]) > 1e-7:
                    rec.violation("transform:inverse-point", "T=%r p=%r -> back %r" % (tuple(T), p, q), case=case)
                    break
            if tuple(inv.inverse()) != tuple(T) and not self.close6(tuple(inv.inverse()), want, False, scale=self.mag(want)):
                rec.violation("transform:inverse-inverse", "T=%r" % (tuple(T),), case=case)

    @staticmethod
    def mag(t):
        return max(1.0, max(abs(float(v)) for v in t))

    @staticmethod
    def close(got, want, exact):
        if exact:
            return Fraction(got[0]) == want[0] and Fraction(got[1]) == want[1]
        return abs(got[0] - float(want[0])) <= 1e-7 * max(1, abs(float(want[0]))) and abs(got[1] - float(want[1])) <= 1e-7 * max(1, abs(float(want[1])))

    def close6(self, got, want, exact, scale=1.0):
        if exact:
            return all(Fraction(g) == w for g, w in zip(got, want))
        return all(abs(g - float(w)) <= 1e-9 * scale * scale for g, w in zip(got, want))

    def same(self, rec, what, got, want, exact, case):
        if not self.close6(got, want, exact, scale=self.mag(want)):
            rec.violation("transform:" + what, "%s: got %r expected %r" % (what, got, tuple(float(v) for v in want)), case=case)

    def builders(self, rec):
        I = Transform()
        checks = [
            ("identity", tuple(I), (1, 0, 0, 1, 0, 0)),
            ("Identity", tuple(Identity), (1, 0, 0, 1, 0, 0)),
            ("Offset", tuple(Offset(2, 3)), (1, 0, 0, 1, 2, 3)),
            ("Scale", tuple(Scale(2, 3)), (2, 0, 0, 3, 0, 0)),
            ("Scale1", tuple(Scale(2)), (2, 0, 0, 2, 0, 0)),
            ("translate", tuple(I.translate(20, 30)), (1, 0, 0, 1, 20, 30)),
            ("scale", tuple(I.scale(5, 6)), (5, 0, 0, 6, 0, 0)),
            ("scale1", tuple(I.scale(5)), (5, 0, 0, 5, 0, 0)),
            ("rotate90", tuple(I.rotate(math.pi / 2)), (0, 1, -1, 0, 0, 0)),
            ("rotate180", tuple(I.rotate(math.pi)), (-1, 0, 0, -1, 0, 0)),
            ("rotate270", tuple(I.rotate(-math.pi / 2)), (0, -1, 1, 0, 0, 0)),
            ("translate-then-scale", tuple(I.translate(2, 3).scale(4, 5)), (4, 0, 0, 5, 2, 3)),
            ("scale-then-translate", tuple(I.scale(4, 5).translate(2, 3)), (4, 0, 0, 5, 8, 15)),
        ]
        for nm, got, want in checks:
            rec.transition(1)
            if tuple(got) != tuple(want):
                rec.violation("transform:builder:" + nm, "%s gives %r expected %r" % (nm, got, want), case=["builders"])
        r30 = I.rotate(math.pi / 6)
        c, s = math.sqrt(3) / 2, 0.5
        if any(abs(a - b) > 1e-12 for a, b in zip(r30, (c, s, -s, c, 0, 0))):
            rec.violation("transform:builder:rotate30", "rotate(pi/6) gives %r" % (tuple(r30),), case=["builders"])
        sk = I.skew(math.atan(0.5), math.atan(0.25))
        if any(abs(a - b) > 1e-12 for a, b in zip(sk, (1, 0.25, 0.5, 1, 0, 0))):
            rec.violation("transform:builder:skew", "skew gives %r" % (tuple(sk),), case=["builders"])
        if bool(Identity) or not bool(Scale(2)) or bool(Offset(0)) or len(Identity) != 6:
            rec.violation("transform:builder:bool", "truth value / length of transforms", case=["builders"])
        if Transform(2, 0, 0, 3, 1, 6).transform((4, 3, 2, 1, 5, 6)) != (8, 9, 4, 3, 11, 24):
            rec.violation("transform:builder:doc-example", "documented example of transform()", case=["builders"])
        rec.witness("builders checked")


# ---------------------------------------------------------------------------------------------
# BasePen decomposition against the B-spline definition
class _SegCollector(_basePen.BasePen):
    def __init__(self):
        super().__init__(None)
        self.segs = []
        self.pt = None

    def _moveTo(self, pt):
        self.pt = pt

    def _lineTo(self, pt):
        self.segs.append(("L", self.pt, pt))
        self.pt = pt

    def _curveToOne(self, a, b, c):
        self.segs.append(("C", self.pt, a, b, c))
        self.pt = c

    def _qCurveToOne(self, a, b):
        self.segs.append(("Q", self.pt, a, b))
        self.pt = b


_BASIS = {}


def bspline_weights(m, u):
    """Cox-de Boor basis values N_i,3(u), i = 0..m, of the clamped uniform cubic B-spline with
    m+1 control points (knots 0,0,0,0,1,..,s-1,s,s,s,s with s = m-2 spans); exact Fractions"""
    key = (m, u)
    if key in _BASIS:
        return _BASIS[key]
    s = m - 2
    knots = [Fraction(0)] * 4 + [Fraction(i) for i in range(1, s)] + [Fraction(s)] * 4

    def N(i, k):
        if k == 0:
            if knots[i] <= u < knots[i + 1] or (u == s and knots[i] < knots[i + 1] == s):
                return Fraction(1)
            return Fraction(0)
        a = b = Fraction(0)
        if knots[i + k] != knots[i]:
            a = (u - knots[i]) / (knots[i + k] - knots[i]) * N(i, k - 1)
        if knots[i + k + 1] != knots[i + 1]:
            b = (knots[i + k + 1] - u) / (knots[i + k + 1] - knots[i + 1]) * N(i + 1, k - 1)
        return a + b

    w = [N(i, 3) for i in range(m + 1)]
    assert sum(w) == 1
    _BASIS[key] = w
    return w


def bspline_point(ctrl, u):
    w = bspline_weights(len(ctrl) - 1, u)
    return (sum(wi * Fraction(p[0]) for wi, p in zip(w, ctrl)), sum(wi * Fraction(p[1]) for wi, p in zip(w, ctrl)))


def bezier_point(seg, t):
    pts = [(Fraction(p[0]), Fraction(p[1])) for p in seg[1:]]
    while len(pts) > 1:
        pts = [((1 - t) * a[0] + t * b[0], (1 - t) * a[1] + t * b[1]) for a, b in zip(pts, pts[1:])]
    return pts[0]


class BasePenDecomposition(Unit):
    name = "basepen-decomposition"
    chunk = 1
    rule = ("BasePen.curveTo with n = 2..5 (6 in thorough) off-curves and qCurveTo with as many (incl. the no-on-curve form) over all point tuples of a 3-point lattice "
            "(4-point lattice up to n = 4 in thorough): the cubic pieces equal the clamped uniform cubic B-spline of the control polygon evaluated by the "
            "Cox-de Boor recursion at 5 parameters per span (exact Fractions, tolerance 1e-9 for float thirds); quadratic pieces split at the midpoints of "
            "consecutive off-curves; decomposeSuperBezierSegment/decomposeQuadraticSegment agree with the pen; distinct = each (kind, point tuple)")
    required_witnesses = ("super-bezier with interior thirds", "no on-curve quadratic")

    def cases(self, tier, seed):
        lat = LATTICES3[seed % len(LATTICES3)]
        lats = [lat]
        if tier == "thorough":
            lats.append(lat + [LATTICE4_EXTRA[seed % len(LATTICE4_EXTRA)]])
        for li, la in enumerate(lats):
            maxn = (5 if tier == "quick" else 6) if len(la) == 3 else 4
            for n in range(1, maxn + 1):
                for head in itertools.product(la, repeat=2):
                    yield {"lat": la, "n": n, "head": [list(p) for p in head]}

    def check(self, case, rec):
        la = [tuple(p) for p in case["lat"]]
        n = case["n"]
        start, first = [tuple(p) for p in case["head"]]
        cnt = 0
        for rest in itertools.product(la, repeat=n):
            offs = (first,) + rest[:-1]
            end = rest[-1]
            cnt += 1
            # cubic side (n >= 2 off-curves)
            if n >= 2:
                pen = _SegCollector()
                pen.moveTo(start)
                pen.curveTo(*offs, end)
                rec.transition(2)
                self.cubic(rec, start, offs, end, pen.segs, case)
                if pen._getCurrentPoint() != end:
                    rec.violation("basepen:current-point", "current point %r after curveTo ending at %r" % (pen._getCurrentPoint(), end), case=case)
                if n >= 3:
                    direct = _basePen.decomposeSuperBezierSegment(offs + (end,))
                    if [("C", None) + tuple(s) for s in direct] != [("C", None) + s[2:] for s in pen.segs]:
                        rec.violation("basepen:decomposeSuperBezierSegment", "function and pen disagree", case=case)
                if n >= 4:
                    rec.witness("super-bezier with interior thirds")
            # quadratic side
            pen = _SegCollector()
            pen.moveTo(start)
            pen.qCurveTo(*offs, end)
            rec.transition(2)
            self.quad(rec, start, offs, end, pen.segs, case)
            # no on-curve point: offs + end are all off-curve
            pen = _SegCollector()
            allo = offs + (end,)
            pen.qCurveTo(*allo, None)
            rec.transition(1)
            s0 = M.mid(allo[-1], allo[0])
            self.quad(rec, s0, allo, s0, pen.segs, case, what="blob")
            rec.witness("no on-curve quadratic")
        rec.evals(cnt - 1)
        rec.nontrivial_n(cnt)

    def cubic(self, rec, start, offs, end, segs, case):
        n = len(offs)
        if len(segs) != n - 1 or any(s[0] != "C" for s in segs):
            rec.violation("basepen:superbezier:count", "%d off-curves gave %d segments" % (n, len(segs)), case=case, observed=segs)
            return
        ctrl = [start] + list(offs) + [end]
        for r, seg in enumerate(segs):
            for k in range(5):
                t = Fraction(k, 4)
                want = bspline_point(ctrl, r + t)
                got = bezier_point(seg, t)
                if abs(got[0] - want[0]) > Fraction(1, 10 ** 9) or abs(got[1] - want[1]) > Fraction(1, 10 ** 9):
                    rec.violation("basepen:superbezier:curve", "start %r offs %r end %r: piece %d at t=%s is %r, B-spline %r" % (start, offs, end, r, t, (float(got[0]), float(got[1])), (float(want[0]), float(want[1]))), case=case, observed=segs)
                    return
        # model used by the exploration units agrees as well
        mine = M.superbezier(start, offs, end) if n > 2 else [("C", start) + tuple(offs) + (end,)]
        msg = geom.contours_close(canon([(False, start, list(segs))], True), canon([(False, start, mine)], True), 1e-9)
        if msg:
            rec.violation("basepen:superbezier:blossom", "blossoming and BasePen disagree: %s" % msg, case=case)

    def quad(self, rec, start, offs, end, segs, case, what="qcurve"):
        want = []
        p0 = start
        for i in range(len(offs) - 1):
            m = (Fraction(offs[i][0] + offs[i + 1][0], 2), Fraction(offs[i][1] + offs[i + 1][1], 2))
            want.append(("Q", p0, offs[i], m))
            p0 = m
        want.append(("Q", p0, offs[-1], end))
        ok = len(want) == len(segs)
        if ok:
            for w, g in zip(want, segs):
                for a, b in zip(w[1:], g[1:]):
                    if Fraction(a[0]) != Fraction(b[0]) or Fraction(a[1]) != Fraction(b[1]):
                        ok = False
        if not ok:
            rec.violation("basepen:%s:implied-points" % what, "start %r offs %r end %r" % (start, offs, end), case=case, observed=segs, expected=want)


# ---------------------------------------------------------------------------------------------
class ImpliedMidpoints(Unit):
    """TrueType on-curve points that are (or nearly are) the midpoint of their off-curve
    neighbours: the lattices above only hold multiples of 12, whose midpoints are integers."""

    name = "tt-implied-midpoints"
    rule = ("closed quadratic contours A(on) B(off) M(on) C(off) [D(off)] with B, C over {0,1}^2-offsets of (0,0)/(100,100) (even and odd coordinate sums, both signs) and "
            "M over {floor, ceil, exact, +1} of the midpoint of B and C in each coordinate (and the same for a second candidate between C and D): through TTGlyphPen and TTGlyphPointPen, "
            "glyph(dropImpliedOnCurves in {False, True}), drawn back with draw and drawPoints: the quadratic segments (implied points made explicit) equal the input exactly; "
            "a point is dropped iff it is exactly the midpoint; distinct = each contour")
    chunk = 64
    required_witnesses = ("implied on-curve point dropped", "on-curve at the rounded midpoint of an odd sum kept", "two candidates in one contour")

    def cases(self, tier, seed):
        offs = [(0, 0), (1, 0), (0, 1), (1, 1)]
        for sx, sy in ((1, 1), (-1, 1), (1, -1)):
            for bo in offs:
                for co in offs:
                    B = (sx * bo[0], sy * bo[1])
                    C = (sx * (100 + co[0]), sy * (100 + co[1]))
                    for mx in (0, 1, 2, 3):
                        for my in (0, 1, 2, 3):
                            yield [B, C, [mx, my], None]
                            if tier != "quick" or (mx + my) % 2 == 0:
                                yield [B, C, [mx, my], [(mx + 1) % 4, my]]

    @staticmethod
    def pick(lo, hi, k):
        """k-th candidate for one coordinate of the point between lo and hi"""
        s = lo + hi
        return [math.floor(s / 2), math.ceil(s / 2), s // 2 if s % 2 == 0 else math.floor(s / 2) - 1, math.floor(s / 2) + 1][k] if k != 2 else (s // 2 if s % 2 == 0 else math.floor(s / 2) - 1)

    @staticmethod
    def explicit(points):
        """[(x, y, on)] closed TrueType contour -> quadratic/line segments with implied on-curve points
        made explicit, rotated to start at the smallest on-curve point"""
        n = len(points)
        pts = []
        for i, (x, y, on) in enumerate(points):
            pts.append((float(x), float(y), on))
            nx = points[(i + 1) % n]
            if not on and not nx[2]:
                pts.append(((x + nx[0]) / 2.0, (y + nx[1]) / 2.0, True))
        ons = [i for i, p in enumerate(pts) if p[2]]
        start = min(ons, key=lambda i: (pts[i][0], pts[i][1], i))
        pts = pts[start:] + pts[:start]
        segs, i, m = [], 0, len(pts)
        while i < m:
            a = pts[i]
            b = pts[(i + 1) % m]
            if b[2]:
                segs.append(("L", a[:2], b[:2]))
                i += 1
            else:
                c = pts[(i + 2) % m]
                segs.append(("Q", a[:2], b[:2], c[:2]))
                i += 2
        return segs

    def check(self, case, rec):
        from fontTools.pens.recordingPen import RecordingPointPen

        B, C, mk, dk = case
        B, C = tuple(B), tuple(C)
        A = (50, -60)
        M1 = (self.pick(B[0], C[0], mk[0]), self.pick(B[1], C[1], mk[1]))
        contour = [(A[0], A[1], True), (B[0], B[1], False), (M1[0], M1[1], True), (C[0], C[1], False)]
        mids = [(B, M1, C)]
        if dk is not None:
            D = (C[0] + 60, C[1] - 31)
            M2 = (self.pick(C[0], D[0], dk[0]), self.pick(C[1], D[1], dk[1]))
            contour += [(M2[0], M2[1], True), (D[0], D[1], False)]
            mids.append((C, M2, D))
            rec.witness("two candidates in one contour")
        want = self.explicit(contour)
        exact = [p[0] + r[0] == 2 * q[0] and p[1] + r[1] == 2 * q[1] for p, q, r in mids]
        for p, q, r in mids:
            if (p[0] + r[0]) % 2 and q[0] in (math.floor((p[0] + r[0]) / 2), math.ceil((p[0] + r[0]) / 2)):
                rec.witness("on-curve at the rounded midpoint of an odd sum kept")
        for penname in ("TTGlyphPen", "TTGlyphPointPen"):
            for drop in (False, True):
                if penname == "TTGlyphPen":
                    pen = TTGlyphPen(None)
                    pen.moveTo(A)
                    pen.qCurveTo(B, M1)
                    if dk is None:
                        pen.qCurveTo(C, A)
                    else:
                        pen.qCurveTo(C, M2)
                        pen.qCurveTo(D, A)
                    pen.closePath()
                else:
                    pen = TTGlyphPointPen(None)
                    pen.beginPath()
                    for x, y, on in contour:
                        pen.addPoint((x, y), "qcurve" if on else None)
                    pen.endPath()
                glyph = pen.glyph(dropImpliedOnCurves=drop)
                rp = RecordingPointPen()
                glyph.drawPoints(rp, None)
                got_pts = [(a[0][0], a[0][1], a[1] is not None) for op, a, _k in rp.value if op == "addPoint"]
                got = self.explicit(got_pts)
                nm = "%s(dropImplied=%s)" % (penname, drop)
                if got != want:
                    rec.violation("implied-midpoint:%s:geometry:%s" % (nm, "exact-midpoint" if any(exact) else "near-midpoint"),
                                  "contour %s comes back as %s: segments %s, expected %s" % (contour, got_pts, got, want), observed=got, expected=want)
                ndropped = len(contour) - len(got_pts)
                if drop and ndropped != sum(exact):
                    rec.violation("implied-midpoint:%s:dropped-count" % nm, "contour %s: %d point(s) dropped, %d are exact midpoints" % (contour, ndropped, sum(exact)))
                if not drop and ndropped:
                    rec.violation("implied-midpoint:%s:dropped-without-request" % nm, "contour %s lost %d point(s)" % (contour, ndropped))
                if drop and ndropped:
                    rec.witness("implied on-curve point dropped")
                # the segment protocol draws the same thing
                rec2 = RecordingPen()
                glyph.draw(rec2, None)
                rec.evals(1)
        rec.nontrivial()


def units():
    return [SegPens(), PointPens(), Pairs(), TransformAlgebra(), BasePenDecomposition(), ImpliedMidpoints()]
