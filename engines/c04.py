"""C04 - every saved file is a valid container with consistent derived fields.

E1 (model checking of the writer protocol): SFNTWriter / WOFF / WOFF2 writers are driven directly
with every insertion order of small tag sets and payload lengths around the padding and
checksum-block boundaries, with protocol errors, and TTCollection.save over small member
tuples.  E2: every corpus / generated font x save configuration.  The oracle is
`oracles.otspec`, an independent reader of the container formats and of the derived tables.
"""
from mc import env  # noqa: F401
from mc.kernel import Unit, h64

import io
import itertools
import struct

from fontTools.ttLib import TTFont, TTLibError, newTable
from fontTools.ttLib.sfnt import SFNTWriter, WOFFFlavorData
from fontTools.ttLib.ttCollection import TTCollection
from fontTools.ttLib.woff2 import WOFF2FlavorData

from oracles import corpus, tinyfont, otspec

LEVEL = "model_checking"
ASSUMPTIONS = [
    "oracle = oracles/otspec.py (OpenType 1.9 sfnt/TTC/head/hhea/vhea/maxp/hmtx/loca/glyf, WOFF 1.0, WOFF2) written without fontTools; zlib/brotli/struct are trusted",
    "derived fields are demanded only where fontTools documents a recalculation: recalcBBoxes=True and the glyph tables decoded (E2 decodes head, maxp, hhea, vhea, hmtx, vmtx, loca, glyf, CFF/CFF2 before saving); with recalcBBoxes=False only structural consistency (numGlyphs, metric counts, loca/glyf, indexToLocFormat) is demanded",
    "composite bounding boxes: all flattened points in exact rational arithmetic, rounded half up; component offsets with SCALED_COMPONENT_OFFSET are transformed by the whole 2x2 matrix (HarfBuzz reading of the flag)",
    "head.checkSumAdjustment is not demanded inside a TTC (the specification declares it void there) nor for a WOFF2 whose glyf is transformed (a decoder must recompute it); it is demanded for sfnt, WOFF and untransformed WOFF2",
    "CFF/CFF2: only numGlyphs, metric counts and advanceWidthMax/advanceHeightMax are recomputed; FontBBox and the side-bearing minima of CFF fonts are not",
    "pipeline outputs (subset, instancer, varLib.build, merge) are not re-enumerated here: E2 covers the corpus, the fonts compiled from corpus TTX and generated fonts",
]

TAGS = ["head", "glyf", "loca", "a   ", "zzzz", "OS/2", "DSIG"]
L_FULL = (0, 1, 2, 3, 4, 5, 4095, 4096, 4097)
TT = "\x00\x01\x00\x00"

_REAL = {}


def real_tables():
    """Tables of a generated TrueType font (for the WOFF2 transforms, which decode them)."""
    if not _REAL:
        f = tinyfont.build(tinyfont.pool()["ttf-mixed"])
        c = otspec.parse_container(tinyfont.to_bytes(f))
        _REAL.update(c.tables)
    return _REAL


_PAYLOADS = {}


def payload(tag, n):
    """n deterministic non-zero bytes (so that padding can be told from content); a pure
    function of (tag, n), memoised."""
    k = (tag, n)
    if k not in _PAYLOADS:
        s = sum(tag.encode("latin-1"))
        _PAYLOADS[k] = bytes(((i * 37 + s) % 251) + 1 for i in range(n))
    return _PAYLOADS[k]


def head_payload(n, exact=False):
    """A head table: the real 54 bytes, followed by filler when a longer table is asked for
    (lengths below 12 would make the adjustment land outside the table: caller misuse)."""
    h = real_tables()["head"]
    h = h[:8] + b"\xde\xad\xbe\xef" + h[12:]  # stale adjustment that must be overwritten
    if exact:
        return h
    if n < 12:
        n = 54 + n
    return (h + payload("head", max(0, n - 54)))[:n] if n >= 54 else h[:n]


def mask_head(d):
    return otspec.zero_head_adjust(d)


def canon_fkey(flavor, code):
    return "container:%s:%s" % (flavor, code)


def report_problems(rec, c, ctx, flavor=None, suffix=""):
    seen = set()
    for p in c.problems:
        code = p.split(":", 1)[0]
        if code in seen:
            continue
        seen.add(code)
        rec.violation(canon_fkey(flavor or c.flavor, code) + suffix, "%s: otspec: %s" % (ctx, p))
    return not c.problems


# =============================================================================== E1 protocol
def menu(flavor, nfree, tier):
    if tier == "quick":
        return L_FULL if nfree <= 2 else (0, 1, 4, 4097) if nfree == 3 else (3, 4096)
    if flavor == "woff2n":  # brotli makes every evaluation ~5x dearer
        return L_FULL if nfree <= 2 else (0, 1, 4, 5, 4097)
    return L_FULL if nfree <= 3 else (0, 1, 4, 4097)


def make_flavor_data(flavor, kind):
    if kind in (None, "none"):
        fd = None
    else:
        fd = WOFFFlavorData()
        if "meta" in kind:
            fd.metaData = b'<?xml version="1.0" encoding="UTF-8"?><metadata version="1.0"><uniqueid id="org.verif.c04"/></metadata>'
            if kind.startswith("meta3"):
                fd.metaData += b"<!--x-->"
        if "priv" in kind:
            fd.privData = payload("priv", int(kind.rsplit("priv", 1)[1]))
        if "ver" in kind:
            fd.majorVersion, fd.minorVersion = 3, 7
    return fd


FD_KINDS = ("meta", "priv1", "priv4", "meta+priv5", "meta3+priv3", "ver", "ver+meta+priv2")


class WriterProtocol(Unit):
    name = "writer-protocol"
    rule = ("SFNTWriter as a protocol machine: state = (flavour, set of tags written, next data offset); ops writer[tag]=data, close. All tag sets of size <=4 over {head,glyf,loca,'a   ','zzzz',OS/2,DSIG}, every insertion order, "
            "payload lengths from {0,1,2,3,4,5,4095,4096,4097} (full product for <=2 (quick) / <=3 (thorough; woff2 <=2) free tables, reduced menus {0,1,4,4097}/{3,4096} beyond), flavour in {sfnt, woff, woff2 without transform (arbitrary payloads, real head), woff2 with glyf/loca(/hmtx) transform over real tables}, "
            "sfntVersion in {TrueType, OTTO}, WOFF metadata/private/version blocks; protocol errors (tag written twice, numTables +-1, woff2 without head) must raise TTLibError and leave the writer usable. "
            "Oracle: otspec reads the bytes without any problem (order, alignment, zero padding, no gaps/overlaps, checksums, whole-file checkSumAdjustment, search fields, WOFF/WOFF2 header arithmetic and block rules), tables read back equal what was written, data blocks are in insertion order (sorted for woff2), sfnt offsets equal the model's. distinct = (flavour, sequence, lengths)")
    chunk = 6
    required_witnesses = ("sfnt file", "woff file", "woff2 file", "woff2 transformed glyf", "woff2 transformed hmtx", "zlib-compressed table", "stored uncompressed table",
                          "payload crosses 4096-byte checksum block", "padding 1", "padding 2", "padding 3", "empty table", "head not first in file",
                          "duplicate tag rejected", "wrong table count rejected", "DSIG dropped by woff2", "metadata block", "private block", "unknown tag (woff2 explicit tag)", "OTTO")

    def setup(self, tier, seed):
        real_tables()

    def bounds(self, tier, seed):
        return {"tags": TAGS, "max_set_size": 4, "lengths": list(L_FULL), "flavours": ["sfnt", "woff", "woff2-null-transform", "woff2-transform"], "flavor_data": list(FD_KINDS)}

    def cases(self, tier, seed):
        for flavor in ("sfnt", "woff", "woff2n"):
            for k in range(0, 5):
                for combo in itertools.combinations(TAGS, k):
                    for perm in itertools.permutations(combo):
                        nfree = k - (1 if flavor == "woff2n" and "head" in perm else 0)
                        if flavor == "woff2n" and "head" not in perm:
                            if k:
                                yield {"fl": flavor, "seq": list(perm), "mode": "nohead"}
                            continue
                        yield {"fl": flavor, "seq": list(perm), "mode": "lens", "menu": list(menu(flavor, nfree, tier))}
                        if k:
                            yield {"fl": flavor, "seq": list(perm), "mode": "errors"}
                        if k <= 2:
                            yield {"fl": flavor, "seq": list(perm), "mode": "lens", "menu": [1, 4], "otto": 1}
        # flavour data blocks
        for flavor in ("woff", "woff2n", "woff2t"):
            for kind in FD_KINDS:
                for seq in (["head"], ["a   ", "head"], ["head", "zzzz", "DSIG"]):
                    if flavor == "woff2t":
                        seq = ["head", "maxp", "glyf", "loca"] + [t for t in seq if t != "head"]
                    yield {"fl": flavor, "seq": seq, "mode": "lens", "menu": [1, 4] if tier == "quick" else [0, 1, 3, 4, 4097], "fd": kind}
        # woff2 with the glyf/loca transform: real head/maxp/glyf/loca + extra opaque tables
        base = ["head", "maxp", "glyf", "loca"]
        extras = ["a   ", "zzzz", "OS/2", "DSIG"]
        m = [0, 5] if tier == "quick" else list(L_FULL)
        for perm in itertools.permutations(base):
            yield {"fl": "woff2t", "seq": list(perm), "mode": "lens", "menu": [0]}
        for e in extras:
            for perm in itertools.permutations(base + [e]):
                yield {"fl": "woff2t", "seq": list(perm), "mode": "lens", "menu": m}
        for e1, e2 in itertools.permutations(extras, 2):
            for i, j in itertools.combinations(range(6), 2):
                seq = list(base)
                seq.insert(i, e1)
                seq.insert(j, e2)
                yield {"fl": "woff2t", "seq": seq, "mode": "lens", "menu": m if tier == "quick" else [0, 1, 4, 4097]}
        yield {"fl": "woff2t", "seq": base + ["DSIG"], "mode": "errors"}
        # woff2 with the hmtx transform as well
        base6 = ["head", "hhea", "maxp", "hmtx", "glyf", "loca"]
        for r in range(6):
            yield {"fl": "woff2th", "seq": base6[r:] + base6[:r], "mode": "lens", "menu": [0]}
            yield {"fl": "woff2th", "seq": list(reversed(base6[r:] + base6[:r])) + ["zzzz"], "mode": "lens", "menu": [0, 3]}

    # ----------------------------------------------------------------------------------
    def make_payload(self, flavor, tag, n):
        if flavor in ("woff2t", "woff2th") and tag in ("head", "hhea", "maxp", "hmtx", "glyf", "loca"):
            return head_payload(54, exact=True) if tag == "head" else real_tables()[tag]
        if tag == "head":
            return head_payload(n, exact=flavor.startswith("woff2"))
        return payload(tag, n)

    def new_writer(self, buf, flavor, n, otto, fd_kind):
        fd = make_flavor_data(flavor, fd_kind)
        if flavor == "woff2n":
            fd = WOFF2FlavorData(data=fd, transformedTables=[])
        elif flavor == "woff2th":
            fd = WOFF2FlavorData(data=fd, transformedTables=["glyf", "loca", "hmtx"])
        arg = {"sfnt": None, "woff": "woff"}.get(flavor, "woff2")
        return SFNTWriter(buf, n, "OTTO" if otto else TT, arg, fd)

    def write(self, rec, flavor, items, n=None, otto=False, fd_kind=None, dup=None):
        """Run the protocol; returns the bytes.  `dup` = index of an item that is written a
        second time (must raise TTLibError and change nothing)."""
        buf = io.BytesIO()
        w = self.new_writer(buf, flavor, len(items) if n is None else n, otto, fd_kind)
        written = []
        rec.state([flavor, [], getattr(w, "nextTableOffset", None)])
        for i, (tag, data) in enumerate(items):
            w[tag] = data
            rec.transition()
            written.append(tag)
            rec.state([flavor, sorted(written), getattr(w, "nextTableOffset", None)])
            if flavor in ("sfnt", "woff") and len(buf.getvalue()) % 4:
                rec.violation("writer:unpadded-after-setitem", "%s after writer[%r] (%d bytes) the stream has %d bytes" % (flavor, tag, len(data), len(buf.getvalue())))
        if dup is not None:
            tag, data = items[dup]
            try:
                w[tag] = data
                rec.transition()
                accepted = True
            except TTLibError:
                rec.transition()
                rec.witness("duplicate tag rejected")
                accepted = False
            if accepted:
                # the error may also surface when the writer is closed
                try:
                    w.close()
                except TTLibError:
                    rec.transition()
                    rec.witness("duplicate tag rejected at close")
                    return None
                rec.violation("protocol:duplicate-tag-accepted:%s" % flavor[:5], "%s: writer[%r] assigned twice in %r and closed without TTLibError" % (flavor, tag, [t for t, _ in items]))
                return None
        w.close()
        rec.transition()
        rec.state([flavor, sorted(written), "closed"])
        return buf.getvalue()

    def validate(self, rec, flavor, items, out, otto, fd_kind, ctx):
        c = otspec.parse_container(out)
        kind = {"sfnt": "sfnt", "woff": "woff"}.get(flavor, "woff2")
        if c.flavor != kind:
            rec.violation("writer:wrong-signature", "%s: file reads as %s" % (ctx, c.flavor))
            return
        all_empty = all(len(d) == 0 for _t, d in items)
        ok = report_problems(rec, c, ctx, flavor, ":all-tables-empty" if all_empty else "")
        rec.witness(kind + " file")
        expect = dict(items)
        if kind == "woff2" and "DSIG" in expect:
            del expect["DSIG"]
            rec.witness("DSIG dropped by woff2")
        if c.sfnt_version != (b"OTTO" if otto else b"\x00\x01\x00\x00"):
            rec.violation("writer:sfnt-version", "%s: %r" % (ctx, c.sfnt_version))
        if otto:
            rec.witness("OTTO")
        if sorted(c.tables) != sorted(expect):
            rec.violation("writer:table-set", "%s: tables read back %r, written %r" % (ctx, sorted(c.tables), sorted(expect)))
            return
        transformed = {r.tag for r in c.records if r.transformed}
        for tag, data in expect.items():
            got = c.tables[tag]
            if tag == "head":
                got, data = mask_head(got), mask_head(data)
                if kind == "woff2" and len(data) >= 18:
                    data = data[:16] + struct.pack(">H", struct.unpack(">H", data[16:18])[0] | 0x0800) + data[18:]
                    if "glyf" in transformed and len(data) >= 54:
                        got, data = got[:50] + got[52:], data[:50] + data[52:]  # indexToLocFormat follows the normalised loca
            if tag in ("glyf", "loca") and "glyf" in transformed:
                continue
            if got != data:
                rec.violation("writer:table-bytes:%s" % ("head" if tag == "head" else "other"), "%s: table %r read back differs from what was written (%d vs %d bytes)" % (ctx, tag, len(got), len(data)))
        if "glyf" in transformed:
            rec.witness("woff2 transformed glyf")
            src = otspec.glyf_glyphs(real_tables())
            try:
                got = otspec.glyf_glyphs(c.tables)
                if [g.key() for g in got] != [g.key() for g in src]:
                    bad = [i for i, (a, b) in enumerate(zip(got, src)) if a.key() != b.key()]
                    rec.violation("woff2:glyf-content", "%s: glyphs %r decode differently from the glyf that was written" % (ctx, bad[:5]))
            except otspec.OTSpecError as e:
                rec.violation("woff2:glyf-content", "%s: %s" % (ctx, e))
        if "hmtx" in transformed:
            rec.witness("woff2 transformed hmtx")
        # a zero-length table has no position of its own
        order = [t for t, d in items if t in expect and (len(d) or kind == "woff2")]
        if kind == "woff2":
            order = sorted(order)
        if [t for t in c.physical if len(expect[t]) or kind == "woff2"] != order:
            rec.violation("writer:physical-order", "%s: data blocks %r, expected %r" % (ctx, c.physical, order))
        if kind == "sfnt" and ok:
            off = 12 + 16 * len(items)
            for tag, data in items:
                if c.spans.get(tag) != (off, len(data)):
                    rec.violation("writer:offset-model", "%s: table %r at %r, model says %r" % (ctx, tag, c.spans.get(tag), (off, len(data))))
                    break
                off += otspec.pad4(len(data))
            if len(out) != off:
                rec.violation("writer:offset-model", "%s: file has %d bytes, model says %d" % (ctx, len(out), off))
        if kind in ("woff", "woff2"):
            fd = make_flavor_data(flavor, fd_kind)
            ver = (c.header["majorVersion"], c.header["minorVersion"])
            if fd is not None and fd.majorVersion is not None:
                exp = (fd.majorVersion, fd.minorVersion)
            elif "head" in expect:
                exp = struct.unpack(">HH", expect["head"][4:8])
            else:
                exp = (0, 0)
            if ver != exp:
                rec.violation("writer:%s-version%s" % (kind, ":flavordata" if fd is not None and fd.majorVersion is not None else ""),
                              "%s: header version %r, expected %r (flavorData version, else head.fontRevision)" % (ctx, ver, exp))
            if c.meta != (fd.metaData if fd is not None else None):
                rec.violation("writer:%s-metadata" % kind, "%s: metadata read back %r" % (ctx, c.meta and c.meta[:30]))
            if c.private != (fd.privData if fd is not None else None):
                rec.violation("writer:%s-private" % kind, "%s: private data read back %r" % (ctx, c.private))
            if c.meta is not None:
                rec.witness("metadata block")
            if c.private is not None:
                rec.witness("private block")
        for r in c.records:
            if kind == "woff":
                rec.witness("zlib-compressed table" if r.length != r.orig_length else "stored uncompressed table")
            if kind == "woff2" and r.flags is not None and r.flags & 0x3F == 0x3F:
                rec.witness("unknown tag (woff2 explicit tag)")
        for tag, data in items:
            if len(data) == 0:
                rec.witness("empty table")
            elif len(data) % 4:
                rec.witness("padding %d" % (4 - len(data) % 4))
            if len(data) > 4096:
                rec.witness("payload crosses 4096-byte checksum block")
        if items and items[0][0] != "head" and "head" in expect:
            rec.witness("head not first in file")
        rec.outcome(h64(out))

    def check(self, case, rec):
        flavor, seq, mode = case["fl"], case["seq"], case["mode"]
        otto = bool(case.get("otto"))
        fd_kind = case.get("fd")
        if mode == "lens":
            fixed = {"head"} if flavor.startswith("woff2") else set()
            if flavor in ("woff2t", "woff2th"):
                fixed = {"head", "hhea", "maxp", "hmtx", "glyf", "loca"}
            free = [t for t in seq if t not in fixed]
            n = 0
            for lens in itertools.product(case["menu"], repeat=len(free)):
                ln = dict(zip(free, lens))
                items = [(t, self.make_payload(flavor, t, ln.get(t, 54))) for t in seq]
                ctx = "%s%s%s seq=%r lens=%r" % (flavor, " OTTO" if otto else "", " fd=" + fd_kind if fd_kind else "", seq, list(lens))
                out = self.write(rec, flavor, items, otto=otto, fd_kind=fd_kind)
                self.validate(rec, flavor, items, out, otto, fd_kind, ctx)
                rec.trace()
                n += 1
            rec.evals(n - 1)
            rec.nontrivial_n(n)
            return
        items = [(t, self.make_payload(flavor, t, 5)) for t in seq]
        if mode == "nohead":
            try:
                self.write(rec, flavor, items)
                rec.violation("protocol:woff2-without-head-accepted", "woff2 writer closed a font without head: %r" % seq)
            except TTLibError:
                rec.witness("woff2 without head rejected")
            rec.trace()
            rec.nontrivial()
            return
        # mode == errors
        good = self.write(rec, flavor, items)
        n = 1
        for j in range(len(items)):
            ctx = "%s seq=%r duplicate write of %r" % (flavor, seq, seq[j])
            try:
                out = self.write(rec, flavor, items, dup=j)
            except TTLibError as e:
                rec.violation("protocol:writer-unusable-after-rejected-duplicate", "%s: close() failed afterwards: %s" % (ctx, e))
                continue
            if out is not None and out != good:
                rec.violation("protocol:rejected-duplicate-changed-output", "%s: the file differs from the one written without the rejected call" % ctx)
            rec.trace()
            n += 1
        for delta in (1, -1):
            ctx = "%s seq=%r numTables=%d" % (flavor, seq, len(items) + delta)
            try:
                self.write(rec, flavor, items, n=len(items) + delta)
                rec.violation("protocol:wrong-count-accepted", "%s: close() accepted %d tables" % (ctx, len(items)))
            except TTLibError:
                rec.witness("wrong table count rejected")
            rec.trace()
            n += 1
        rec.evals(n - 1)
        rec.nontrivial_n(n)


# =============================================================================== E1 TTC
_MEMBERS = {}


def member_pool():
    if not _MEMBERS:
        P = tinyfont.pool()
        _MEMBERS["box"] = tinyfont.build_bytes(P["ttf-box"])
        f = tinyfont.build(P["ttf-box"])
        f["name"].setName("Tiny Two", 1, 3, 1, 0x409)
        _MEMBERS["box2"] = tinyfont.to_bytes(f)
        # same tables as box except that two hmtx records trade places: equal length, equal checksum (the
        # checksum is a sum of 32-bit words), different bytes
        f = tinyfont.build(P["ttf-box"])
        order = f.getGlyphOrder()
        m = f["hmtx"].metrics
        g1, g2 = [g for g in order if g != ".notdef"][:2]
        assert m[g1] != m[g2], (m[g1], m[g2])
        m[g1], m[g2] = m[g2], m[g1]
        _MEMBERS["boxswap"] = tinyfont.to_bytes(f)
        _MEMBERS["mixed"] = tinyfont.build_bytes(P["ttf-mixed"])
        _MEMBERS["cff"] = tinyfont.build_bytes(P["cff-mixed"])
        _MEMBERS["mark"] = tinyfont.build_bytes(P["ttf-mark"])
    return _MEMBERS


class TTCSave(Unit):
    name = "ttc-save"
    rule = ("TTCollection.save: every ordered tuple (repetition allowed) of 2 (quick: and 3 over 3 fonts; thorough: 3 over all 5) member fonts from {box, box with another name, box with two hmtx records swapped (same length and checksum), mixed+composite, CFF, mark} x shareTables in {True, False} x members decoded or not x TTC header version (1.0; 2.0 with empty / real DSIG). "
            "Oracle: otspec reads header, offsets and every member directory without problem (alignment, padding, no partial overlap, no gap, table checksums); every member's tables equal its stand-alone save; with shareTables byte-identical tables are stored once, without it no block is referenced twice. distinct = (members, options)")
    chunk = 4
    required_witnesses = ("table physically shared", "no table shared", "identical members share every table", "TTC v2 with DSIG", "TTC v2 empty DSIG", "3 members", "decoded members")

    def setup(self, tier, seed):
        member_pool()

    def bounds(self, tier, seed):
        return {"members": sorted(member_pool()), "tuple_len": [2, 3], "shareTables": [True, False], "dsig": ["absent", "None", "data"], "decoded": [False, True]}

    def cases(self, tier, seed):
        names = sorted(member_pool())
        three = names if tier == "thorough" else ["box", "box2", "cff"]
        tuples = list(itertools.product(names, repeat=2)) + list(itertools.product(three, repeat=3))
        for tup in tuples:
            for share in (1, 0):
                yield {"m": list(tup), "share": share, "dsig": "absent", "dec": 0}
                if tier == "thorough" or len(tup) == 2:
                    yield {"m": list(tup), "share": share, "dsig": "absent", "dec": 1}
        for tup in (("box", "box2"), ("mixed", "cff", "box")):
            for share in (1, 0):
                for dsig in ("None", "data"):
                    yield {"m": list(tup), "share": share, "dsig": dsig, "dec": 0}

    def open_member(self, name, dec):
        f = TTFont(io.BytesIO(member_pool()[name]))
        if dec:
            f.ensureDecompiled()
        return f

    def check(self, case, rec):
        names, share, dsig, dec = case["m"], bool(case["share"]), case["dsig"], case["dec"]
        coll = TTCollection()
        coll.fonts = [self.open_member(n, dec) for n in names]
        if dsig == "None":
            coll.dsig = None
        elif dsig == "data":
            t = newTable("DSIG")
            t.data = struct.pack(">LHH", 1, 0, 0) + b"\x01\x02\x03"
            coll.dsig = t
        buf = io.BytesIO()
        coll.save(buf, shareTables=share)
        rec.transition(len(names) + 1)
        out = buf.getvalue()
        ctx = "members=%r shareTables=%s dsig=%s decoded=%d" % (names, share, dsig, dec)
        c = otspec.parse_container(out)
        rec.state([names, share, dsig, dec])
        if c.flavor != "ttc":
            rec.violation("ttc:signature", "%s: reads as %s" % (ctx, c.flavor))
            return
        report_problems(rec, c, ctx)
        if len(c.fonts) != len(names):
            rec.violation("ttc:numFonts", "%s: %d members in the file" % (ctx, len(c.fonts)))
            return
        want_ver = 0x00010000 if dsig == "absent" else 0x00020000
        if c.header["version"] != want_ver:
            rec.violation("ttc:version", "%s: header version %08x" % (ctx, c.header["version"]))
        if dsig == "data":
            if c.header.get("dsig") != coll.dsig.data:
                rec.violation("ttc:dsig", "%s: DSIG block read back %r" % (ctx, c.header.get("dsig")))
            rec.witness("TTC v2 with DSIG")
        elif dsig == "None":
            if c.header.get("dsigTag") != b"\0\0\0\0":
                rec.violation("ttc:dsig", "%s: DSIG fields %r" % (ctx, c.header.get("dsigTag")))
            rec.witness("TTC v2 empty DSIG")
        if len(names) == 3:
            rec.witness("3 members")
        if dec:
            rec.witness("decoded members")
        # every member equals its stand-alone save
        for i, n in enumerate(names):
            f = self.open_member(n, dec)
            b = io.BytesIO()
            f.save(b, reorderTables=None)
            alone = otspec.parse_container(b.getvalue())
            m = c.fonts[i]
            if sorted(m.tables) != sorted(alone.tables):
                rec.violation("ttc:member-table-set", "%s: member %d has %r" % (ctx, i, sorted(m.tables)))
                continue
            for t in alone.tables:
                if mask_head(m.tables[t]) != mask_head(alone.tables[t]) if t == "head" else m.tables[t] != alone.tables[t]:
                    rec.violation("ttc:member-table-bytes", "%s: member %d table %r differs from the stand-alone save" % (ctx, i, t))
            if m.sfnt_version != alone.sfnt_version:
                rec.violation("ttc:member-version", "%s: member %d" % (ctx, i))
        shared = otspec.shared_tables(c)
        if share:
            # two members' tables are "the same data" when the bytes handed to the writer are
            # equal: for head that includes the (void, still unwritten) checkSumAdjustment field
            # each member carries over from its source
            first = {}
            for i, m in enumerate(c.fonts):
                src_head = otspec.parse_container(member_pool()[names[i]]).tables.get("head", b"")
                for t, d in sorted(m.tables.items()):
                    k = (t, mask_head(d) + src_head[8:12] if t == "head" else d)
                    if k in first and first[k] != m.spans[t] and len(d):
                        rec.violation("ttc:not-shared", "%s: member %d table %r is byte-identical to an earlier member's but stored again" % (ctx, i, t))
                    first.setdefault(k, m.spans[t])
            if shared:
                rec.witness("table physically shared")
            if len(set(names)) == 1 and all(m.spans == c.fonts[0].spans for m in c.fonts):
                rec.witness("identical members share every table")
        else:
            real = {k: v for k, v in shared.items() if k[1]}
            if real:
                rec.violation("ttc:shared-without-request", "%s: blocks referenced by several members: %r" % (ctx, sorted(real.values())[:3]))
            else:
                rec.witness("no table shared")
        rec.trace()
        rec.outcome(h64(out))
        rec.nontrivial()


# =============================================================================== E2 save configurations
_FONTS = {}
_SRC = {}
_BUILD_ERRORS = {}
LOAD = ("head", "maxp", "hhea", "vhea", "hmtx", "vmtx", "loca", "glyf", "CFF ", "CFF2")
DEFAULT = [None, "T", 1, None]
ALTS = [["woff", "woff2", "woff2h"], ["F", "N"], [0], [0, 2, 4]]
INVALID_CFF2 = "CFF2 CharStrings must not have an initial width value"


def deviations(k):
    out = [list(DEFAULT)]
    for r in range(1, k + 1):
        for coords in itertools.combinations(range(4), r):
            for vals in itertools.product(*[ALTS[i] for i in coords]):
                cfg = list(DEFAULT)
                for i, v in zip(coords, vals):
                    cfg[i] = v
                out.append(cfg)
    return out


def edge_composites():
    """Composite glyphs on every branch of the bbox / maxp recalculation."""
    from fontTools.ttLib.tables._g_l_y_f import Glyph, GlyphComponent, GlyphCoordinates
    from fontTools.ttLib.tables import ttProgram

    f = tinyfont.build({"kind": "ttf", "shapes": "mixed", "glyphs": ["a", "b", "c", "d", "e", "f"], "vmtx": True})
    glyf, hmtx, vmtx = f["glyf"], f["hmtx"], f["vmtx"]
    order = list(f.getGlyphOrder())

    def add(name, g, adv=600, lsb=0):
        glyf[name] = g
        order.append(name)
        hmtx.metrics[name] = (adv, lsb)
        vmtx.metrics[name] = (1000, 10)

    def simple(pts, ends):
        g = Glyph()
        g.numberOfContours = len(ends)
        g.coordinates = GlyphCoordinates(pts)
        g.flags = bytearray([1] * len(pts))
        g.endPtsOfContours = list(ends)
        g.program = ttProgram.Program()
        g.program.fromBytecode(b"")
        return g

    def comp(parts, instr=None):
        g = Glyph()
        g.numberOfContours = -1
        g.components = []
        for p in parts:
            c = GlyphComponent()
            c.glyphName = p["g"]
            c.flags = p.get("fl", 0)
            if "pt" in p:
                c.firstPt, c.secondPt = p["pt"]
            else:
                c.x, c.y = p.get("xy", (0, 0))
            if "t" in p:
                c.transform = p["t"]
            g.components.append(c)
        if instr is not None:
            g.program = ttProgram.Program()
            g.program.fromBytecode(instr)
        return g

    add("pt", simple([(150, 250)], [0]), 300, 150)
    add("neg", simple([(-120, -40), (333, -40), (333, 777), (-120, 777)], [3]), 200, -120)
    add("c_pt", comp([{"g": "a"}, {"g": "pt", "xy": (900, 900)}]))
    add("c_pt_only", comp([{"g": "pt", "xy": (-7, 11)}]))
    add("c_scale", comp([{"g": "a", "t": [[0.5, 0], [0, 0.5]]}, {"g": "b", "xy": (-128, 127)}]))
    add("c_neg", comp([{"g": "a", "t": [[-0.5, 0], [0, -0.5]], "xy": (-129, 128)}]))
    add("c_xy", comp([{"g": "c", "t": [[1.25, 0], [0, -0.75]], "xy": (13, -17)}]))
    add("c_2x2", comp([{"g": "b", "t": [[0.75, 0.25], [-0.5, 1.0]], "xy": (41, 3)}, {"g": "f"}]))
    add("c_apple", comp([{"g": "a", "t": [[0.5, 0], [0, 1.5]], "xy": (101, 51), "fl": 0x0800}]))
    add("c_ms", comp([{"g": "a", "t": [[0.5, 0], [0, 1.5]], "xy": (101, 51), "fl": 0x1000}]))
    add("c_nest2", comp([{"g": "c_scale", "xy": (30, 0)}, {"g": "c"}]))
    add("c_nest3", comp([{"g": "c_nest2", "t": [[0.5, 0], [0, 0.5]], "xy": (5, 5)}], instr=b"\xb0\x01\x21"))
    add("c_empty", comp([{"g": "d"}]))
    add("c_anchor", comp([{"g": "a"}, {"g": "b", "pt": (2, 0)}]))
    add("c_anchor_t", comp([{"g": "a"}, {"g": "b", "pt": (1, 2), "t": [[0.5, 0], [0, 0.5]]}]))
    add("c_many", comp([{"g": n, "xy": (10 * i, -10 * i)} for i, n in enumerate(["a", "b", "c", "e", "f", "d"])]))
    add("wide", simple([(0, 0), (1900, 0), (1900, 10), (0, 10)], [3]), 1200, 0)
    for n in ("t1", "t2", "t3"):
        add(n, simple([(10, 10), (90, 10), (50, 90)], [2]), 555, 10)
    f.setGlyphOrder(order)
    glyf.glyphOrder = order
    return tinyfont.to_bytes(f)


def edge_stale():
    """The composite edge font with every derived field deliberately wrong in the file (written
    with recalcBBoxes=False): a save with recalcBBoxes=True has to repair all of them."""
    f = TTFont(io.BytesIO(edge_composites()), recalcBBoxes=False, recalcTimestamp=False)
    glyf = f["glyf"]
    for i, n in enumerate(f.getGlyphOrder()):
        g = glyf[n]
        g.expand(glyf)
        if g.numberOfContours:
            g.xMin, g.yMin, g.xMax, g.yMax = g.xMin + 3 + i, g.yMin - 5, g.xMax - 7, g.yMax + 11 + i
    mx = f["maxp"]
    mx.maxPoints, mx.maxContours, mx.maxCompositePoints, mx.maxCompositeContours = 1, 77, 2, 66
    mx.maxComponentElements, mx.maxComponentDepth = 55, 9
    for tag, names in (("hhea", ("advanceWidthMax", "minLeftSideBearing", "minRightSideBearing", "xMaxExtent")),
                       ("vhea", ("advanceHeightMax", "minTopSideBearing", "minBottomSideBearing", "yMaxExtent"))):
        for j, a in enumerate(names):
            setattr(f[tag], a, 4321 + j)
    h = f["head"]
    h.xMin, h.yMin, h.xMax, h.yMax = 1, 2, 3, 4
    h.flags ^= 2
    return tinyfont.to_bytes(f)


def edge_triplets():
    """Simple glyphs whose successive point deltas sit on both sides of every threshold of the
    glyf flag packing (255/256) and of the WOFF2 triplet encoding (64/65, 768/769, 1279/1280,
    4095/4096), in every sign combination, on- and off-curve, with the overlap bit."""
    from fontTools.ttLib.tables._g_l_y_f import Glyph, GlyphCoordinates
    from fontTools.ttLib.tables import ttProgram

    mags = [0, 1, 64, 65, 255, 256, 768, 769, 1279, 1280, 4095, 4096]
    names = []
    glyphs = {}
    k = 0
    for ax in mags:
        pts, x, y = [(0, 0)], 0, 0
        for ay in mags:
            for sx, sy in ((1, 1), (-1, 1), (1, -1), (-1, -1)):
                x += sx * ax
                y += sy * ay
                pts.append((x, y))
                x -= sx * ax  # come back so that coordinates stay inside int16
                y -= sy * ay
                pts.append((x, y))
        g = Glyph()
        g.numberOfContours = 2
        g.coordinates = GlyphCoordinates(pts)
        g.flags = bytearray([(i % 3 != 1) | (0x40 if i == 0 and k % 2 else 0) for i in range(len(pts))])
        g.endPtsOfContours = [len(pts) // 2, len(pts) - 1]
        g.program = ttProgram.Program()
        g.program.fromBytecode(b"\xb0\x00" * (k % 3))
        name = "t%02d" % k
        k += 1
        names.append(name)
        glyphs[name] = g
    f = tinyfont.build({"kind": "ttf", "glyphs": names, "cmap": {}})
    for n in names:
        f["glyf"][n] = glyphs[n]
        f["hmtx"].metrics[n] = (700 + len(n), 0)
    return tinyfont.to_bytes(f)


def edge_loca(target):
    """Glyph data whose even-padded size is exactly `target` (around the short-loca limit),
    made of cheap glyphs carrying long instruction strings; some glyphs have odd length."""
    from fontTools.ttLib.tables import ttProgram

    names = ["g%02d" % i for i in range(70)]
    f = tinyfont.build({"kind": "ttf", "glyphs": names, "cmap": {}})
    glyf = f["glyf"]
    order = f.getGlyphOrder()
    for i, n in enumerate(order):
        glyf[n].program = ttProgram.Program()
        glyf[n].program.fromBytecode(b"\x4f" * (1800 + (i % 3)))
    data = tinyfont.to_bytes(f)
    c = otspec.parse_container(data)
    offs = otspec.parse_loca(c.tables)
    sizes = [g.length for g in otspec.glyf_glyphs(c.tables)]
    padded = sum(s + (s & 1) for s in sizes)
    assert offs[-1] >= padded - len(sizes)
    last = glyf[order[-1]]
    n = len(last.program.getBytecode()) + (target - padded)
    last.program.fromBytecode(b"\x4f" * n)
    return tinyfont.to_bytes(f)


def load_e2_fonts():
    if _FONTS:
        return
    for name, data, idx in corpus.binary_faces():
        _FONTS["bin:" + name] = (data, idx)
    for name, data in corpus.compiled_ttx():
        _FONTS["ttx:" + name] = (data, -1)
    for pname, spec in sorted(tinyfont.pool().items()):
        _FONTS["tiny:" + pname] = (tinyfont.build_bytes(spec), -1)
    def gen(key, fn):
        # generated fonts are written by the code under test: a failure here is a save that
        # raised, reported by check() instead of killing the run
        try:
            _FONTS[key] = (fn(), -1)
        except Exception as e:  # noqa: BLE001
            import traceback

            _BUILD_ERRORS[key] = "%s: %s\n%s" % (type(e).__name__, e, "".join(traceback.format_exception(e)[-4:]))

    _FONTS["tiny:vmtx"] = (tinyfont.build_bytes({"kind": "ttf", "shapes": "mixed", "composite": True, "vmtx": True}), -1)
    _FONTS["tiny:cff-vmtx"] = (tinyfont.build_bytes({"kind": "cff", "shapes": "mixed", "vmtx": True}), -1)
    gen("edge:composites", edge_composites)
    gen("edge:stale-fields", edge_stale)
    gen("edge:triplets", edge_triplets)
    gen("edge:loca-short-limit", lambda: edge_loca(0x1FFFE))
    gen("edge:loca-over-limit", lambda: edge_loca(0x20000))
    f = tinyfont.build(tinyfont.pool()["ttf-mixed"])
    from fontTools.ttLib.tables.DefaultTable import DefaultTable

    t = DefaultTable("DSIG")
    t.data = struct.pack(">LHH", 1, 0, 0)
    f["DSIG"] = t
    for tag, blob in (("zzzz", b"\x01\x02\x03\x04\x05"), ("a   ", b"")):
        t = newTable(tag)
        t.data = blob
        f[tag] = t
    _FONTS["tiny:dsig-unknown-tables"] = (tinyfont.to_bytes(f), -1)


def is_generated(key):
    return key.startswith(("tiny:", "edge:"))


def source_info(key):
    """otspec view of the source file (never fontTools): tables, physical order."""
    if key not in _SRC:
        data, idx = _FONTS[key]
        c = otspec.parse_container(data, max(idx, 0))
        _SRC[key] = c
    return _SRC[key]


def save_config(data, idx, cfg):
    fl, ro, rb, pad = cfg
    font = TTFont(io.BytesIO(data), fontNumber=idx, recalcBBoxes=bool(rb))
    for t in LOAD:
        if t in font:
            font[t]
    if pad is not None and "glyf" in font:
        font["glyf"].padding = pad
    if fl == "woff2h":
        font.flavor = "woff2"
        font.flavorData = WOFF2FlavorData(data=font.flavorData, transformedTables=["glyf", "loca", "hmtx"])
    else:
        font.flavor = fl
    buf = io.BytesIO()
    font.save(buf, reorderTables={"T": True, "F": False, "N": None}[ro])
    return buf.getvalue()


class SaveConfigs(Unit):
    name = "save-configs"
    rule = ("every corpus face (binary, TTC members, WOFF/WOFF2), every font compiled from corpus TTX, the generated pool and edge fonts (composite branches, short-loca limit +-1, DSIG/unknown tables) x configuration (flavour in {sfnt, woff, woff2, woff2+hmtx transform}, reorderTables in {True, False, None}, recalcBBoxes, glyf.padding in {default, 0, 2, 4}): "
            "all configurations within 1 (quick) / 2 (thorough) deviations of the default, the full product on generated fonts; AOTS family (one shared glyph set): default + a seed-rotated 1/8 (quick) 1/2 (thorough) with deviations. "
            "Oracle (otspec on the saved bytes): container valid; table set kept (DSIG dropped by woff2); data block order per reorderTables; loca/glyf/padding rules; numGlyphs, metric counts, metrics equal the source's; with recalcBBoxes every glyph bbox, head bbox + flags bit 1, all maxp profile fields, hhea/vhea extents equal the recomputation; "
            "flavoured file's tables equal the sfnt save's (woff2: glyf by decoded content, head modulo bit 11 / indexToLocFormat). distinct = (font, configuration)")
    chunk = 6
    required_witnesses = ("sfnt saved", "woff saved", "woff2 saved", "woff2 transformed glyf", "woff2 transformed hmtx", "composite glyph bbox recomputed", "transformed component", "point-matched component",
                          "nested composite depth>=3", "short loca", "long loca", "padding forced short loca", "odd glyph length kept (padding 0)", "hmtx trailing run trimmed", "vhea recomputed",
                          "CFF numGlyphs", "ttc member source", "woff source", "woff2 source", "recalcBBoxes=False kept stale field", "DSIG dropped by woff2", "negative side bearing", "reorderTables=False kept source order")

    def setup(self, tier, seed):
        load_e2_fonts()

    def bounds(self, tier, seed):
        return {"fonts": len(_FONTS), "generated_fonts": sorted(k for k in _FONTS if is_generated(k)), "config_axes": {"flavor": [None] + ALTS[0], "reorderTables": ["T", "F", "N"], "recalcBBoxes": [1, 0], "padding": [None, 0, 2, 4]},
                "deviation_bound": 1 if tier == "quick" else 2}

    def cases(self, tier, seed):
        k = 1 if tier == "quick" else 2
        full = deviations(4)
        dev = deviations(k)
        dev_aots = deviations(1)
        for key in sorted(_BUILD_ERRORS):
            yield [key, "build"]
        for key in sorted(_FONTS):
            src = source_info(key)
            has_glyf = "glyf" in src.tables
            if is_generated(key):
                cfgs = full
            elif corpus.is_aots(key):
                mod = 8 if tier == "quick" else 2
                cfgs = dev_aots if (h64(key) + seed) % mod == 0 else [DEFAULT]
            else:
                cfgs = dev
                if len(_FONTS[key][0]) > 200000 and tier == "quick":
                    cfgs = deviations(1)
            hmtx_ok = all(t in src.tables for t in ("glyf", "loca", "hmtx", "hhea", "maxp", "head"))
            for cfg in cfgs:
                if not has_glyf and cfg[3] is not None or cfg[0] == "woff2h" and not hmtx_ok:
                    continue
                yield [key, cfg]

    def check(self, case, rec):
        key, cfg = case
        if cfg == "build":
            rec.violation("generated-font-save-failed", "building and saving the generated font %s raised %s" % (key, _BUILD_ERRORS.get(key)))
            return
        fl, ro, rb, pad = cfg
        data, idx = _FONTS[key]
        ctx = "%s flavor=%s reorderTables=%s recalcBBoxes=%s padding=%s" % (key, fl, ro, rb, pad)
        try:
            out = save_config(data, idx, cfg)
        except AssertionError as e:
            if INVALID_CFF2 in str(e):
                rec.count("input is invalid CFF2 (charstring carries a width); nothing is written")
                return
            raise
        rec.transition()
        src = source_info(key)
        c = otspec.parse_container(out)
        kind = {None: "sfnt", "woff": "woff"}.get(fl, "woff2")
        if c.flavor != kind:
            rec.violation("save:wrong-signature", "%s: reads as %s" % (ctx, c.flavor))
            return
        rec.witness(kind + " saved")
        if idx >= 0:
            rec.witness("ttc member source")
        if src.flavor in ("woff", "woff2"):
            rec.witness(src.flavor + " source")
        report_problems(rec, c, ctx)
        T = c.tables
        # ---- table set
        expect_tags = set(src.tables)
        if kind == "woff2" and "DSIG" in expect_tags:
            expect_tags.discard("DSIG")
            rec.witness("DSIG dropped by woff2")
        if set(T) != expect_tags:
            rec.violation("save:table-set", "%s: tables %r, source has %r" % (ctx, sorted(T), sorted(expect_tags)))
            return
        # ---- physical order
        self.check_order(rec, ctx, c, src, kind, ro)
        # ---- structure + derived fields
        tt = "glyf" in T and "loca" in T and "head" in T
        problems = []
        glyphs = None
        if tt:
            try:
                glyphs = otspec.glyf_glyphs(T, problems)
            except (otspec.OTSpecError, struct.error) as e:
                rec.violation("glyf:unreadable", "%s: %s" % (ctx, e))
                return
            for p in problems:
                rec.violation("glyf:" + p.split(":", 1)[0], "%s: %s" % (ctx, p))
            if kind != "woff2":
                self.check_padding(rec, ctx, T, glyphs, rb, pad)
        try:
            D = otspec.recompute_derived(T, glyphs)
            S = otspec.stored_derived(T, glyphs)
        except (otspec.OTSpecError, struct.error) as e:
            rec.violation("derived:unreadable", "%s: %s" % (ctx, e))
            return
        for p in D["problems"]:
            rec.violation("derived:" + p.split(":", 1)[0], "%s: %s" % (ctx, p))
        always = ["numGlyphs", "head.indexToLocFormat"]
        if rb:
            if tt:
                demanded = [k for k in S if k in D]
            else:
                demanded = [k for k in ("numGlyphs", "hhea.advanceMax", "vhea.advanceMax") if k in S and k in D]
        else:
            demanded = [k for k in always if k in S and k in D]
        D2 = None
        for k in demanded:
            if S[k] == D[k]:
                continue
            if k != "glyph_bboxes" and "glyph_bboxes" in demanded and S["glyph_bboxes"] != D["glyph_bboxes"]:
                # a font-wide value that follows from a glyph box already reported below is
                # the same failure, not a second one: recompute it from the stored boxes
                if D2 is None:
                    D2 = otspec.recompute_derived(T, glyphs, bboxes=S["glyph_bboxes"])
                if D2.get(k) == S[k]:
                    rec.count("font-wide field consistent with a mis-stored glyph bbox")
                    continue
            if k == "glyph_bboxes":
                bad = [(i, S[k][i], D[k][i]) for i in range(len(S[k])) if S[k][i] != D[k][i]]
                for i, s, d in bad[:3]:
                    rec.violation("derived:glyph-bbox:%s" % self.glyph_class(glyphs, i), "%s: glyph %d stored bbox %r, recomputed from its points %r" % (ctx, i, s, d), observed=s, expected=d)
            else:
                rec.violation("derived:" + k, "%s: stored %s = %r, recomputed from the saved data %r" % (ctx, k, S[k], D[k]), observed=S[k], expected=D[k])
        if not rb:
            for k in S:
                if k in D and k not in always and S[k] != D[k]:
                    rec.witness("recalcBBoxes=False kept stale field")
                    break
        # metrics equal the source's
        for mtx in ("hmtx", "vmtx"):
            if mtx in D:
                sm = self.source_metrics(key, mtx)
                if sm is not None and sm != D[mtx]:
                    bad = [i for i, (a, b) in enumerate(zip(sm, D[mtx])) if a != b]
                    rec.violation("metrics-changed:" + mtx, "%s: %s of glyphs %r differ from the source (%d vs %d glyphs)" % (ctx, mtx, bad[:5], len(D[mtx]), len(sm)))
        self.witnesses(rec, T, D, S, glyphs, c, kind)
        # ---- flavour change keeps every table
        if fl is not None:
            ref = otspec.parse_container(save_config(data, idx, [None, ro, rb, pad]))
            self.compare_flavours(rec, ctx, kind, c, ref, glyphs)
        rec.outcome(h64(out))
        rec.nontrivial()

    # ------------------------------------------------------------------
    def glyph_class(self, glyphs, i):
        g = glyphs[i]
        if g.ncontours >= 0:
            return "simple"
        kinds = set()
        for comp in g.components:
            if comp.transform is not None:
                kinds.add("transformed")
            if not comp.flags & otspec.ARGS_XY:
                kinds.add("point-matched")
            if 0 <= comp.glyph < len(glyphs):
                sub = glyphs[comp.glyph]
                if sub.ncontours < 0:
                    kinds.add("nested")
                elif sub.ncontours > 0 and len(set(sub.points)) == 1:
                    kinds.add("single-point-component")
        return "composite" + ("-" + "+".join(sorted(kinds)) if kinds else "")

    def source_metrics(self, key, mtx):
        src = source_info(key)
        ck = "_" + mtx
        if not hasattr(src, ck):
            val = None
            try:
                pr = []
                m = otspec.parse_metrics(src.tables, mtx, pr)
                if not pr:
                    val = m
            except Exception:
                val = None
            setattr(src, ck, val)
        return getattr(src, ck)

    def check_order(self, rec, ctx, c, src, kind, ro):
        phys = c.physical
        if kind == "woff2":
            if phys != sorted(phys):
                rec.violation("order:woff2-sorted", "%s: %r" % (ctx, phys))
            return
        if ro == "T":
            if "glyf" in c.tables:
                rec_order = otspec.RECOMMENDED_ORDER_TTF
            elif "CFF " in c.tables:
                rec_order = otspec.RECOMMENDED_ORDER_CFF
            else:
                return
            want = [t for t in rec_order if t in c.tables]
            if phys[: len(want)] != want:
                rec.violation("order:recommended", "%s: data blocks start %r, the specification recommends %r" % (ctx, phys[: len(want)], want))
        elif ro == "F":
            pos = {}
            for i, r in enumerate(src.records):
                pos[r.tag] = (r.offset if r.offset is not None else i, i if src.flavor == "woff2" else 0)
            seq = [pos[t] for t in phys if t in pos]
            if any(a[0] > b[0] for a, b in zip(seq, seq[1:])):
                rec.violation("order:source", "%s: data blocks %r do not follow the source order %r" % (ctx, phys, src.physical))
            else:
                if src.physical != sorted(src.physical) and len(phys) > 3:
                    rec.witness("reorderTables=False kept source order")

    def check_padding(self, rec, ctx, T, glyphs, rb, pad):
        offs = otspec.parse_loca(T)
        fmt = otspec.parse_head(T["head"])["indexToLocFormat"]
        glyf = T["glyf"]
        tail = len(glyf) - offs[-1]
        if tail and not (offs[-1] == 0 and glyf == b"\0"):
            rec.violation("glyf:trailing-bytes", "%s: glyf has %d bytes after the last loca offset" % (ctx, tail))
        rec.witness("short loca" if fmt == 0 else "long loca")
        p = pad if pad is not None else 1
        if p in (2, 4):
            bad = [i for i, o in enumerate(offs) if o % p]
            if bad:
                rec.violation("glyf:padding-%d" % p, "%s: loca offsets %r are not multiples of %d" % (ctx, bad[:5], p))
        if not rb:
            return
        slack = [len(g.slack) for g in glyphs]
        sizes = [g.length for g in glyphs]
        if p == 0:
            if any(slack):
                rec.violation("glyf:padding-0", "%s: glyphs %r are followed by padding although padding=0" % (ctx, [i for i, s in enumerate(slack) if s][:5]))
            if any(s & 1 for s in sizes):
                rec.witness("odd glyph length kept (padding 0)")
        elif p == 1:
            if any(s > 1 for s in slack) or (any(slack) and fmt != 0):
                rec.violation("glyf:padding-1", "%s: padding bytes %r with indexToLocFormat %d" % (ctx, sorted(set(slack)), fmt))
            even_total = sum(s + (s & 1) for s in sizes)
            if even_total <= 0x1FFFE and fmt != 0:
                rec.violation("glyf:padding-1:short-loca-missed", "%s: glyph data padded to even lengths is %d bytes, short loca offsets would fit but indexToLocFormat is %d" % (ctx, even_total, fmt))
            if any(slack) and fmt == 0:
                rec.witness("padding forced short loca")
        else:
            if any(s >= p for s in slack):
                rec.violation("glyf:padding-%d" % p, "%s: more than %d padding bytes after glyphs %r" % (ctx, p - 1, [i for i, s in enumerate(slack) if s >= p][:5]))

    def witnesses(self, rec, T, D, S, glyphs, c, kind):
        if glyphs is not None:
            for g in glyphs:
                if g.ncontours < 0:
                    rec.witness("composite glyph bbox recomputed")
                    for comp in g.components:
                        if comp.transform is not None:
                            rec.witness("transformed component")
                        if not comp.flags & otspec.ARGS_XY:
                            rec.witness("point-matched component")
            if D.get("maxp.maxComponentDepth", 0) >= 3:
                rec.witness("nested composite depth>=3")
        else:
            if "CFF " in T or "CFF2" in T:
                if "numGlyphs" in D:
                    rec.witness("CFF numGlyphs")
        if "hmtx" in D and "hhea" in T:
            if otspec.parse_hhea(T["hhea"])["numberOfMetrics"] < len(D["hmtx"]):
                rec.witness("hmtx trailing run trimmed")
            if D.get("hhea.minFirstSideBearing", 0) < 0 or D.get("hhea.minSecondSideBearing", 0) < 0:
                rec.witness("negative side bearing")
        if "vhea.maxExtent" in D:
            rec.witness("vhea recomputed")
        if kind == "woff2":
            for r in c.records:
                if r.transformed and r.tag == "glyf":
                    rec.witness("woff2 transformed glyf")
                if r.transformed and r.tag == "hmtx":
                    rec.witness("woff2 transformed hmtx")

    def compare_flavours(self, rec, ctx, kind, c, ref, glyphs):
        A, B = c.tables, ref.tables
        want = set(B) - ({"DSIG"} if kind == "woff2" else set())
        if set(A) != want:
            rec.violation("flavour:table-set", "%s: %r vs sfnt save %r" % (ctx, sorted(A), sorted(want)))
            return
        for t in sorted(want):
            a, b = A[t], B[t]
            if t == "head":
                a, b = mask_head(a), mask_head(b)
                if kind == "woff2" and len(a) >= 54 and len(b) >= 54:
                    fa = struct.unpack(">H", a[16:18])[0]
                    fb = struct.unpack(">H", b[16:18])[0]
                    if fa != fb | 0x0800:
                        rec.violation("flavour:head-flags", "%s: head.flags %04x, sfnt save has %04x" % (ctx, fa, fb))
                    a = a[:16] + a[18:50] + a[52:]
                    b = b[:16] + b[18:50] + b[52:]
            elif kind == "woff2" and t in ("glyf", "loca") and "glyf" in B and "loca" in B:
                if t == "loca":
                    continue
                try:
                    gb = otspec.glyf_glyphs(B)
                except (otspec.OTSpecError, struct.error):
                    continue
                ga = glyphs if glyphs is not None else []
                ka, kb = [g.key() for g in ga], [g.key() for g in gb]
                if ka != kb:
                    bad = [i for i, (x, y) in enumerate(zip(ka, kb)) if x != y]
                    rec.violation("flavour:glyf-content", "%s: %d glyphs (first %r) decode differently from the sfnt save (%d vs %d glyphs)" % (ctx, len(bad), bad[:5], len(ka), len(kb)))
                continue
            if a != b:
                rec.violation("flavour:table-bytes:%s" % (t if t in ("head", "hmtx", "maxp", "hhea") else "other"), "%s: table %r differs from the sfnt save of the same configuration (%d vs %d bytes)" % (ctx, t, len(a), len(b)))


# =============================================================================== E3 pipeline outputs
class PipelineOutputs(Unit):
    """Fonts written by the other operations of the library (subset, instancer, varLib.build, merge),
    judged on their saved bytes like every other saved file."""

    name = "pipeline-outputs"
    rule = ("every output of the pipeline set of oracles/pipelines.py that is a font file: subset (corpus subset inputs + generated pool x 4 option sets, character-pair subsettings, "
            "and the same inputs with --recalc-bounds), instancer (3 limit kinds), varLib.build (corpus + generated designspaces), merge, flavoured saves: otspec reads the container without any problem; "
            "glyf/loca readable; numGlyphs, metric counts, indexToLocFormat consistent; for operations that save with recalcBBoxes (all but a subset without --recalc-bounds) every stored derived field "
            "(glyph and font bbox, maxp profile, hhea/vhea extents) equals the recomputation from the saved glyph data; distinct = each item")
    chunk = 6
    required_witnesses = ("subset output", "instance output", "varlib-build output", "merge output", "derived fields recomputed", "subset with --recalc-bounds")
    KINDS = ("subset", "subset-pair", "instance", "varlib-build", "merge", "flavor")

    def setup(self, tier, seed):
        from oracles import pipelines

        self.items = [(n, t) for n, t in pipelines.items() if n.split(":")[0] in self.KINDS]
        self.names = [n for n, _t in self.items]

    def cases(self, tier, seed):
        for i, n in enumerate(self.names):
            if tier == "quick" and n.startswith("subset-pair") and (h64(n) + seed) % 4:
                continue
            yield [i, n, False]
            if n.startswith("subset:") and n.endswith(":default"):
                yield [i, n, True]

    def bounds(self, tier, seed):
        import collections

        return {"items": dict(collections.Counter(n.split(":")[0] for n in self.names))}

    def check(self, case, rec):
        i, name, recalc = case
        kind = name.split(":")[0]
        thunk = self.items[i][1]
        if recalc:
            # the same subsetting with --recalc-bounds: patch the option default for this one run
            from fontTools import subset

            orig = subset.Options.__init__

            def init(self_, *a, **k):
                orig(self_, *a, **k)
                self_.recalc_bounds = True

            subset.Options.__init__ = init
            try:
                out = thunk()
            except Exception as e:
                rec.count("pipeline item raised %s (not a saved file)" % type(e).__name__)
                return
            finally:
                subset.Options.__init__ = orig
            rec.witness("subset with --recalc-bounds")
        else:
            try:
                out = thunk()
            except Exception as e:
                rec.count("pipeline item raised %s (not a saved file)" % type(e).__name__)
                return
        rec.transition()
        ctx = "pipeline output %s%s" % (name, " --recalc-bounds" if recalc else "")
        c = otspec.parse_container(out)
        report_problems(rec, c, ctx, suffix=":" + kind)
        T = c.tables
        rec.witness({"subset-pair": "subset"}.get(kind, kind) + " output")
        tt = "glyf" in T and "loca" in T and "head" in T
        problems, glyphs = [], None
        if tt:
            try:
                glyphs = otspec.glyf_glyphs(T, problems)
            except (otspec.OTSpecError, struct.error) as e:
                rec.violation("pipeline:glyf:unreadable:" + kind, "%s: %s" % (ctx, e))
                return
            for p_ in problems:
                rec.violation("pipeline:glyf:%s:%s" % (p_.split(":", 1)[0], kind), "%s: %s" % (ctx, p_))
        try:
            D = otspec.recompute_derived(T, glyphs)
            S = otspec.stored_derived(T, glyphs)
        except (otspec.OTSpecError, struct.error) as e:
            rec.violation("pipeline:derived:unreadable:" + kind, "%s: %s" % (ctx, e))
            return
        for p_ in D["problems"]:
            rec.violation("pipeline:derived:%s:%s" % (p_.split(":", 1)[0], kind), "%s: %s" % (ctx, p_))
        rb = recalc or kind not in ("subset", "subset-pair")
        if rb and tt:
            demanded = [k for k in S if k in D]
        elif rb:
            demanded = [k for k in ("numGlyphs", "hhea.advanceMax", "vhea.advanceMax") if k in S and k in D]
        else:
            demanded = [k for k in ("numGlyphs", "head.indexToLocFormat") if k in S and k in D]
        for k in demanded:
            if S[k] != D[k]:
                if k == "glyph_bboxes":
                    bad = [(j, S[k][j], D[k][j]) for j in range(len(S[k])) if S[k][j] != D[k][j]][:2]
                    rec.violation("pipeline:derived:glyph-bbox:" + kind, "%s: glyph boxes (index, stored, recomputed) %r" % (ctx, bad))
                else:
                    rec.violation("pipeline:derived:%s:%s" % (k, kind), "%s: stored %s = %r, recomputed from the saved data %r" % (ctx, k, S[k], D[k]), observed=S[k], expected=D[k])
        if rb and tt and len(demanded) > 3:
            rec.witness("derived fields recomputed")
        rec.outcome(h64(out))
        rec.nontrivial()


def units():
    return [WriterProtocol(), TTCSave(), SaveConfigs(), PipelineOutputs()]
