"""C06 - serialising layout tables never changes how text is shaped.

Three units (DESIGN.md, section C06):

control-loop   TLA+ model of BaseTTXConverter.compile (models/Repacker.tla) checked by TLC;
               every maximal path of the dumped state graph is replayed against the real
               compile() with the packers / resolvers replaced by an answering environment.
overflow       generated tables with known semantics whose size knobs cross the 64k offset
               boundary at every level x repacker x compaction x extension; HarfBuzz reads
               every rule back from the compiled bytes.
corpus         every GSUB/GPOS/GDEF of the corpus x configuration lattice; HarfBuzz shaping
               of all short glyph sequences must equal the reference configuration.
"""
from mc import env  # noqa: F401
from mc.kernel import Unit

import atexit
import collections
import glob
import io
import itertools
import os
import re
import shutil
import struct
import subprocess
import tempfile

import uharfbuzz as hb

from fontTools.ttLib import TTFont, newTable
from fontTools.ttLib.tables import otBase, otTables as ot
from fontTools.ttLib.tables.otBase import OTLOffsetOverflowError
from fontTools.otlLib import builder as B
from fontTools.otlLib.optimize import gpos as gpos_opt

LEVEL = "model_checking"
ASSUMPTIONS = [
    "HarfBuzz (uharfbuzz) is the reference reader of the compiled bytes; glyph sequences are fed as plane-15 PUA code points through a synthetic cmap so that no Unicode normalisation / default-ignorable / mark logic of the shaper interferes",
    "control-loop: the environment alphabet is {pack ok, hb error x3 exception types, overflow of a lookup-level or a subtable-level record (same as / different from the previous one), resolver ok / failed}; exceptions of other types and failures of table.compile itself are not modelled; termination is not claimed (the HB_FT <-> FT_FALLBACK cycle is cut at the horizon)",
    "overflow: one overflowing structure per table; sizes are those of the grid in bounds(); every rule is read back (no stride); a compile that needs more than 32 overflow-resolution steps for these tables (<= 4 x 64k) is reported as non-terminating",
    "control-loop: 'the same overflow record as last time' is produced by handing compile() the same OverflowErrorRecord object (the class defines no __eq__, so the real packers, which build a fresh record per overflow, never trigger that branch)",
    "corpus: sequences up to the stated length over glyphs occurring in the table plus one outsider, every script of the table with its default language system, once with the shaper's default features and once with all features of the table switched on together; longer contexts, other language systems and single-feature combinations are not enumerated; in the quick tier pairs over alphabets larger than 128 glyphs use a 128-glyph window rotated by VERIF_SEED",
    "USE_HARFBUZZ_REPACKER=True behaves like None when uharfbuzz is importable (it is, here); the ImportError branch is covered only by the control-loop unit",
]

HB_OPT = "fontTools.ttLib.tables.otBase:USE_HARFBUZZ_REPACKER"
LEVEL_OPT = "fontTools.otlLib.optimize.gpos:COMPRESSION_LEVEL"
MODELS = os.path.join(env.VERIF, "models")


# =========================================================================================
# (a) control loop: TLC model + conformance replay
# =========================================================================================
class _Horizon(BaseException):
    """The path's answers are used up: abort the real compile() from inside a stub."""


class _Mismatch(BaseException):
    """The implementation asked a question the model path has no answer for."""


_NODE = re.compile(r'^(-?\d+) \[label="(.*)"(,style = filled)?\]\s*;?\s*$')
_EDGE = re.compile(r'^(-?\d+) -> (-?\d+) \[label="(.*?)",')
_VAR = re.compile(r'/\\ (\w+) = ("[^"]*"|[A-Za-z0-9_-]+)')


def parse_tlc_dot(path):
    """TLC '-dump dot,actionlabels' file -> (nodes {id: {var: value}}, edges {id: [(id, action)]}, inits)."""
    nodes, edges, inits = {}, collections.defaultdict(list), []
    with open(path) as f:
        for line in f:
            m = _NODE.match(line)
            if m:
                lab = m.group(2).replace('\\\\', '\\').replace('\\"', '"').replace("\\n", "\n")
                d = {}
                for k, v in _VAR.findall(lab):
                    if v.startswith('"'):
                        d[k] = v[1:-1]
                    elif v in ("TRUE", "FALSE"):
                        d[k] = v == "TRUE"
                    else:
                        d[k] = int(v)
                nodes[m.group(1)] = d
                if m.group(3):
                    inits.append(m.group(1))
                continue
            m = _EDGE.match(line)
            if m:
                edges[m.group(1)].append((m.group(2), m.group(3).replace('\\"', '"')))
    return nodes, dict(edges), inits


class TLCRun:
    """Runs TLC on models/Repacker.tla in a private temp dir (asynchronously)."""

    def __init__(self, budget):
        self.budget = budget
        self.tmp = tempfile.mkdtemp(prefix="c06-tlc-")
        shutil.copy(os.path.join(MODELS, "Repacker.tla"), self.tmp)
        cfg = open(os.path.join(MODELS, "Repacker.cfg")).read()
        cfg, n = re.subn(r"(CONSTANT\s+Budget\s*=\s*)\d+", r"\g<1>%d" % budget, cfg)
        assert n == 1, "Repacker.cfg: CONSTANT Budget not found"
        with open(os.path.join(self.tmp, "Repacker.cfg"), "w") as f:
            f.write(cfg)
        e = dict(os.environ)
        e["JAVA_TOOL_OPTIONS"] = "-Djava.io.tmpdir=%s" % self.tmp
        self.proc = subprocess.Popen(
            ["tlc", "-workers", "1", "-noGenerateSpecTE", "-metadir", os.path.join(self.tmp, "meta"),
             "-dump", "dot,actionlabels", os.path.join(self.tmp, "graph"), "-deadlock", "Repacker"],
            cwd=self.tmp, env=e, stdout=subprocess.PIPE, stderr=subprocess.STDOUT, text=True)
        atexit.register(self.cleanup)

    def cleanup(self):
        if self.proc.poll() is None:
            self.proc.kill()
        shutil.rmtree(self.tmp, ignore_errors=True)

    def result(self):
        try:
            out, _ = self.proc.communicate(timeout=600)
            rc = self.proc.returncode
            graph = None
            p = os.path.join(self.tmp, "graph.dot")
            if os.path.exists(p):
                graph = parse_tlc_dot(p)
            return rc, out, graph
        finally:
            shutil.rmtree(self.tmp, ignore_errors=True)


def enumerate_paths(nodes, edges, inits):
    """Every maximal path (init -> state without successor), depth first, deterministic order."""
    def key(nid):
        d = nodes[nid]
        return [str(d[k]) for k in sorted(d)]

    out = []

    def walk(nid, acc):
        succ = sorted(edges.get(nid, ()), key=lambda t: key(t[0]))
        if not succ:
            out.append(list(acc))
            return
        for t, _a in succ:
            acc.append(t)
            walk(t, acc)
            acc.pop()

    for i in sorted(inits, key=key):
        walk(i, [i])
    return out


_HB_ERRORS = ("ValueError", "MemoryError", "RepackerError")


class _Env:
    """The answering environment of one replay: logs the calls of the implementation and
    answers them with the events of the model path."""

    def __init__(self, events, records):
        self.events = list(events)
        self.pos = 0
        self.log = []
        self.records = records
        self.tokens = []

    def answer(self, call):
        self.log.append(call)
        if self.pos >= len(self.events):
            raise _Horizon()
        e = self.events[self.pos]
        self.pos += 1
        return e

    def pack(self, call):
        e = self.answer(call)
        if e == "ok":
            tok = (call, len(self.tokens))
            self.tokens.append(tok)
            return tok
        if e in _HB_ERRORS and call == "hb":
            if e == "RepackerError":
                raise otBase.hb.RepackerError("stub")
            raise {"ValueError": ValueError, "MemoryError": MemoryError}[e]("stub")
        if e in self.records and call in ("ft", "ftnd"):
            raise OTLOffsetOverflowError(self.records[e])
        raise _Mismatch("model answers %r to call %r" % (e, call))

    def fix(self, call, font, record):
        want = None
        # the record handed to the resolver must be the one of the overflow just reported
        for k, r in self.records.items():
            if r is record:
                want = k
        e = self.answer("%s(%s)" % (call, want))
        if e == "fix_ok":
            return 1
        if e == "fix_fail":
            return 0
        raise _Mismatch("model answers %r to call %r" % (e, call))


def replay_control_path(init, events, table_tag):
    """Run the REAL BaseTTXConverter.compile against an environment giving `events`.
    Returns (observed call log, outcome)."""
    from fontTools.ttLib.tables import otTables as _ot

    records = {
        "L": otBase.OverflowErrorRecord((table_tag, 1, None, None, None)),
        "S": otBase.OverflowErrorRecord((table_tag, 0, 0, "Coverage", None)),
    }
    envr = _Env(events, records)

    class StubWriter:
        def __init__(self, localState=None, tableTag=None):
            self.tableTag = tableTag
            envr.log.append("writer(%s)" % tableTag)
            envr.current = self

        def getAllDataUsingHarfbuzz(self, tableTag):
            if self is not envr.current or tableTag != table_tag:
                envr.log.append("stale-writer")
            return envr.pack("hb")

        def getAllData(self, remove_duplicate=True):
            if self is not envr.current:
                envr.log.append("stale-writer")
            return envr.pack("ft" if remove_duplicate else "ftnd")

    class StubTable:
        def compile(self, writer, font_):
            envr.log.append("compile" if (writer is envr.current and font_ is font) else "compile(wrong args)")

    font = TTFont()
    font.cfg[HB_OPT] = {"False": False, "None": None, "True": True}[init["cfg"]]
    conv = otBase.BaseTTXConverter(table_tag)
    conv.table = StubTable()

    saved = (otBase.OTTableWriter, otBase.have_uharfbuzz, _ot.fixLookupOverFlows, _ot.fixSubTableOverFlows,
             getattr(otBase, "hb", None))
    otBase.OTTableWriter = StubWriter
    otBase.have_uharfbuzz = bool(init["hb"])
    if saved[4] is None:  # uharfbuzz really missing: the except clause still needs the names
        otBase.hb = type("hb", (), {"RepackerError": type("RepackerError", (Exception,), {})})
    _ot.fixLookupOverFlows = lambda f, r: envr.fix("fixL", f, r)
    _ot.fixSubTableOverFlows = lambda f, r: envr.fix("fixS", f, r)
    try:
        try:
            got = conv.compile(font)
            if got in envr.tokens and got is envr.tokens[-1]:
                outcome = ["return", got[0]]
            else:
                outcome = ["return", "not-the-last-packing:%r" % (got,)]
        except _Horizon:
            outcome = ["horizon"]
        except _Mismatch as e:
            outcome = ["mismatch", str(e)]
        except OTLOffsetOverflowError as e:
            which = [k for k, r in records.items() if r is e.value]
            outcome = ["raise", "OTLOffsetOverflowError", which[0] if which else "?"]
        except Exception as e:  # noqa: BLE001 - any other escape is an observation to compare
            outcome = ["raise", type(e).__name__]
    finally:
        otBase.OTTableWriter, otBase.have_uharfbuzz, _ot.fixLookupOverFlows, _ot.fixSubTableOverFlows = saved[:4]
        if saved[4] is None:
            del otBase.hb
    return envr.log, outcome


def model_expectation(states, table_tag):
    """What the model path predicts the implementation does: the call log and the outcome."""
    log = []
    for s in states:
        pc = s["pc"]
        if pc == "done":
            break
        if pc in ("hb", "ft"):
            log += ["writer(%s)" % table_tag, "compile", pc]
        elif pc == "ftnd":
            log.append("ftnd")
        else:  # fixX is a second call of fixLookupOverFlows
            log.append("%s(%s)" % ("fixL" if pc == "fixX" else pc, s["cur"]))
    last = states[-1]
    if last["pc"] != "done":
        outcome = ["horizon"]
    elif last["res"] in ("hb", "ft", "ftnd"):
        outcome = ["return", last["res"]]
    elif last["res"] == "OTLOffsetOverflowError":
        outcome = ["raise", "OTLOffsetOverflowError", last["cur"]]
    else:
        outcome = ["raise", last["res"]]
    return log, outcome


class ControlLoop(Unit):
    name = "control-loop"
    rule = ("TLA+ model models/Repacker.tla of BaseTTXConverter.compile (states PURE_FT/HB_FT/FT_FALLBACK; pending call hb/ft/ftnd/fixS/fixL/fixX; "
            "answers: pack ok, hb error {ValueError,MemoryError,RepackerError}, overflow of record L|S (equal to / different from the last one), resolver ok/failed; "
            "12 initial configurations USE_HARFBUZZ_REPACKER x uharfbuzz present x layout table) checked by TLC (6 invariants, 2 action properties) with answer budget 6 (quick) / 9 (thorough); "
            "EVERY maximal path of the dumped state graph is replayed against the real compile() (real tryPackingHarfbuzz/tryPackingFontTools/tryResolveOverflow; OTTableWriter, table.compile, "
            "fixLookupOverFlows, fixSubTableOverFlows answer from the path): observed call sequence, returned packing / raised exception must equal the model path; distinct = each path x table tag")
    required_witnesses = ("TLC finished without error", "path returns hb packing", "path returns ft packing", "path returns ftnd packing after hb error",
                          "path raises OTLOffsetOverflowError", "path raises ImportError", "path visits FT_FALLBACK", "same-record overflow gives up",
                          "cycle: FT_FALLBACK packed, back in HB_FT hb.repack fails again", "fixS failed then fixL tried")
    in_parent = True
    chunk = 256

    def budget(self, tier):
        return 6 if tier == "quick" else 9

    def setup(self, tier, seed):
        self.tlc = TLCRun(self.budget(tier))
        self.graph_info = None

    def setup_replay(self):
        pass  # cases are self-contained

    def bounds(self, tier, seed):
        b = {"answer_budget": self.budget(tier), "model": "models/Repacker.tla", "table_tags": ["GSUB", "GPOS", "GDEF"]}
        if self.graph_info:
            b.update(self.graph_info)
        return b

    def cases(self, tier, seed):
        rc, out, graph = self.tlc.result()
        ok = rc == 0 and "No error has been found" in out and graph is not None
        m = re.search(r"(\d+) states generated, (\d+) distinct states found", out)
        if not ok:
            yield ["tlc-failed", rc, out[-3000:]]
            return
        nodes, edges, inits = graph
        nedges = sum(len(v) for v in edges.values())
        paths = enumerate_paths(nodes, edges, inits)
        labels = sorted({a.split("(")[0] for v in edges.values() for _t, a in v})
        self.graph_info = {"tlc_states": len(nodes), "tlc_edges": nedges, "tlc_initial_states": len(inits),
                           "tlc_distinct_states_reported": int(m.group(2)) if m else None,
                           "maximal_paths": len(paths), "actions": labels}
        yield ["graph", len(nodes), nedges, int(m.group(2)) if m else -1, labels]
        keep = ("st", "pc", "res", "cur", "last", "ev", "unres")
        for p in paths:
            st0 = nodes[p[0]]
            init = {"cfg": st0["cfg"], "hb": st0["hb"], "layout": st0["layout"]}
            yield ["path", init, [{k: nodes[n][k] for k in keep} for n in p]]

    def check(self, case, rec):
        if case[0] == "tlc-failed":
            rec.violation("tlc:model-check-failed", "TLC did not finish cleanly (exit %s):\n%s" % (case[1], case[2]))
            return
        if case[0] == "graph":
            _g, nstates, nedges, reported, labels = case
            if reported != nstates:
                rec.violation("tlc:dump-incomplete", "dump has %d states, TLC reported %d" % (nstates, reported))
            for a in ("PackOk", "HbError", "Overflow", "FixOk", "FixFail"):
                if a not in labels:
                    rec.violation("tlc:action-never-taken", "action %s has no edge in the state graph" % a)
            rec.state_n(nstates)
            rec.transition(nedges)
            rec.witness("TLC finished without error")
            return
        _p, init, states = case
        events = [s["ev"] for s in states[1:]]
        tags = ("GSUB", "GPOS") if init["layout"] else ("GDEF",)
        for tag in tags:
            exp_log, exp_out = model_expectation(states, tag)
            log, out = replay_control_path(init, events, tag)
            rec.trace()
            rec.nontrivial([tag, init, events])
            rec.outcome(out)
            if log != exp_log:
                rec.violation("control-loop:call-sequence", "compile(%s) cfg=%s uharfbuzz=%s answers=%s: calls differ from the model path" % (tag, init["cfg"], init["hb"], events),
                              observed=log, expected=exp_log)
            elif out != exp_out:
                rec.violation("control-loop:outcome", "compile(%s) cfg=%s uharfbuzz=%s answers=%s: outcome differs from the model path" % (tag, init["cfg"], init["hb"], events),
                              observed=out, expected=exp_out)
        rec.evals(len(tags) - 1)
        # witnesses, from the model path
        last = states[-1]
        sts = [s["st"] for s in states]
        if last["pc"] == "done":
            r = last["res"]
            if r == "hb":
                rec.witness("path returns hb packing")
            elif r == "ft":
                rec.witness("path returns ft packing")
            elif r == "ftnd":
                rec.witness("path returns ftnd packing after hb error")
            elif r == "OTLOffsetOverflowError":
                rec.witness("path raises OTLOffsetOverflowError")
            elif r == "ImportError":
                rec.witness("path raises ImportError")
        if "FT_FALLBACK" in sts:
            rec.witness("path visits FT_FALLBACK")
        if any(s["unres"] and s["ev"] in ("L", "S") for s in states):
            rec.witness("same-record overflow gives up")
        if "FT_FALLBACK" in sts:
            i = sts.index("FT_FALLBACK")
            back = [k for k in range(i, len(sts)) if sts[k] == "HB_FT"]
            if back and any(s["ev"] in _HB_ERRORS for s in states[back[0] + 1:]):
                # observation, not a violation (the property does not speak of termination): hb.repack failing,
                # the pure packer succeeding and the resolver failing cycle HB_FT <-> FT_FALLBACK until the horizon
                rec.witness("cycle: FT_FALLBACK packed, back in HB_FT hb.repack fails again")
        for a, b in zip(states, states[1:]):
            if a["pc"] == "fixS" and b["pc"] == "fixX":
                rec.witness("fixS failed then fixL tried")
                break



# =========================================================================================
# shared: host font, sfnt assembly, HarfBuzz reader
# =========================================================================================
PUA = 0xF0000  # glyph g is fed to HarfBuzz as code point PUA+g (plane 15: category Co, no normalisation)
X_OUT, Y_OUT = 3, 4  # glyphs that never occur in a generated rule


def adv_of(g):
    return 400 + (g % 7) * 10


def pua_cmap(n):
    sub = struct.pack(">HHLLL", 12, 0, 16 + 12, 0, 1) + struct.pack(">LLL", PUA, PUA + n - 1, 0)
    return struct.pack(">HH", 0, 1) + struct.pack(">HHL", 3, 10, 12) + sub


def build_sfnt(tables, version=b"\0\1\0\0"):
    """Minimal sfnt writer (HarfBuzz does not verify checksums)."""
    tags = sorted(tables)
    n = len(tags)
    es = max(i for i in range(16) if (1 << i) <= n)
    out = [struct.pack(">4sHHHH", version, n, (1 << es) * 16, es, n * 16 - (1 << es) * 16)]
    off = 12 + 16 * n
    body = []
    for t in tags:
        d = tables[t]
        out.append(struct.pack(">4sLLL", t.encode("latin-1"), 0, off, len(d)))
        pad = (-len(d)) % 4
        body.append(d + b"\0" * pad)
        off += len(d) + pad
    return b"".join(out + body)


def host_tables(n):
    """Tables of a host font with n empty glyphs g0..g(n-1), advance adv_of(g), PUA cmap."""
    from fontTools.fontBuilder import FontBuilder
    from fontTools.ttLib.tables._g_l_y_f import Glyph

    names = ["g%d" % i for i in range(n)]
    fb = FontBuilder(1000, isTTF=True)
    fb.setupGlyphOrder(names)
    fb.setupCharacterMap({})
    fb.setupGlyf({g: Glyph() for g in names})
    fb.setupHorizontalMetrics({g: (adv_of(i), 0) for i, g in enumerate(names)})
    fb.setupHorizontalHeader(ascent=800, descent=-200)
    fb.setupNameTable({"familyName": "C06", "styleName": "Regular"})
    fb.setupOS2()
    fb.setupPost(keepGlyphNames=False)
    buf = io.BytesIO()
    fb.font.save(buf)
    f = TTFont(io.BytesIO(buf.getvalue()))
    tabs = {tag: f.reader[tag] for tag in f.reader.keys()}
    tabs["cmap"] = pua_cmap(n)
    return tabs


class Shaper:
    """HarfBuzz on sfnt bytes; glyph sequences go in as PUA code points."""

    def __init__(self, data):
        self.face = hb.Face(hb.Blob(data))
        self.font = hb.Font(self.face)
        self.font.scale = (self.face.upem, self.face.upem)

    def shape(self, gids, features):
        buf = hb.Buffer()
        buf.add_codepoints([PUA + g for g in gids])
        buf.direction = "ltr"
        buf.script = "latn"
        buf.language = "en"
        buf.cluster_level = hb.BufferClusterLevel.MONOTONE_CHARACTERS
        hb.shape(self.font, buf, features)
        return [(i.codepoint, i.cluster, p.x_advance, p.y_advance, p.x_offset, p.y_offset)
                for i, p in zip(buf.glyph_infos, buf.glyph_positions)]

    def shape_groups(self, groups, features, sep=X_OUT, batch=1500):
        """Shape many short sequences in few buffers (separated by an outsider glyph);
        returns per group the list of (gid, xadv, yadv, xoff, yoff)."""
        out = []
        for b0 in range(0, len(groups), batch):
            part = groups[b0:b0 + batch]
            seq, starts = [], []
            for g in part:
                starts.append(len(seq))
                seq.extend(g)
                seq.append(sep)
            res = self.shape(seq, features)
            per = [[] for _ in part]
            gi = 0
            for gid, cl, xa, ya, xo, yo in res:
                while gi + 1 < len(starts) and cl >= starts[gi + 1]:
                    gi += 1
                per[gi].append((gid, xa, ya, xo, yo))
            for g, got in zip(part, per):
                if not got or got[-1] != (sep, adv_of(sep), 0, 0, 0):
                    got.append("separator-changed")
                else:
                    got.pop()
            out.extend(per)
        return out


def plain(gids):
    return [(g, adv_of(g), 0, 0, 0) for g in gids]


def layout_table(tag, lookups, features):
    """GSUB/GPOS with script DFLT+latn, default langsys listing all `features` [(tag, [lookup index])]."""
    t = newTable(tag)
    tb = t.table = getattr(ot, tag)()
    tb.Version = 0x00010000
    tb.ScriptList = ot.ScriptList()
    tb.ScriptList.ScriptRecord = []
    for stag in ("DFLT", "latn"):
        sr = ot.ScriptRecord()
        sr.ScriptTag = stag
        sr.Script = ot.Script()
        ls = sr.Script.DefaultLangSys = ot.DefaultLangSys()
        ls.ReqFeatureIndex = 0xFFFF
        ls.LookupOrder = None
        ls.FeatureIndex = list(range(len(features)))
        ls.FeatureCount = len(features)
        sr.Script.LangSysRecord = []
        sr.Script.LangSysCount = 0
        tb.ScriptList.ScriptRecord.append(sr)
    tb.ScriptList.ScriptCount = 2
    tb.FeatureList = ot.FeatureList()
    tb.FeatureList.FeatureRecord = []
    for ftag, idx in features:
        fr = ot.FeatureRecord()
        fr.FeatureTag = ftag
        fr.Feature = ot.Feature()
        fr.Feature.FeatureParams = None
        fr.Feature.LookupListIndex = list(idx)
        fr.Feature.LookupCount = len(idx)
        tb.FeatureList.FeatureRecord.append(fr)
    tb.FeatureList.FeatureCount = len(features)
    tb.LookupList = ot.LookupList()
    tb.LookupList.Lookup = list(lookups)
    tb.LookupList.LookupCount = len(lookups)
    return t


def lookup_summary(data):
    """[(lookupType, subtableCount, [extension inner types])] read from compiled GSUB/GPOS bytes
    (independent little reader, used for witnesses)."""
    (ll,) = struct.unpack_from(">H", data, 8)
    (n,) = struct.unpack_from(">H", data, ll)
    out = []
    for i in range(n):
        (lo,) = struct.unpack_from(">H", data, ll + 2 + 2 * i)
        typ, _flag, cnt = struct.unpack_from(">HHH", data, ll + lo)
        out.append((typ, cnt))
    return out



# =========================================================================================
# (b) generated tables that overflow at every level
# =========================================================================================
NG = 12000  # glyphs of the host font
FEAT = {"tst1": True}


def gn(i):
    return "g%d" % i


VAL_SEED = 0  # set from the case: instantiates "some non-zero value" differently per VERIF_SEED


def val(i, j):
    """Non-zero value in [-199, 199], a function of the rule coordinates (rows i, i' differ for i != i')."""
    v = 1 + (i * 131 + j * 17 + (i // 199) * (j + 1) * 5 + VAL_SEED * 29) % 199
    return -v if (i + j) % 2 else v


def _wrap_ext(subtables, tag, ext):
    return B.buildLookup(subtables, table=tag, extension=bool(ext))


class Checks:
    """Collects (input glyphs, expected shaping) groups of one generated table."""

    def __init__(self):
        self.groups = []
        self.expect = []
        self.kinds = []
        self.features = FEAT

    def add(self, kind, gids, expected):
        self.kinds.append(kind)
        self.groups.append(list(gids))
        self.expect.append(list(expected))

    def run(self, shaper):
        got = shaper.shape_groups(self.groups, self.features)
        bad = []
        for k, g, e, o in zip(self.kinds, self.groups, self.expect, got):
            if e != o:
                bad.append((k, g, e, o))
        return bad, got


def fam_pairpos1(gm, kn, ext):
    """PairPos format 1: n first glyphs x m second glyphs, value val(i,j) on the first glyph."""
    n, m = kn["n"], kn["m"]
    F, S = 10, 1500
    pairs = {}
    for i in range(n):
        for j in range(m):
            pairs[(gn(F + i), gn(S + j))] = (B.buildValue({"XAdvance": val(i, j)}), None)
    st = B.buildPairPosGlyphsSubtable(pairs, gm)
    ck = Checks()
    for i in range(n):
        for j in range(m):
            ck.add("rule", [F + i, S + j], [(F + i, adv_of(F + i) + val(i, j), 0, 0, 0)] + plain([S + j]))
        ck.add("neg", [F + i, Y_OUT], plain([F + i, Y_OUT]))
    for j in range(m):
        ck.add("neg", [Y_OUT, S + j], plain([Y_OUT, S + j]))
    return "GPOS", [_wrap_ext([st], "GPOS", ext)], [("tst1", [0])], ck, n * m


def fam_pairpos1then2(gm, kn, ext):
    """One lookup: a PairPos format 1 subtable (n first x m second glyphs) FOLLOWED by a class subtable
    that covers the same first glyphs and gives every (first, second) pair - also two second glyphs the
    glyph pairs do not list - the value CV: the glyph pairs are exceptions in front of it, and whatever
    a split does to the first subtable, its halves have to stay in front."""
    n, m = kn["n"], kn["m"]
    F, S, CV = 10, 1500, -77
    pairs = {}
    for i in range(n):
        for j in range(m):
            pairs[(gn(F + i), gn(S + j))] = (B.buildValue({"XAdvance": val(i, j)}), None)
    st1 = B.buildPairPosGlyphsSubtable(pairs, gm)
    firsts = tuple(gn(F + i) for i in range(n))
    seconds = tuple(gn(S + j) for j in range(m + 2))
    st2 = B.buildPairPosClassesSubtable({(firsts, seconds): (B.buildValue({"XAdvance": CV}), None)}, gm)
    ck = Checks()
    for i in range(n):
        for j in range(m):
            ck.add("rule", [F + i, S + j], [(F + i, adv_of(F + i) + val(i, j), 0, 0, 0)] + plain([S + j]))
        for j in (m, m + 1):
            ck.add("rule", [F + i, S + j], [(F + i, adv_of(F + i) + CV, 0, 0, 0)] + plain([S + j]))
        ck.add("neg", [F + i, Y_OUT], plain([F + i, Y_OUT]))
    return "GPOS", [_wrap_ext([st1, st2], "GPOS", ext)], [("tst1", [0])], ck, n * (m + 2)


def _pp2_classes(c1, c2):
    # class k of side 1: glyphs 1000+2k (and 1000+2k+1 when k is even); side 2 from 6000
    cl1 = [tuple(gn(1000 + 2 * k + d) for d in range(2 if k % 2 == 0 else 1)) for k in range(c1)]
    cl2 = [tuple(gn(6000 + 2 * l + d) for d in range(2 if l % 2 == 0 else 1)) for l in range(c2)]
    return cl1, cl2


def fam_pairpos2(gm, kn, ext):
    """PairPos format 2: c1 x c2 classes; cell (k,l) is non-zero iff k%G == l%G (G=1: dense)."""
    c1, c2, G = kn["c1"], kn["c2"], kn.get("G", 1)
    cl1, cl2 = _pp2_classes(c1, c2)
    pairs = {}
    for k in range(c1):
        for l in range(c2):
            if k % G == l % G:
                pairs[(cl1[k], cl2[l])] = (B.buildValue({"XAdvance": val(k, l)}), B.buildValue({"XAdvance": val(l, k)}))
    st = B.buildPairPosClassesSubtable(pairs, gm)
    ck = Checks()
    gid = lambda name: int(name[1:])
    if kn.get("stray"):
        # ClassDef1 also classifies glyphs that are NOT in the subtable's Coverage (as when one class
        # definition is shared by several subtables): they are never first glyphs of this subtable
        for q in range(3):
            st.ClassDef1.classDefs[gn(900 + q)] = 1 + q % max(1, c1 - 1)
            for l in range(min(c2, 4)):
                ck.add("neg", [900 + q, gid(cl2[l][0])], plain([900 + q, gid(cl2[l][0])]))
    for k in range(c1):
        for l in range(c2):
            v, v2 = (val(k, l), val(l, k)) if k % G == l % G else (0, 0)
            for a in cl1[k]:
                for b in cl2[l]:
                    ck.add("rule" if v else "zero", [gid(a), gid(b)], [(gid(a), adv_of(gid(a)) + v, 0, 0, 0), (gid(b), adv_of(gid(b)) + v2, 0, 0, 0)])
        ck.add("neg", [gid(cl1[k][0]), Y_OUT], plain([gid(cl1[k][0]), Y_OUT]))
    for l in range(c2):
        ck.add("neg", [Y_OUT, gid(cl2[l][0])], plain([Y_OUT, gid(cl2[l][0])]))
    return "GPOS", [_wrap_ext([st], "GPOS", ext)], [("tst1", [0])], ck, len(pairs)


def fam_markbase(gm, kn, ext):
    """MarkBasePos: nm marks in nc classes (mark p has class p % nc) x nb bases, all anchors distinct."""
    nm, nc, nb = kn["nm"], kn["nc"], kn["nb"]
    M, Bs = 10, 3000
    manch = lambda p: (1 + p % 50, 3 + 2 * (p % 40))
    banch = lambda q, c: (100 + 3 * q + c, 200 + 5 * c + q)
    marks = {gn(M + p): (p % nc, B.buildAnchor(*manch(p))) for p in range(nm)}
    bases = {gn(Bs + q): {c: B.buildAnchor(*banch(q, c)) for c in range(nc)} for q in range(nb)}
    st = B.buildMarkBasePosSubtable(marks, bases, gm)
    ck = Checks()
    for q in range(nb):
        for p in range(nm):
            bx, by = banch(q, p % nc)
            mx, my = manch(p)
            ck.add("rule", [Bs + q, M + p], plain([Bs + q]) + [(M + p, adv_of(M + p), 0, bx - mx - adv_of(Bs + q), by - my)])
        ck.add("neg", [Bs + q, Y_OUT], plain([Bs + q, Y_OUT]))
    for p in range(nm):
        ck.add("neg", [Y_OUT, M + p], plain([Y_OUT, M + p]))
    return "GPOS", [_wrap_ext([st], "GPOS", ext)], [("tst1", [0])], ck, nm * nb


def fam_singlepos2(gm, kn, ext):
    """SinglePos format 2: n glyphs, each its own 4-field value record."""
    n = kn["n"]
    A = 10
    vals = lambda i: (val(i, 1), val(i, 2), val(i, 3), val(i, 4))
    values = {}
    for i in range(n):
        a, b, c, d = vals(i)
        values[gn(A + i)] = B.buildValue({"XPlacement": a, "YPlacement": b, "XAdvance": c, "YAdvance": d})
    st = B.buildSinglePosSubtable(values, gm)
    ck = Checks()
    for i in range(n):
        a, b, c, _d = vals(i)  # YAdvance is not applied to horizontal text
        ck.add("rule", [A + i], [(A + i, adv_of(A + i) + c, 0, a, b)])
    ck.add("neg", [Y_OUT], plain([Y_OUT]))
    ck.add("neg", [A + n], plain([A + n]))
    return "GPOS", [_wrap_ext([st], "GPOS", ext)], [("tst1", [0])], ck, n


def fam_ligature(gm, kn, ext):
    """LigatureSubst: n first glyphs x m second components; output glyph injective in (i,j)
    (share=0) or a function of j only (share=1: identical Ligature tables across sets)."""
    n, m, share = kn["n"], kn["m"], kn.get("share", 0)
    F, S, O = 10, 500, 1000
    out = (lambda i, j: O + j) if share else (lambda i, j: O + i * m + j)
    mapping = {(gn(F + i), gn(S + j)): gn(out(i, j)) for i in range(n) for j in range(m)}
    st = B.buildLigatureSubstSubtable(mapping)
    ck = Checks()
    for i in range(n):
        for j in range(m):
            ck.add("rule", [F + i, S + j], plain([out(i, j)]))
        ck.add("neg", [F + i, Y_OUT], plain([F + i, Y_OUT]))
    for j in range(m):
        ck.add("neg", [Y_OUT, S + j], plain([Y_OUT, S + j]))
    return "GSUB", [_wrap_ext([st], "GSUB", ext)], [("tst1", [0])], ck, n * m


def _seq(i, L):
    return [6000 + (i * 7 + k * 13) % 5000 for k in range(L)]


def fam_multiple(gm, kn, ext):
    """MultipleSubst: n glyphs, each replaced by its own sequence of L glyphs."""
    n, L = kn["n"], kn["L"]
    A = 10
    mapping = {gn(A + i): [gn(g) for g in _seq(i, L)] for i in range(n)}
    st = B.buildMultipleSubstSubtable(mapping)
    ck = Checks()
    for i in range(n):
        ck.add("rule", [A + i], plain(_seq(i, L)))
    ck.add("neg", [Y_OUT], plain([Y_OUT]))
    ck.add("neg", [A + n], plain([A + n]))
    return "GSUB", [_wrap_ext([st], "GSUB", ext)], [("tst1", [0])], ck, n


def fam_alternate(gm, kn, ext):
    """AlternateSubst: n glyphs with L alternates each; feature value a selects alternate a."""
    n, L = kn["n"], kn["L"]
    A = 10
    mapping = {gn(A + i): [gn(g) for g in _seq(i, L)] for i in range(n)}
    st = B.buildAlternateSubstSubtable(mapping)
    cks = []
    for a in range(L):
        ck = Checks()
        ck.features = {"tst1": a + 1}
        for i in range(n):
            ck.add("rule", [A + i], plain([_seq(i, L)[a]]))
        ck.add("neg", [Y_OUT], plain([Y_OUT]))
        ck.add("neg", [A + n], plain([A + n]))
        cks.append(ck)
    return "GSUB", [_wrap_ext([st], "GSUB", ext)], [("tst1", [0])], cks, n * L


def _rot_single(k, w):
    """SingleSubst over [10, 10+w): g -> glyph rotated by k+1 inside the range (never a constant delta)."""
    return {gn(10 + i): gn(10 + (i + k + 1) % w) for i in range(w)}


def _posvals(k, i):
    return (val(k, i), val(i, k), val(k + i, 3), val(k, i + 5))


def _pos_sub(k, lo, w, gm):
    vals = {}
    for i in range(w):
        a, b, c, d = _posvals(k, i)
        vals[gn(lo + i)] = B.buildValue({"XPlacement": a, "YPlacement": b, "XAdvance": c, "YAdvance": d})
    return B.buildSinglePosSubtable(vals, gm)


def _pos_expect(k, lo, i):
    a, b, c, _d = _posvals(k, i)
    return [(lo + i, adv_of(lo + i) + c, 0, a, b)]


def _mult_map(lo, w, L=6):
    return {gn(lo + i): [gn(g) for g in _seq(lo + i, L)] for i in range(w)}


def fam_manylookups(gm, kn, ext):
    """LookupList with K lookups of one subtable each over the same w glyphs, lookup k under its own
    feature 'L%03d' (GSUB: rotation by k+1; GPOS: 4-field values)."""
    K, w, tag = kn["K"], kn["w"], kn["tag"]
    lookups, cks, feats = [], [], []
    for k in range(K):
        ck = Checks()
        ck.features = {"L%03d" % k: True}
        feats.append(("L%03d" % k, [k]))
        if tag == "GSUB":
            lookups.append(_wrap_ext([B.buildSingleSubstSubtable(_rot_single(k, w))], tag, ext))
            for i in range(w):
                ck.add("rule", [10 + i], plain([10 + (i + k + 1) % w]))
        else:
            lookups.append(_wrap_ext([_pos_sub(k, 10, w, gm)], tag, ext))
            for i in range(w):
                ck.add("rule", [10 + i], _pos_expect(k, 10, i))
        ck.add("neg", [Y_OUT], plain([Y_OUT]))
        ck.add("neg", [10 + w], plain([10 + w]))
        cks.append(ck)
    return tag, lookups, feats, cks, K * w


def fam_manysubtables(gm, kn, ext):
    """One lookup with K subtables over disjoint ranges of w glyphs (GSUB: MultipleSubst, GPOS: SinglePos)."""
    K, w, tag = kn["K"], kn["w"], kn["tag"]
    sts, ck = [], Checks()
    for k in range(K):
        lo = 10 + w * k
        if tag == "GSUB":
            sts.append(B.buildMultipleSubstSubtable(_mult_map(lo, w)))
            for i in range(w):
                ck.add("rule", [lo + i], plain(_seq(lo + i, 6)))
        else:
            sts.append(_pos_sub(k, lo, w, gm))
            for i in range(w):
                ck.add("rule", [lo + i], _pos_expect(k, lo, i))
    ck.add("neg", [Y_OUT], plain([Y_OUT]))
    ck.add("neg", [10 + w * K], plain([10 + w * K]))
    return tag, [_wrap_ext(sts, tag, ext)], [("tst1", [0])], ck, K * w


def fam_chain(gm, kn, ext):
    """Lookup 0: ChainContextSubst with K format-3 subtables 'x_k followed by g5 -> apply lookup 1+k';
    lookups 1..K: MultipleSubst over disjoint ranges of w glyphs (only reachable through the chain)."""
    K, w = kn["K"], kn["w"]
    LA = 5
    sts, ck = [], Checks()
    lookups = []
    for k in range(K):
        lo = 10 + w * k
        x = lo + (k * 7) % w
        st = ot.ChainContextSubst()
        st.Format = 3
        st.BacktrackGlyphCount = 0
        st.BacktrackCoverage = []
        st.InputGlyphCount = 1
        st.InputCoverage = [B.buildCoverage({gn(x)}, gm)]
        st.LookAheadGlyphCount = 1
        st.LookAheadCoverage = [B.buildCoverage({gn(LA)}, gm)]
        rec = ot.SubstLookupRecord()
        rec.SequenceIndex = 0
        rec.LookupListIndex = 1 + k
        st.SubstLookupRecord = [rec]
        st.SubstCount = 1
        sts.append(st)
        lookups.append(_wrap_ext([B.buildMultipleSubstSubtable(_mult_map(lo, w))], "GSUB", ext))
        ck.add("rule", [x, LA], plain(_seq(x, 6) + [LA]))
        ck.add("neg", [x, Y_OUT], plain([x, Y_OUT]))
        ck.add("neg", [x], plain([x]))
        other = lo + (x - lo + 1) % w
        ck.add("neg", [other, LA], plain([other, LA]))
    return "GSUB", [_wrap_ext(sts, "GSUB", ext)] + lookups, [("tst1", [0])], ck, K


FAMILIES = {
    "pairpos1": fam_pairpos1, "pairpos1then2": fam_pairpos1then2, "pairpos2": fam_pairpos2, "markbase": fam_markbase, "singlepos2": fam_singlepos2,
    "ligature": fam_ligature, "multiple": fam_multiple, "alternate": fam_alternate,
    "manylookups": fam_manylookups, "manysubtables": fam_manysubtables, "chain": fam_chain,
}


def new_font(cfg_hb, n=NG):
    f = TTFont()
    f.setGlyphOrder(["g%d" % i for i in range(n)])
    f.cfg[HB_OPT] = cfg_hb
    return f


class Spy:
    """Counts the overflow-resolution steps of one compile by wrapping the resolver entry points."""

    def __init__(self, limit=None):
        self.calls = collections.Counter()
        self.limit = limit

    def __enter__(self):
        spy = self
        self.saved = (ot.fixLookupOverFlows, ot.fixSubTableOverFlows, {t: dict(d) for t, d in ot.splitTable.items()},
                      otBase.OTTableWriter.getAllDataUsingHarfbuzz, otBase.OTTableWriter.getAllData)

        def wrap(name, fn, ok_only=False):
            def w(*a, **k):
                if ok_only and spy.limit is not None and spy.calls["fixLookupOverFlows"] + spy.calls["fixSubTableOverFlows"] >= spy.limit:
                    raise _Runaway()
                r = fn(*a, **k)
                spy.calls[name] += 1
                if r:
                    spy.calls[name + ":ok"] += 1
                return r
            return w

        ot.fixLookupOverFlows = wrap("fixLookupOverFlows", self.saved[0], True)
        ot.fixSubTableOverFlows = wrap("fixSubTableOverFlows", self.saved[1], True)
        for t, d in ot.splitTable.items():
            for typ, fn in list(d.items()):
                d[typ] = wrap(fn.__name__, fn)
        hbpack, ftpack = self.saved[3], self.saved[4]

        def hbp(self_, tag):
            try:
                r = hbpack(self_, tag)
            except Exception as e:
                spy.calls["hb.repack raised %s" % type(e).__name__] += 1
                raise
            spy.calls["hb.repack ok"] += 1
            return r

        def ftp(self_, remove_duplicate=True):
            spy.calls["getAllData" if remove_duplicate else "getAllData(nodedup)"] += 1
            return ftpack(self_, remove_duplicate)

        otBase.OTTableWriter.getAllDataUsingHarfbuzz = hbp
        otBase.OTTableWriter.getAllData = ftp
        return self

    def __exit__(self, *a):
        ot.fixLookupOverFlows, ot.fixSubTableOverFlows = self.saved[0], self.saved[1]
        for t, d in self.saved[2].items():
            ot.splitTable[t].clear()
            ot.splitTable[t].update(d)
        otBase.OTTableWriter.getAllDataUsingHarfbuzz, otBase.OTTableWriter.getAllData = self.saved[3], self.saved[4]



class _Runaway(BaseException):
    """More overflow-resolution steps than any table of the grid can need."""


MAX_RESOLUTION_STEPS = 32


def _p(fam, base, knob, T, big=(), **kw):
    return dict(fam=fam, base=base, knob=knob, T=T, big=big, **kw)


# T = smallest knob value at which the pure-Python packer meets a 16-bit offset overflow (calibrated by
# bisection on the unchanged tree; the per-family below/above witnesses keep the calibration honest)
PRIMARY = [
    _p("pairpos1", dict(n=100), "m", 165, big=(350, 545)),
    _p("pairpos1then2", dict(n=100), "m", 163, big=(350,)),
    _p("pairpos2", dict(c2=64), "c1", 246, big=(520,)),
    _p("markbase", dict(nm=64, nc=32), "nb", 257, big=(540, 850)),
    _p("singlepos2", dict(), "n", 8191, big=(11900,)),
    _p("ligature", dict(n=64), "m", 128, big=(165,)),
    _p("multiple", dict(n=512), "L", 63, big=(132, 210)),
    _p("alternate", dict(n=512), "L", 62, big=(130, 205)),
    _p("manylookups", dict(w=300, tag="GSUB"), "K", 107, big=(225,)),
    _p("manylookups", dict(w=100, tag="GPOS"), "K", 81, big=(170,)),
    _p("manysubtables", dict(w=50, tag="GSUB"), "K", 82, big=(172,)),
    _p("manysubtables", dict(w=100, tag="GPOS"), "K", 81, big=(110,)),
    _p("chain", dict(w=50), "K", 78, big=(165,)),
]
SECONDARY = [
    _p("pairpos1", dict(n=1000), "m", 16),
    _p("pairpos1", dict(m=1000), "n", 18),
    _p("pairpos2", dict(c1=64), "c2", 254),
    _p("pairpos2", dict(c2=64, G=4), "c1", 246),
    _p("markbase", dict(nm=16, nc=8), "nb", 1025),
    _p("markbase", dict(nm=400, nc=200), "nb", 41),
    _p("ligature", dict(n=1000), "m", 8),
    _p("ligature", dict(m=1000), "n", 9),
    _p("multiple", dict(L=4), "n", 7765),
    _p("alternate", dict(L=4), "n", 7765),
]
# tables for which no split exists (one set / one class): success or OTLOffsetOverflowError are both fine
STUCK = [
    ("ligature", dict(n=1, m=8200)),
    ("markbase", dict(nm=2, nc=1, nb=8200)),
    ("markbase", dict(nm=4, nc=2, nb=8200)),
]
HB_CFGS = ("False", "None", "True")
_CFGV = {"False": False, "None": None, "True": True}


def fam_key(fam, kn):
    return fam + ("-" + kn["tag"] if "tag" in kn else "")


class Overflow(Unit):
    name = "overflow"
    rule = ("generated GSUB/GPOS tables with semantics known by construction: families PairPos1 (n firsts x m pairs), PairPos2 (c1 x c2 classes, dense or block-sparse), MarkBasePos "
            "(marks x classes x bases), SinglePos2, LigatureSubst (sets x ligatures), MultipleSubst, AlternateSubst, LookupList of K lookups (GSUB, GPOS), Lookup of K subtables (GSUB, GPOS), "
            "chain-context lookup referencing K lookups; one size knob per shape on {T-1, T, T+1, ~2.1T (quick)} / {T-2..T+2, ~2.1T, ~3.3T (thorough)} around the calibrated first-overflow "
            "value T (LookupList->Lookup, Lookup->SubTable, SubTable->Coverage/ClassDef/Set/Array/Anchor offsets) x USE_HARFBUZZ_REPACKER {False, None, True} x extension pre-applied {no, yes} "
            "x GPOS compaction level (PairPos2: {0,1,5,9} quick / 0..9 thorough); plus unsplittable tables (one LigatureSet, one mark class). Oracle: HarfBuzz shaping of the compiled bytes gives, for "
            "EVERY rule (all pairs / mark-base pairs / ligatures / sequences / alternates, enumerated completely) and for one outsider glyph per position, exactly the intended glyphs and "
            "positions; a failed packing surfaces as OTLOffsetOverflowError only (no other exception, no runaway resolution); a second compile of the same in-memory table shapes identically; "
            "distinct = each (family, knobs, configuration)")
    chunk = 1
    required_witnesses = tuple(
        ["ran " + f for f in ("splitPairPos", "splitMarkBasePos", "splitSinglePos", "splitLigatureSubst", "splitMultipleSubst", "splitAlternateSubst")]
        + ["extension promotion ran (fixLookupOverFlows)", "DontShare set before splitting", "hb repacker produced the result", "hb.repack failed, pure-python packing of the hb graph used",
           "FT_FALLBACK state entered", "OTLOffsetOverflowError surfaced for an unsplittable table", "out: lookup promoted to extension", "out: more subtables than built",
           "second compile after in-memory split: same shaping", "second compile under the other repacker: different bytes, same shaping", "compaction produced several subtables", "compaction of an Extension lookup produced several subtables", "PairPos2 split with class renumbering read back"]
        + ["%s: %s" % (k, w) for k in sorted({fam_key(p["fam"], p["base"]) for p in PRIMARY}) for w in ("below boundary packs without resolution", "above boundary needs resolution")])

    def setup(self, tier, seed):
        self.host = host_tables(NG)

    def sizes(self, p, tier):
        T = p["T"]
        if tier == "quick":
            return [T - 1, T, T + 1] + list(p["big"][:1])
        return [T - 2, T - 1, T, T + 1, T + 2] + list(p["big"])

    def cases(self, tier, seed):
        quick = tier == "quick"
        out = []
        # unsplittable tables first (the longest cases)
        for fam, kn in STUCK:
            for hbc in (("False", "None") if quick else HB_CFGS):
                for ext in ((0,) if quick else (0, 1)):
                    out.append([fam, kn, hbc, 0, ext, "stuck"])
        for p in PRIMARY:
            for v in self.sizes(p, tier):
                kn = dict(p["base"], **{p["knob"]: v})
                side = "below" if v < p["T"] else "above"
                for hbc in HB_CFGS:
                    for ext in (0, 1):
                        if quick and hbc == "True" and not (v == p["T"] + 1 and ext == 0):
                            continue  # True == None when uharfbuzz is importable: one deviation only
                        out.append([p["fam"], kn, hbc, 0, ext, side])
        for p in SECONDARY:
            for v in ([p["T"] - 1, p["T"], p["T"] + 1] if quick else [p["T"] - 2, p["T"] - 1, p["T"], p["T"] + 1, p["T"] + 2]):
                kn = dict(p["base"], **{p["knob"]: v})
                for hbc in (("False", "None") if quick else HB_CFGS):
                    for ext in ((0,) if quick else (0, 1)):
                        out.append([p["fam"], kn, hbc, 0, ext, "below" if v < p["T"] else "above"])
        # compaction: class kerning at the boundary and small class kerning, every level
        levels = (1, 5, 9) if quick else tuple(range(1, 10))
        for c2 in (253, 254, 255):
            for G in ((4,) if quick else (1, 2, 4)):
                for lv in levels:
                    for hbc in ("False", "None"):
                        for ext in ((0,) if quick else (0, 1)):
                            out.append(["pairpos2", dict(c1=64, c2=c2, G=G), hbc, lv, ext, None])
        for G in (1, 2, 3, 4):
            for lv in range(0, 10):
                for hbc in (("False", "None") if quick else HB_CFGS):
                    # ext=1: the class kerning sits behind Extension subtables when it is compacted
                    for ext in (0, 1):
                        out.append(["pairpos2", dict(c1=24, c2=20, G=G), hbc, lv, ext, None])
                    # ClassDef1 entries for glyphs outside the Coverage must stay inert through compaction
                    out.append(["pairpos2", dict(c1=24, c2=20, G=G, stray=1), hbc, lv, 0, None])
        if not quick:
            for lv in levels:
                out.append(["pairpos1", dict(n=100, m=166), "False", lv, 0, None])
                out.append(["pairpos2", dict(c1=247, c2=64, G=4), "False" if lv % 2 else "None", lv, 0, None])
        return [c + [seed] for c in out]

    def bounds(self, tier, seed):
        return {"host_glyphs": NG, "primary": [[p["fam"], p["base"], p["knob"], self.sizes(p, tier)] for p in PRIMARY],
                "secondary": [[p["fam"], p["base"], p["knob"], p["T"]] for p in SECONDARY], "unsplittable": STUCK,
                "max_resolution_steps": MAX_RESOLUTION_STEPS, "rules_read_back": "all (no stride)"}

    # -- one table ---------------------------------------------------------------------
    def compile_spied(self, tbl, font):
        with Spy(limit=MAX_RESOLUTION_STEPS) as spy:
            try:
                return tbl.compile(font), None, spy.calls
            except OTLOffsetOverflowError as e:
                return None, e, spy.calls

    def run_checks(self, tag, data, cks):
        tabs = dict(self.host)
        tabs[tag] = data
        sh = Shaper(build_sfnt(tabs))
        bad, n = [], 0
        for ck in (cks if isinstance(cks, list) else [cks]):
            b, _got = ck.run(sh)
            bad += b
            n += len(ck.groups)
        return bad, n

    def check(self, case, rec):
        global VAL_SEED
        fam, kn, hbc, level, ext, side, VAL_SEED = case
        fkey_fam = fam_key(fam, kn)
        font = new_font(_CFGV[hbc])
        gm = font.getReverseGlyphMap()
        tag, lookups, feats, cks, nrules = FAMILIES[fam](gm, kn, ext)
        tbl = layout_table(tag, lookups, feats)
        font[tag] = tbl
        if level and tag == "GPOS":
            font.cfg[LEVEL_OPT] = level
            gpos_opt.compact(font, level)
            if max(len(l.SubTable) for l in tbl.table.LookupList.Lookup) > 1:
                rec.witness("compaction produced several subtables")
                if ext:
                    rec.witness("compaction of an Extension lookup produced several subtables")
        built = [(l.LookupType, len(l.SubTable)) for l in tbl.table.LookupList.Lookup]
        rec.state([fam, kn, hbc, level, ext])
        rec.nontrivial()

        try:
            data, err, calls = self.compile_spied(tbl, font)
        except _Runaway:
            rec.violation("overflow:resolution-does-not-terminate:%s" % fkey_fam,
                          "compile(%s) of %s %s [repacker=%s ext=%s level=%s] was stopped after %d overflow-resolution steps: every step 'succeeds' but the same overflow comes back"
                          % (tag, fam, kn, hbc, ext, level, MAX_RESOLUTION_STEPS),
                          observed=[(l.LookupType, len(l.SubTable)) for l in tbl.table.LookupList.Lookup][:4])
            return
        nfix = calls["fixLookupOverFlows"] + calls["fixSubTableOverFlows"]
        rec.transition(nfix)
        for name in ("splitPairPos", "splitMarkBasePos", "splitSinglePos", "splitLigatureSubst", "splitMultipleSubst", "splitAlternateSubst"):
            if calls[name + ":ok"]:
                rec.witness("ran " + name)
        if calls["fixLookupOverFlows:ok"]:
            rec.witness("extension promotion ran (fixLookupOverFlows)")
        if calls["fixSubTableOverFlows:ok"] > sum(calls[k] for k in calls if k.startswith("split") and k.endswith(":ok")):
            rec.witness("DontShare set before splitting")
        if calls["hb.repack ok"] and data is not None:
            rec.witness("hb repacker produced the result")
        if any(k.startswith("hb.repack raised") for k in calls) and calls["getAllData(nodedup)"]:
            rec.witness("hb.repack failed, pure-python packing of the hb graph used")
        if hbc != "False" and calls["getAllData"]:
            rec.witness("FT_FALLBACK state entered")
        if hbc == "False" and level == 0 and ext == 0 and side in ("below", "above"):
            if side == "below" and nfix == 0 and data is not None:
                rec.witness("%s: below boundary packs without resolution" % fkey_fam)
            elif side == "above" and nfix > 0:
                rec.witness("%s: above boundary needs resolution" % fkey_fam)
            else:
                rec.count("boundary calibration off: %s %s" % (fkey_fam, side))

        if err is not None:
            # the property allows a clean failure; it is expected only for the unsplittable tables
            rec.outcome(["OTLOffsetOverflowError", fam])
            if side == "stuck":
                rec.witness("OTLOffsetOverflowError surfaced for an unsplittable table")
            else:
                rec.count("clean failure on a splittable table: %s %s" % (fkey_fam, hbc))
            return

        summary = lookup_summary(data)
        ext_type = 7 if tag == "GSUB" else 9
        if any(t == ext_type for t, _c in summary) and not any(t == ext_type for t, _c in built):
            rec.witness("out: lookup promoted to extension")
        if sum(c for _t, c in summary) > sum(c for _t, c in built):
            rec.witness("out: more subtables than built")
        bad, n = self.run_checks(tag, data, cks)
        rec.evals(n)
        rec.outcome([fam, len(summary), sum(c for _t, c in summary), bool(bad)])
        if bad:
            k, g, e, o = bad[0]
            rec.violation("overflow:shaping:%s" % fkey_fam,
                          "%s %s [repacker=%s ext=%s level=%s, %d resolution steps: %s]: %d of %d read-back checks differ; first: %s input glyphs %s"
                          % (fam, kn, hbc, ext, level, nfix, {k_: v for k_, v in calls.items() if v}, len(bad), n, k, g), observed=o, expected=e)
            return
        if fam == "pairpos2" and calls["splitPairPos:ok"]:
            rec.witness("PairPos2 split with class renumbering read back")

        # compiling must leave the in-memory table semantically unchanged: compile the same object again,
        # once unchanged and once under the opposite repacker setting, and read every rule back
        other = "None" if hbc == "False" else "False"
        rounds = [("same configuration", hbc)]
        if nfix or side in ("above", "stuck"):  # the first compile changed the object, or the other packer has to resolve on its own
            rounds.append(("repacker=%s" % other, other))
        for again, hb2 in rounds:
            font.cfg[HB_OPT] = _CFGV[hb2]
            try:
                data2, err2, calls2 = self.compile_spied(tbl, font)
            except _Runaway:
                rec.violation("overflow:second-compile-does-not-terminate:%s" % fkey_fam, "second compile (%s) of %s %s [first: repacker=%s ext=%s]" % (again, fam, kn, hbc, ext))
                return
            rec.transition(calls2["fixLookupOverFlows"] + calls2["fixSubTableOverFlows"])
            if err2 is not None and hb2 != hbc and side == "stuck":
                # an unsplittable table that only the other packer can serialise: a clean failure is allowed
                rec.count("unsplittable table: the other packer fails cleanly on the second compile")
                continue
            if err2 is not None:
                rec.violation("overflow:second-compile-fails:%s" % fkey_fam, "%s %s [repacker=%s ext=%s level=%s]: first compile succeeded, compiling the same object again (%s) raises %r"
                              % (fam, kn, hbc, ext, level, again, err2))
                return
            if data2 != data:
                rec.count("second compile (%s): different bytes" % ("same cfg" if hb2 == hbc else "other repacker"))
                bad2, n2 = self.run_checks(tag, data2, cks)
                rec.evals(n2)
                if bad2:
                    k, g, e, o = bad2[0]
                    rec.violation("overflow:second-compile-shaping:%s" % fkey_fam,
                                  "%s %s [repacker=%s ext=%s level=%s]: the table left in memory by the first compile, compiled again (%s), shapes differently: %d of %d checks; first: %s input %s"
                                  % (fam, kn, hbc, ext, level, again, len(bad2), n2, k, g), observed=o, expected=e)
                    return
                if hb2 != hbc:
                    rec.witness("second compile under the other repacker: different bytes, same shaping")
        if nfix and [(l.LookupType, len(l.SubTable)) for l in tbl.table.LookupList.Lookup] != built:
            rec.witness("second compile after in-memory split: same shaping")



# =========================================================================================
# (c) corpus tables x configuration lattice, differential against the reference configuration
# =========================================================================================
LAYOUT_TAGS = ("GDEF", "GSUB", "GPOS")
RTL_SCRIPTS = {"arab", "hebr", "syrc", "thaa", "nko ", "adlm", "rohg", "mand"}

FEA_GLYPHS = """
    .notdef space slash fraction semicolon period comma ampersand
    quotedblleft quotedblright quoteleft quoteright
    zero one two three four five six seven eight nine
    zero.oldstyle one.oldstyle two.oldstyle three.oldstyle
    four.oldstyle five.oldstyle six.oldstyle seven.oldstyle
    eight.oldstyle nine.oldstyle onequarter onehalf threequarters
    onesuperior twosuperior threesuperior ordfeminine ordmasculine
    A B C D E F G H I J K L M N O P Q R S T U V W X Y Z
    a b c d e f g h i j k l m n o p q r s t u v w x y z
    A.sc B.sc C.sc D.sc E.sc F.sc G.sc H.sc I.sc J.sc K.sc L.sc M.sc
    N.sc O.sc P.sc Q.sc R.sc S.sc T.sc U.sc V.sc W.sc X.sc Y.sc Z.sc
    A.alt1 A.alt2 A.alt3 B.alt1 B.alt2 B.alt3 C.alt1 C.alt2 C.alt3
    a.alt1 a.alt2 a.alt3 a.end b.alt c.mid d.alt d.mid
    e.begin e.mid e.end m.begin n.end s.end z.end
    Eng Eng.alt1 Eng.alt2 Eng.alt3
    A.swash B.swash C.swash D.swash E.swash F.swash G.swash H.swash
    I.swash J.swash K.swash L.swash M.swash N.swash O.swash P.swash
    Q.swash R.swash S.swash T.swash U.swash V.swash W.swash X.swash
    Y.swash Z.swash
    f_l c_h c_k c_s c_t f_f f_f_i f_f_l f_i o_f_f_i s_t f_i.begin
    a_n_d T_h T_h.swash germandbls ydieresis yacute breve
    grave acute dieresis macron circumflex cedilla umlaut ogonek caron
    damma hamza sukun kasratan lam_meem_jeem noon.final noon.initial
    by feature lookup sub table uni0327 uni0328 e.fina
    idotbelow idotless iogonek acutecomb brevecomb ogonekcomb dotbelowcomb
""".split() + ["cid%05d" % c for c in range(800, 1002)]  # the glyph set of Tests/feaLib/builder_test.py


def fea_host():
    from fontTools.fontBuilder import FontBuilder
    from fontTools.ttLib.tables._g_l_y_f import Glyph

    fb = FontBuilder(1000, isTTF=True)
    fb.setupGlyphOrder(list(FEA_GLYPHS))
    fb.setupCharacterMap({})
    fb.setupGlyf({g: Glyph() for g in FEA_GLYPHS})
    fb.setupHorizontalMetrics({g: (adv_of(i), 0) for i, g in enumerate(FEA_GLYPHS)})
    fb.setupHorizontalHeader(ascent=800, descent=-200)
    fb.setupNameTable({"familyName": "C06fea", "styleName": "Regular"})
    fb.setupOS2()
    fb.setupPost()
    buf = io.BytesIO()
    fb.font.save(buf)
    return buf.getvalue()


def _build_fea(args):
    host, path = args
    from fontTools.feaLib.builder import addOpenTypeFeatures

    try:
        font = TTFont(io.BytesIO(host))
        addOpenTypeFeatures(font, path)
        if not any(t in font for t in LAYOUT_TAGS):
            return (os.path.basename(path), None, "no layout table")
        buf = io.BytesIO()
        font.save(buf)
        return (os.path.basename(path), buf.getvalue(), None)
    except Exception as e:  # feature files that are expected to be rejected
        return (os.path.basename(path), None, "%s: %s" % (type(e).__name__, str(e)[:80]))


def collect_glyph_names(obj, gset, out, seen):
    """Every glyph name occurring anywhere inside a decompiled otTables tree."""
    if isinstance(obj, str):
        if obj in gset:
            out.add(obj)
    elif isinstance(obj, dict):
        for k, v in obj.items():
            collect_glyph_names(k, gset, out, seen)
            collect_glyph_names(v, gset, out, seen)
    elif isinstance(obj, (list, tuple, set, frozenset)):
        for v in obj:
            collect_glyph_names(v, gset, out, seen)
    elif hasattr(obj, "__dict__"):
        if id(obj) in seen:
            return
        seen.add(id(obj))
        for v in vars(obj).values():
            collect_glyph_names(v, gset, out, seen)


def pre_extend(font):
    """Configuration 'extension pre-applied': wrap every subtable of every GSUB/GPOS lookup."""
    n = 0
    for tag, ext_type in (("GSUB", 7), ("GPOS", 9)):
        if tag not in font or font[tag].table.LookupList is None:
            continue
        for lookup in font[tag].table.LookupList.Lookup:
            if lookup.LookupType == ext_type or not lookup.SubTable:
                continue
            cls = ot.lookupTypes[tag][ext_type]
            wrapped = []
            for st in lookup.SubTable:
                e = cls()
                e.Format = 1
                e.ExtensionLookupType = lookup.LookupType
                e.ExtSubTable = st
                wrapped.append(e)
            lookup.SubTable = wrapped
            lookup.LookupType = ext_type
            n += 1
    return n


def sfnt_tables(data, font_number):
    """Raw tables of one face (tag -> bytes) and the sfnt version, read with a TTFont reader."""
    f = TTFont(io.BytesIO(data), fontNumber=font_number) if font_number >= 0 else TTFont(io.BytesIO(data))
    tabs = {tag: f.reader[tag] for tag in f.reader.keys()}
    return tabs, f.reader.sfntVersion.encode("latin-1") if isinstance(f.reader.sfntVersion, str) else f.reader.sfntVersion


class SeqShaper:
    """Shapes a fixed, completely enumerated set of glyph sequences; results are kept as digests
    per (script, direction, feature set, batch) so that two fonts can be compared batch by batch."""

    def __init__(self, alphabet, outsider, maxlen, plans, pair_cap=None, rot=0):
        self.sep = outsider
        self.A = list(alphabet) + [outsider]
        if pair_cap is None or len(self.A) <= pair_cap:
            self.A2 = self.A
        else:  # capped (quick tier, big alphabets): a window of pair_cap glyphs, rotated by the seed
            k = (rot * pair_cap) % len(alphabet)
            self.A2 = (list(alphabet) + list(alphabet))[k:k + pair_cap] + [outsider]
        self.maxlen = maxlen
        self.plans = plans  # [(script ot tag, direction, features dict)]
        self.batch = 4000
        self.ngroups = len(self.A) + (len(self.A2) ** 2 if maxlen >= 2 else 0) + (len(self.A) ** 3 if maxlen >= 3 else 0)

    def groups(self):
        """All sequences, shortest first (generated, never stored)."""
        it = [((a,) for a in self.A)]
        if self.maxlen >= 2:
            it.append(itertools.product(self.A2, repeat=2))
        if self.maxlen >= 3:
            it.append(itertools.product(self.A, repeat=3))
        return itertools.chain(*it)

    def nseq(self):
        return self.ngroups * len(self.plans)

    def nbatches(self):
        return (self.ngroups + self.batch - 1) // self.batch

    def batches(self):
        it = self.groups()
        while True:
            part = list(itertools.islice(it, self.batch))
            if not part:
                return
            yield part

    def _shape(self, hbfont, seq, plan):
        script, direction, feats = plan
        buf = hb.Buffer()
        buf.add_codepoints([PUA + g for g in seq])
        buf.direction = direction
        buf.set_script_from_ot_tag(script)
        buf.language = "en"
        buf.cluster_level = hb.BufferClusterLevel.MONOTONE_CHARACTERS
        hb.shape(hbfont, buf, feats)
        return [(i.codepoint, i.cluster, p.x_advance, p.y_advance, p.x_offset, p.y_offset) for i, p in zip(buf.glyph_infos, buf.glyph_positions)]

    def _flat(self, part):
        seq = []
        for g in part:
            seq.extend(g)
            seq.append(self.sep)
        return seq

    def digest(self, data):
        font = hb.Font(hb.Face(hb.Blob(data)))
        out = []
        for plan in self.plans:
            for part in self.batches():
                out.append(hash(tuple(self._shape(font, self._flat(part), plan))))
        return out

    def first_difference(self, data_a, data_b, index):
        """Locate a minimal differing sequence inside batch `index` (failure path only)."""
        nb = self.nbatches()
        plan = self.plans[index // nb]
        part = next(itertools.islice(self.batches(), index % nb, None))
        fa, fb_ = hb.Font(hb.Face(hb.Blob(data_a))), hb.Font(hb.Face(hb.Blob(data_b)))
        for g in part:
            ra, rb = self._shape(fa, list(g), plan), self._shape(fb_, list(g), plan)
            if ra != rb:
                return plan, list(g), ra, rb
        seq = self._flat(part)
        ra, rb = self._shape(fa, seq, plan), self._shape(fb_, seq, plan)
        k = next((i for i, (x, y) in enumerate(zip(ra, rb)) if x != y), 0)
        lo = max(0, (ra[k][1] if k < len(ra) else 0) - 6)
        return plan, "in context only: glyphs %s" % seq[lo:lo + 14], ra[max(0, k - 3):k + 4], rb[max(0, k - 3):k + 4]


class Corpus(Unit):
    name = "corpus"
    rule = ("every distinct GSUB/GPOS/GDEF set of the corpus (AOTS lookup-type fonts and other vendored binaries, fonts compiled from Tests/**/*.ttx, Tests/feaLib/data/*.fea compiled onto the feaLib "
            "test glyph set) x configuration lattice USE_HARFBUZZ_REPACKER {False, None, True} x extension pre-applied {no, yes} x GPOS compaction level ({0,1,5,9} quick / 0..9 thorough); tables "
            "are decompiled, transformed by the configuration and recompiled; HarfBuzz shaping of ALL glyph sequences of length <= 2 (quick; length 3 for alphabets <= 12) / <= 3 (thorough, alphabets "
            "<= 40) over the glyphs occurring in the tables + one outsider, for every script of the tables (ltr, and rtl for right-to-left scripts) with default features and with all features on, "
            "must equal the reference configuration (pure-Python packer, no compaction, no extension); the reference must equal the untouched original bytes; distinct = each (font, configuration)")
    chunk = 1
    required_witnesses = ("AOTS font", "feature-file build", "ttx-compiled font", "configuration produced different bytes than the reference", "hb repacker used",
                          "compaction rebuilt a PairPos format 2 subtable", "extension pre-applied", "GSUB shaping differs from no-GSUB baseline", "GPOS shaping differs from no-GPOS baseline")

    def setup(self, tier, seed):
        from oracles import corpus
        import hashlib
        import multiprocessing

        fonts, seen = [], set()

        def add(kind, name, data, num):
            try:
                tabs, ver = sfnt_tables(data, num)
            except Exception:
                return
            if not any(t in tabs for t in LAYOUT_TAGS) or "maxp" not in tabs or "hmtx" not in tabs:
                return
            key = hashlib.sha256(b"|".join(tabs.get(t, b"") for t in LAYOUT_TAGS) + tabs["maxp"][4:6]).hexdigest()
            if key in seen:
                return
            seen.add(key)
            fonts.append((kind, name, tabs, ver))

        for name, data, num in corpus.binary_faces():
            if data[:4] in (b"wOFF", b"wOF2"):
                continue
            add("aots" if corpus.is_aots(name) else "binary", name, data, num)
        for name, data in corpus.compiled_ttx():
            add("ttx", name, data, -1)
        host = fea_host()
        paths = sorted(glob.glob(os.path.join(env.REPO, "Tests", "feaLib", "data", "*.fea")))
        with multiprocessing.get_context("fork").Pool(min(16, os.cpu_count() or 1)) as pool:
            built = pool.map(_build_fea, [(host, p_) for p_ in paths], chunksize=4)
        self.fea_skipped = [(n, err) for n, d, err in built if d is None]
        for n, d, _err in built:
            if d is not None:
                add("fea", "feaLib/data/" + n, d, -1)
        self.fonts = fonts

    def setup_replay(self):
        self.setup("quick", 0)

    def levels(self, tier):
        return (0, 1, 5, 9) if tier == "quick" else tuple(range(10))

    def cases(self, tier, seed):
        # heavy fonts first
        order = sorted(range(len(self.fonts)), key=lambda i: -sum(len(self.fonts[i][2].get(t, b"")) for t in LAYOUT_TAGS))
        return [[i, self.fonts[i][1], tier, hbc, seed] for i in order for hbc in HB_CFGS]

    def bounds(self, tier, seed):
        kinds = collections.Counter(f[0] for f in self.fonts)
        return {"fonts": dict(kinds), "fea_files_not_compiling": len(self.fea_skipped), "levels": list(self.levels(tier)), "repacker": list(HB_CFGS), "extension": [0, 1],
                "sequence_length": "<=2, 3 for alphabets <=12 (quick)" if tier == "quick" else "<=2, 3 for alphabets <=40", "pair_alphabet_cap": 128 if tier == "quick" else None}

    def configure(self, tabs, ver, hbc, level, ext):
        """Decompile the layout tables, apply the configuration, recompile; -> (tag->bytes, info)."""
        font = TTFont(io.BytesIO(build_sfnt(tabs, ver)))
        font.cfg[HB_OPT] = _CFGV[hbc]
        font.cfg[LEVEL_OPT] = level
        info = {}
        for t in LAYOUT_TAGS:
            if t in font:
                font[t].ensureDecompiled()
        if level and "GPOS" in font and font["GPOS"].table.LookupList is not None:
            before = [[id(st) for st in l.SubTable] for l in font["GPOS"].table.LookupList.Lookup]
            keep = [st for l in font["GPOS"].table.LookupList.Lookup for st in l.SubTable]  # keep ids alive
            gpos_opt.compact(font, level)
            after = [[id(st) for st in l.SubTable] for l in font["GPOS"].table.LookupList.Lookup]
            info["compacted"] = before != after
            info["compact-split"] = [len(x) for x in before] != [len(x) for x in after]
            del keep
        if ext:
            info["extended"] = pre_extend(font)
        out = {}
        with Spy(limit=MAX_RESOLUTION_STEPS) as spy:
            for t in LAYOUT_TAGS:
                if t in font:
                    out[t] = font[t].compile(font)
        info["hb"] = spy.calls["hb.repack ok"]
        return out, info, font

    def check(self, case, rec):
        idx, name, tier, hb_case, seed = case
        kind, _name, tabs, ver = self.fonts[idx]
        quick = tier == "quick"
        rec.witness({"aots": "AOTS font", "fea": "feature-file build", "ttx": "ttx-compiled font", "binary": "other binary font"}[kind])
        (nglyphs,) = struct.unpack(">H", tabs["maxp"][4:6])
        base = dict(tabs)
        base["cmap"] = pua_cmap(nglyphs)

        # reference configuration
        ref_tabs, _info, font = self.configure(tabs, ver, "False", 0, 0)
        order = font.getGlyphOrder()
        gset = set(order)
        names = set()
        scripts, feats = set(), set()
        for t in LAYOUT_TAGS:
            if t in font:
                collect_glyph_names(font[t].table, gset, names, set())
                tb = font[t].table
                if t != "GDEF":
                    if tb.ScriptList:
                        scripts.update(str(r.ScriptTag) for r in tb.ScriptList.ScriptRecord)
                    if tb.FeatureList:
                        feats.update(str(r.FeatureTag) for r in tb.FeatureList.FeatureRecord)
        gid = font.getReverseGlyphMap()
        alphabet = sorted(gid[n] for n in names)
        outsider = next((g for g in range(nglyphs - 1, -1, -1) if order[g] not in names), None)
        if outsider is None:
            outsider = 0
            rec.count("no outsider glyph available")
        scripts = sorted(scripts) or ["DFLT"]
        allon = {f: True for f in sorted(feats)}
        plans = []
        for sc in scripts:
            for direction in (("ltr", "rtl") if sc in RTL_SCRIPTS else ("ltr",)):
                plans.append((sc, direction, {}))
                if allon:
                    plans.append((sc, direction, allon))
        maxlen = 3 if len(alphabet) <= (12 if quick else 40) else 2
        shaper = SeqShaper(alphabet, outsider, maxlen, plans, pair_cap=128 if quick else None, rot=seed)

        def full(layout):
            t = {k: v for k, v in base.items() if k not in LAYOUT_TAGS}
            t.update(layout)
            return build_sfnt(t, ver)

        ref_bytes = full(ref_tabs)
        ref = shaper.digest(ref_bytes)
        rec.evals(shaper.nseq())
        # non-triviality: the tables do something to these sequences
        if "GSUB" in ref_tabs and shaper.digest(full({k: v for k, v in ref_tabs.items() if k != "GSUB"})) != ref:
            rec.witness("GSUB shaping differs from no-GSUB baseline")
        if "GPOS" in ref_tabs and shaper.digest(full({k: v for k, v in ref_tabs.items() if k != "GPOS"})) != ref:
            rec.witness("GPOS shaping differs from no-GPOS baseline")

        def compare(label, data, fkey):
            got = shaper.digest(data)
            rec.evals(shaper.nseq())
            if got != ref:
                i = next(k for k, (a, b) in enumerate(zip(ref, got)) if a != b)
                plan, seq, ra, rb = shaper.first_difference(ref_bytes, data, i)
                rec.violation(fkey, "%s: %s shapes differently from the reference configuration; script=%s dir=%s features=%s glyphs %s"
                              % (name, label, plan[0], plan[1], "all-on" if plan[2] else "default", seq), observed=rb, expected=ra)
                return False
            return True

        # the untouched original bytes hold the same tables as the reference recompile
        orig = {t: tabs[t] for t in LAYOUT_TAGS if t in tabs}
        if orig != ref_tabs and hb_case == "False":
            rec.count("reference recompile differs in bytes from the original")
            compare("original binary tables", full(orig), "corpus:recompile-vs-original:%s" % kind)

        seen_bytes = {tuple(sorted(ref_tabs.items())): "reference"}
        for hbc in (hb_case,):
            for ext in (0, 1):
                for level in self.levels(tier):
                    if (hbc, ext, level) == ("False", 0, 0):
                        continue
                    rec.nontrivial([name, hbc, ext, level])
                    rec.state([name, hbc, ext, level])
                    try:
                        out, info, _f = self.configure(tabs, ver, hbc, level, ext)
                    except _Runaway:
                        rec.violation("corpus:resolution-does-not-terminate", "%s [repacker=%s ext=%s level=%s]" % (name, hbc, ext, level))
                        continue
                    except Exception as e:  # noqa: BLE001 - a configuration that cannot be produced; go on with the others
                        import traceback

                        rec.violation(self.exc_fkey(case, e), "%s [repacker=%s ext=%s level=%s]: unexpected %s: %s\n%s"
                                      % (name, hbc, ext, level, type(e).__name__, e, "".join(traceback.format_exception(e)[-4:])))
                        continue
                    if info.get("hb"):
                        rec.witness("hb repacker used")
                    if info.get("compacted"):
                        rec.witness("compaction rebuilt a PairPos format 2 subtable")
                    if info.get("compact-split"):
                        rec.witness("compaction split a subtable")
                    if info.get("extended"):
                        rec.witness("extension pre-applied")
                    key = tuple(sorted(out.items()))
                    if key in seen_bytes:
                        rec.count("configurations with bytes equal to an already compared one")
                        continue
                    seen_bytes[key] = (hbc, ext, level)
                    rec.witness("configuration produced different bytes than the reference")
                    rec.transition()
                    compare("configuration repacker=%s ext=%s level=%s" % (hbc, ext, level), full(out), "corpus:config-differs:%s" % kind)


def units():
    return [Overflow(), Corpus(), ControlLoop()]
