"""C01 - recompiling any readable font is lossless and reaches a fixed point.

State machine of a TTFont: state = (source font, lazy mode, set of tables decoded to objects);
operations touch(tag) / save / reopen.  For every font, lazy mode and loaded-set of the
bounded lattice: G1 = save(state); every table that was never loaded is byte-identical to the
source; every loaded table decodes to the same content; G2 = save(load-all(G1)) == G1.
"""
from mc import env  # noqa: F401
from mc.kernel import Unit, h64

import io
import itertools
import struct

from fontTools.ttLib import TTFont
from fontTools.ttLib.tables.DefaultTable import DefaultTable

from oracles import corpus, tinyfont

LEVEL = "model_checking"
ASSUMPTIONS = [
    "content equality of a decoded table is judged on the canonical TTX dump of the decoded objects (toXML of the tree under test) plus byte equality at the second generation",
    "fonts = vendored corpus (all flavours, TTC members), corpus TTX compiled with the tree under test, generated pool, AOTS table transplants; fonts outside this closure are not covered",
    "WOFF/WOFF2 payloads of the saved files are unpacked with fontTools' own reader (container correctness is C04's subject); sfnt/TTC directories are parsed independently",
]

_FONTS = {}  # key -> (bytes, fontNumber)
_ORIG_XML = {}

LAZY = (None, True, False)


def parse_sfnt(data, index=-1):
    """Independent sfnt directory reader: {tag: bytes} (no fontTools involved)."""
    base = 0
    if data[:4] == b"ttcf":
        n = struct.unpack(">L", data[8:12])[0]
        offs = struct.unpack(">%dL" % n, data[12 : 12 + 4 * n])
        base = offs[max(index, 0)]
    num = struct.unpack(">H", data[base + 4 : base + 6])[0]
    out = {}
    for i in range(num):
        tag, _cs, off, ln = struct.unpack(">4sLLL", data[base + 12 + 16 * i : base + 28 + 16 * i])
        out[tag.decode("latin-1")] = data[off : off + ln]
    return out


def table_bytes(data, index=-1):
    if data[:4] in (b"wOFF", b"wOF2"):
        f = TTFont(io.BytesIO(data), lazy=True)
        out = {t: f.reader[t] for t in f.reader.keys()}
    else:
        out = parse_sfnt(data, index)
    if "head" in out and len(out["head"]) >= 12:
        # checkSumAdjustment is a property of the container, rewritten on every save
        out["head"] = out["head"][:8] + b"\0\0\0\0" + out["head"][12:]
    return out


def load_fonts(tier):
    if _FONTS:
        return
    for name, data, idx in corpus.binary_faces():
        _FONTS["bin:" + name] = (data, idx)
    for name, data in corpus.compiled_ttx():
        _FONTS["ttx:" + name] = (data, -1)
    for pname, spec in sorted(tinyfont.pool().items()):
        _FONTS["tiny:" + pname] = (tinyfont.build_bytes(spec), -1)
    # embedded bitmaps in every EBDT image format (the vendored corpus has none)
    from oracles import bitmapfont

    for bname, bdata in sorted(bitmapfont.family().items()):
        if "-d1" in bname or "7x5" in bname:
            _FONTS["tiny:" + bname] = (bdata, -1)
    # tables the library has no decoder for (odd lengths, private tags)
    from fontTools.ttLib import newTable

    f = tinyfont.build(tinyfont.pool()["ttf-mixed"])
    for tag, blob in (("zzzz", b"\x01\x02\x03\x04\x05"), ("Priv", b""), ("a-b ", bytes(range(256)) * 3 + b"\xff")):
        t = newTable(tag)
        t.data = blob
        f[tag] = t
    _FONTS["tiny:unknown-tables"] = (tinyfont.to_bytes(f), -1)
    # other container flavours of every non-AOTS sfnt
    extra = {}
    for key, (data, idx) in sorted(_FONTS.items()):
        if corpus.is_aots(key) or data[:4] in (b"wOFF", b"wOF2", b"ttcf"):
            continue
        if len(data) > 60000:
            continue
        for flavor in ("woff", "woff2"):
            try:
                f = TTFont(io.BytesIO(data))
                f.flavor = flavor
                buf = io.BytesIO()
                f.save(buf)
                extra["%s@%s" % (key, flavor)] = (buf.getvalue(), -1)
            except Exception:
                pass
    _FONTS.update(extra)


def dump_table(font, tag):
    buf = io.StringIO()
    font.saveXML(buf, tables=[tag], writeVersion=False)
    return buf.getvalue()


def interesting_tags(tags):
    return [t for t in tags if t != "GlyphOrder"]


class Recompile(Unit):
    name = "loaded-set-lattice"
    rule = ("TTFont state machine: state=(font, lazy in {None,True,False}, set S of tables decoded); ops touch/save/reopen. Explored: S = all tables (every font x lazy), S = {} and every singleton (every font; AOTS family with lazy=None only), "
            "thorough adds every pair and every co-singleton for non-AOTS fonts. Oracle per state: tables never loaded are byte-identical in the saved file (independent sfnt parser); tables of class DefaultTable byte-identical; "
            "every loaded table's canonical dump equals the source's; second generation save(load-all(G1)) == G1 byte for byte; no exception. distinct = (font, lazy, S) with |S|>=1")
    chunk = 6
    required_witnesses = ("woff2 font", "woff font", "ttc member", "lazy=True", "pass-through table", "DefaultTable class", "CFF font", "otl table loaded")

    def setup(self, tier, seed):
        load_fonts(tier)

    def cases(self, tier, seed):
        for key in sorted(_FONTS):
            data, idx = _FONTS[key]
            try:
                f = TTFont(io.BytesIO(data), fontNumber=idx, lazy=True)
                tags = interesting_tags(f.keys())
            except Exception:
                yield [key, None, "open"]
                continue
            aots = corpus.is_aots(key)
            big = len(data) > 100000
            flav = "@" in key
            for lazy in (0, 1, 2):
                yield [key, lazy, "all"]
            if tier == "quick":
                # one lazy mode per font for the singleton family, rotating with the seed;
                # a quarter of the near-identical AOTS fonts; re-flavoured copies only get {}
                lazies = ((h64(key) + seed) % 3,)
                if aots and (h64(key) + seed) % 4:
                    lazies = ()
            else:
                lazies = (0,) if big else (0, 1, 2)
            for lazy in lazies:
                yield [key, lazy, []]
                if flav and tier == "quick":
                    continue
                for t in tags:
                    yield [key, lazy, [t]]
            if tier == "thorough" and not aots and not big and not flav:
                for lazy in (0, 1, 2):
                    for a, b in itertools.combinations(tags, 2):
                        yield [key, lazy, [a, b]]
                    for t in tags:
                        yield [key, lazy, [x for x in tags if x != t]]

    def bounds(self, tier, seed):
        return {"fonts": len(_FONTS), "lazy": [None, True, False], "loaded_set": "all, {}, singletons" + ("; pairs, co-singletons" if tier == "thorough" else "")}

    def check(self, case, rec):
        key, lazy_i, sel = case
        data, idx = _FONTS[key]
        if sel == "open":
            TTFont(io.BytesIO(data), fontNumber=idx, lazy=True).keys()
            return
        lazy = LAZY[lazy_i]
        font = TTFont(io.BytesIO(data), fontNumber=idx, lazy=lazy, recalcBBoxes=False, recalcTimestamp=False)
        rec.state([key, lazy_i, "opened"])
        tags = interesting_tags(font.keys())
        if sel == "all":
            font.ensureDecompiled()
            touched = list(tags)
            rec.transition(len(tags))
        else:
            touched = list(sel)
            for t in touched:
                tb = font[t]
                if hasattr(tb, "ensureDecompiled"):
                    tb.ensureDecompiled(recurse=True)
                rec.transition()
        rec.state([key, lazy_i, sorted(touched)])
        loaded = sorted(t for t in tags if font.isLoaded(t))
        out = io.BytesIO()
        font.save(out)
        rec.transition()
        g1 = out.getvalue()
        loaded_after = sorted(t for t in tags if font.isLoaded(t))
        src = table_bytes(data, idx)
        got = table_bytes(g1, -1)
        if data[:4] == b"wOFF":
            rec.witness("woff font")
        if data[:4] == b"wOF2":
            rec.witness("woff2 font")
        if idx >= 0:
            rec.witness("ttc member")
        if lazy is True:
            rec.witness("lazy=True")
        if sorted(got) != sorted(src):
            rec.violation("table-set-changed", "%s lazy=%r loaded=%s: tables %s -> %s" % (key, lazy, touched, sorted(src), sorted(got)))
            return
        # 1. pass-through
        for t in tags:
            if t in loaded_after:
                continue
            rec.witness("pass-through table")
            if got[t] != src[t]:
                rec.violation("passthrough-changed:" + t, "%s lazy=%r loaded=%s: table %r was never decoded but its bytes changed (%d -> %d bytes)" % (key, lazy, touched, t, len(src[t]), len(got[t])))
        for t in loaded_after:
            if type(font[t]) is DefaultTable:
                rec.witness("DefaultTable class")
                if got[t] != src[t]:
                    rec.violation("defaulttable-changed:" + t, "%s: undecodable table %r changed" % (key, t))
        # 2. content of loaded tables
        g1font = TTFont(io.BytesIO(g1), lazy=False, recalcBBoxes=False, recalcTimestamp=False)
        rec.transition()
        if g1font.getGlyphOrder() != TTFont(io.BytesIO(data), fontNumber=idx).getGlyphOrder():
            rec.violation("glyph-order-changed", "%s lazy=%r loaded=%s: glyph order differs after recompile" % (key, lazy, touched))
        for t in loaded_after:
            if t in ("GSUB", "GPOS", "GDEF"):
                rec.witness("otl table loaded")
            if t in ("CFF ", "CFF2"):
                rec.witness("CFF font")
            if got[t] == src[t]:
                continue
            okey = (key, t)
            if okey not in _ORIG_XML:
                if len(_ORIG_XML) > 300:
                    _ORIG_XML.clear()
                ofont = TTFont(io.BytesIO(data), fontNumber=idx, lazy=False)
                _ORIG_XML[okey] = dump_table(ofont, t)
            a = _ORIG_XML[okey]
            b = dump_table(g1font, t)
            a, b = canon_xml(t, a), canon_xml(t, b)
            if a != b:
                rec.violation("content-changed:" + t, "%s lazy=%r loaded=%s: decoded content of %r differs after recompile:\n%s" % (key, lazy, touched, t, first_diff(a, b)))
        # 3. fixed point
        g1font.ensureDecompiled()
        out2 = io.BytesIO()
        g1font.save(out2)
        rec.transition(len(tags) + 1)
        g2 = out2.getvalue()
        if g2 != g1:
            t2 = table_bytes(g2, -1)
            diff = [t for t in sorted(got) if t2.get(t) != got[t]]
            # a first generation that only passed tables through is not yet normalised: the
            # property's fixed point is about load-all/save, so compare G2 with G3 as well
            g2font = TTFont(io.BytesIO(g2), lazy=False, recalcBBoxes=False, recalcTimestamp=False)
            g2font.ensureDecompiled()
            out3 = io.BytesIO()
            g2font.save(out3)
            g3 = out3.getvalue()
            if sel == "all":
                rec.violation("no-fixed-point:" + ",".join(diff[:3]), "%s lazy=%r: second generation differs from first in tables %s (containers differ: %s)" % (key, lazy, diff, not diff))
            elif g3 != g2:
                t3 = table_bytes(g3, -1)
                diff3 = [t for t in sorted(t2) if t3.get(t) != t2[t]]
                rec.violation("no-fixed-point:" + ",".join(diff3[:3]), "%s lazy=%r loaded=%s: save(load-all) not a fixed point even at the third generation: %s" % (key, lazy, touched, diff3))
        rec.trace()
        rec.outcome(h64(g1))
        if touched:
            rec.nontrivial()


def canon_xml(tag, x):
    """Remove what is representation or a documented derived field, not content:
    head.checkSumAdjustment (container property); OS/2 usFirst/LastCharIndex (recomputed from
    cmap on every compile; C04 checks derived fields); post <extraNames> (an index-ordered
    string pool; the glyph names themselves are compared through the glyph order)."""
    import re

    if tag == "head":
        return re.sub(r'<checkSumAdjustment value="[^"]*"/>', "", x)
    if tag == "OS/2":
        return re.sub(r'<us(First|Last)CharIndex value="[^"]*"/>', "", x)
    if tag == "post":
        return re.sub(r"<extraNames>.*?</extraNames>", "", x, flags=re.S)
    return x


def first_diff(a, b):
    la, lb = a.splitlines(), b.splitlines()
    for i, (x, y) in enumerate(zip(la, lb)):
        if x != y:
            return "line %d:\n  source : %s\n  recomp : %s" % (i, x.strip()[:200], y.strip()[:200])
    return "length %d vs %d lines" % (len(la), len(lb))


class Transplants(Unit):
    name = "aots-transplants"
    tiers = ("thorough",)
    rule = ("fonts assembled by transplanting tables: every distinct GSUB/GPOS/GDEF/cmap blob of the AOTS family (shared glyph set) placed into 3 AOTS hosts (first, middle, last); same oracle as loaded-set-lattice with S = all; distinct = (blob, host)")
    chunk = 4

    def setup(self, tier, seed):
        load_fonts(tier)
        self.aots = sorted(k for k in _FONTS if corpus.is_aots(k) and "@" not in k)
        self.blobs = {}
        for k in self.aots:
            data, idx = _FONTS[k]
            tb = parse_sfnt(data, idx)
            for t in ("GSUB", "GPOS", "GDEF", "cmap"):
                if t in tb:
                    self.blobs.setdefault((t, h64(tb[t])), (k, t))

    def cases(self, tier, seed):
        hosts = [self.aots[0], self.aots[len(self.aots) // 2], self.aots[-1]]
        for (t, _h), (src, _t) in sorted(self.blobs.items()):
            for host in hosts:
                if host != src:
                    yield [host, src, t]

    def check(self, case, rec):
        host, srckey, tag = case
        hdata, hidx = _FONTS[host]
        sdata, sidx = _FONTS[srckey]
        blob = parse_sfnt(sdata, sidx)[tag]
        f = TTFont(io.BytesIO(hdata), fontNumber=hidx)
        hosttags = f.keys()
        from fontTools.ttLib import newTable

        # transplant as raw bytes (DefaultTable-like injection through the reader path)
        f2 = TTFont(io.BytesIO(hdata), fontNumber=hidx)
        if tag not in f2.reader.tables:
            rec.witness("transplant into a host without that table")
        t = newTable(tag)
        try:
            t.decompile(blob, f2)
        except Exception as e:
            # the blob refers to glyphs the host does not have etc.: not a readable font
            rec.count("transplant not decodable in host")
            return
        f2[tag] = t
        out = io.BytesIO()
        f2.save(out)
        rec.transition(2)
        data = out.getvalue()
        _FONTS_key = "transplant:%s<-%s:%s" % (host, srckey, tag)
        _FONTS[_FONTS_key] = (data, -1)
        try:
            Recompile().check([_FONTS_key, 0, "all"], rec)
        finally:
            del _FONTS[_FONTS_key]


def units():
    return [Recompile(), Transplants()]
