"""C07 - subsetting preserves the behaviour of everything it keeps.

(font, subset request, options) enumerated exhaustively within bounds; every subsetting is run
through the real pipeline (subset.load_font -> Subsetter.populate/subset -> subset.save_font),
the saved bytes are reloaded and compared with the original font BY GLYPH NAME through HarfBuzz
(nominal glyphs, shaping of all short texts over the retained characters with an explicit
feature dictionary, outlines and advances at the variation lattice) and scanned structurally.
"""
from mc import env  # noqa: F401
from mc.kernel import Unit, h64

import io
import itertools

from fontTools.ttLib import TTFont

from oracles import c07_check as K
from oracles import c07_fonts as F

LEVEL = "exploration"
ASSUMPTIONS = [
    "HarfBuzz 12.1 is the observer: nominal glyphs, shaping (ltr, default shaper, script/language chosen so that original and subset select the same OpenType script/langsys), outlines, advances; glyph identity is the glyph NAME through the in-memory glyph order of the subsetter's result",
    "features are given to HarfBuzz explicitly: on iff the options retain the tag (and its table), off otherwise, identically for original and subset; 'kern' also gates HarfBuzz's use of the legacy kern table",
    "texts whose HarfBuzz result depends on characters that were not retained are not compared: Unicode (de)composition to a mapped but dropped character, default-ignorable characters when the space glyph was dropped",
    "--no-layout-closure: when the closure would have added glyphs, substitution features are switched off on both sides and positioning is compared alone (rules producing unrequested glyphs are removed by design)",
    "--drop-tables+=GPOS / GDEF: only glyph sequences are compared (HarfBuzz falls back to heuristic mark positioning / synthesized glyph classes)",
    "fonts with many mapped characters: requests are all subsets of a 6 (8) character focus alphabet chosen from the layout-active characters, every single character and every co-size<=1 set of the whole character set (all pairs of the whole set in thorough for the rotating AOTS representatives); texts are over the focus alphabet",
    "large corpus fonts (> 60 kB compiled), bitmap/SVG colour fonts and VARC fonts are not subset here; WOFF/WOFF2 output flavours are not exercised (HarfBuzz reads sfnt only)",
    "fonts whose Unicode cmap subtables map one code point to different glyphs (AOTS cmap_subtableselection) are outside the by-character oracle: the glyph of a character is then the client's choice of subtable",
    "hinting instructions are not executed; --no-hinting is checked for outline identity and absence of instructions only",
]

_FONTS = {}
_INFO = {}
_META = {}


def info_of(key):
    inf = _INFO.get(key)
    if inf is None:
        if len(_INFO) > 48:
            _INFO.clear()
        inf = _INFO[key] = K.FontInfo(key, _FONTS[key])
    return inf


def load_generated():
    if any(k.startswith("tiny:") for k in _FONTS):
        return
    _FONTS.update(F.generated_fonts())


def load_corpus(tier, seed):
    if _META.get("corpus") == (tier, seed):
        return
    for k in [k for k in _FONTS if not k.startswith("tiny:")]:
        del _FONTS[k]
        _INFO.pop(k, None)
    _FONTS.update(F.corpus_fonts(tier, seed))
    _META["corpus"] = (tier, seed)


def nonempty_subsets(items, max_size=None):
    items = list(items)
    top = len(items) if max_size is None else min(max_size, len(items))
    for k in range(1, top + 1):
        for c in itertools.combinations(items, k):
            yield list(c)


def small_and_cosmall(items, small=2, co=1):
    """all subsets of size <= small and of co-size <= co (deduplicated, simplest first)"""
    items = list(items)
    seen = set()
    out = []
    for k in range(1, small + 1):
        for c in itertools.combinations(items, k):
            out.append(list(c))
    for k in range(0, co + 1):
        for c in itertools.combinations(items, k):
            drop = set(c)
            out.append([x for x in items if x not in drop])
    res = []
    for r in out:
        t = tuple(r)
        if r and t not in seen:
            seen.add(t)
            res.append(r)
    return res


def whole_set_family(U, focus, tier, seed, pairs):
    """requests over a large character set: every single character, the whole set, the whole set
    minus one character; quick: single characters of sets > 120 and the removed characters are
    the focus characters plus a window of the others that rotates with the seed"""
    others = [c for c in U if c not in focus]
    if tier == "quick":
        k = (seed * 6) % max(1, len(others))
        removed = list(focus) + (others + others)[k:k + 6]
        singles = U if len(U) <= 120 else list(focus) + (others + others)[k:k + 32]
    else:
        removed = U if len(U) <= 120 else list(focus) + others[:40]
        singles = U
    reqs = [[c] for c in singles]
    if pairs:
        reqs += [list(c) for c in itertools.combinations(U, 2)]
    reqs.append(list(U))
    for c in removed:
        reqs.append([x for x in U if x != c])
    return reqs


def char_universe(info):
    """mapped characters plus the variation selectors of the format 14 subtable"""
    return sorted(set(info.cm) | {sel for (_b, sel) in info.uvs})


def corpus_focus(tier, seed):
    """-> ({font key: focus alphabet}, set of rotating representatives)"""
    if _META.get("focus_key") == (tier, seed):
        return _META["focus"], _META["reps"]
    load_generated()
    load_corpus(tier, seed)
    focus = {}
    nfocus = 6 if tier == "quick" else 8
    for key in sorted(k for k in _FONTS if not k.startswith("tiny:")):
        ft = F.feature_tags(TTFont(io.BytesIO(_FONTS[key])))
        feats = {t: True for t in ft["GSUB"] | ft["GPOS"]}
        focus[key] = F.focus_chars(_FONTS[key], nfocus, seed, feats)
    reps = set(F.corpus_fonts("quick", seed)) if tier == "thorough" else set()
    _META["focus_key"] = (tier, seed)
    _META["focus"], _META["reps"] = focus, reps
    return focus, reps


class _Base(Unit):
    def check(self, case, rec):
        key, kind, req, optname, kw, alpha, maxlen = case
        if key not in _FONTS:
            self.setup_missing(key)
        info = info_of(key)
        K.check_case(info, kind, req, optname, kw, rec, alpha, maxlen)
        rec.nontrivial()
        rec.witness("request by " + kind)
        if optname != "default":
            rec.witness("options deviate from default")
        if "&" in optname:
            rec.witness("two option deviations")

    def setup_missing(self, key):
        load_generated()
        if key not in _FONTS:
            # replay of a corpus case: the rotating selection may not contain it; load all
            _FONTS.update(F.corpus_fonts("thorough", 0))


class GeneratedAllSubsets(_Base):
    name = "generated-all-subsets"
    rule = ("19 generated fonts (glyf/CFF/CFF2; GSUB single, multiple, alternate, ligature, chaining 1/3 with nested lookups, extension, reverse chaining, IgnoreMarks / mark filtering set / mark attachment type flags; "
            "GPOS single 1/2, pair 1/2, cursive, mark-base, mark-ligature, mark-mark, chaining; GDEF classes, ligature carets; script- and language-specific features; legacy kern with and without GPOS kern; "
            "composites; gvar+HVAR+MVAR with variable kerning/anchors (GDEF VarStore) and feature variations; COLR v0/v1 + CPAL; cmap format 14; opaque table) "
            "x EVERY non-empty subset of the mapped characters (<= 6) requested by unicodes= x {default options + every single applicable deviation of: layout_features */one/none, layout_scripts, layout_closure, retain_gids, notdef_glyph, notdef_outline, "
            "recommended_glyphs, glyph_names, hinting, desubroutinize, name_IDs, name_languages, name_legacy, obfuscate_names, passthrough_tables, legacy_kern, harfbuzz_repacker on/off, recalc_bounds, recalc_average_width, recalc_max_context, drop_tables +GSUB/+GPOS, command-line loader; thorough: every pair of deviations for requests of size <= 2 or co-size <= 1}; "
            "oracle: requested characters mapped to the original's glyph; all texts of length <= 3 over the retained characters shape to the same glyph names / advances / offsets at {default, axis min/max} under every script/language mode; glyphs HarfBuzz produces in the original exist; every kept glyph has the original outline and advance; "
            "no dangling glyph reference; retain_gids keeps ids; per-option postconditions; distinct = (font, request, options)")
    chunk = 24
    required_witnesses = (
        "closure kept a glyph produced by GSUB type 1", "closure kept a glyph produced by GSUB type 2", "closure kept a glyph produced by GSUB type 3",
        "closure kept a glyph produced by GSUB type 4", "closure kept a glyph produced by GSUB type 8", "closure kept a glyph produced through a type 6 context",
        "lookup pruned", "class-based pair kept with fewer classes", "retain_gids with emptied glyphs", "CFF font", "variable font",
        "GDEF variation store shrunk (indices remapped)", "mark attachment present in a text", "COLR glyph kept", "variation selector retained",
        "kern table kept", "composite glyph kept", "feature switched off by options", "no-layout-closure: closure would have added glyphs",
        "unknown table passed through", "recalculated head bbox verified",
    )

    def setup(self, tier, seed):
        load_generated()
        self._seed = seed

    def cases(self, tier, seed):
        maxlen = 3 if tier == "quick" else -4  # thorough: 3, and 4 when at most 3 characters are retained
        for key in sorted(k for k in _FONTS if k.startswith("tiny:")):
            info = info_of(key)
            U = char_universe(info)
            opts = K.option_sets(info, tier, seed, pairs=False)
            opts2 = K.option_sets(info, tier, seed, pairs=True)[len(opts):] if tier == "thorough" else []
            for req in nonempty_subsets(U):
                if not any(c in info.cm for c in req):
                    continue  # variation selectors alone select no glyph: not a request
                for optname, kw in opts:
                    yield [key, "unicodes", req, optname, kw, U, maxlen]
                if len(req) <= 2 or len(req) >= len(U) - 1:
                    for optname, kw in opts2:
                        yield [key, "unicodes", req, optname, kw, U, maxlen]

    def bounds(self, tier, seed):
        return {"fonts": sum(1 for k in _FONTS if k.startswith("tiny:")), "max_characters": 6, "text_length": 3, "option_deviations": 2 if tier == "thorough" else 1}


KIND_OPTS = {"glyphs": ("default", "retain-gids", "no-layout-closure"),
             "gids": ("default", "retain-gids", "no-layout-closure", "no-notdef-glyph", "cli-loader"),
             "text": ("default", "retain-gids")}
KIND_OPTS_THOROUGH = ("default", "retain-gids", "no-layout-closure", "no-notdef-glyph", "glyph-names", "cli-loader", "features=*", "notdef-outline")


class GeneratedRequestKinds(_Base):
    name = "generated-request-kinds"
    rule = ("the generated fonts, requests by glyphs= (names) and gids=: every subset of size <= 2 and co-size <= 1 of ALL glyphs (mapped or not) and every non-empty subset of the mapped characters' glyphs; by text=: every non-empty subset of the characters plus one unmapped character; "
            "x options {default, retain_gids, no layout closure; gids also: no .notdef, command-line loader; thorough: also glyph_names, layout_features=*, notdef_outline}; same oracle (requested glyphs exist; characters mapping to requested glyphs stay mapped); distinct = (font, kind, request, options)")
    chunk = 24
    required_witnesses = ("request by glyphs", "request by gids", "request by text", "retain_gids with emptied glyphs", "closure kept a glyph produced by GSUB type 4")

    def setup(self, tier, seed):
        load_generated()

    def cases(self, tier, seed):
        for key in sorted(k for k in _FONTS if k.startswith("tiny:")):
            info = info_of(key)
            U = char_universe(info)
            allopts = dict(K.option_sets(info, tier, seed, pairs=False))
            def opts_for(kind):
                names = KIND_OPTS[kind] if tier == "quick" else KIND_OPTS_THOROUGH
                # the command line loads glyph names when glyphs are given: no cli-loader there
                return [(n, allopts[n]) for n in names if n in allopts and not (kind == "glyphs" and n == "cli-loader")]

            ng = len(info.order)
            mapped = sorted({info.index[g] for g in info.cm.values()})
            reqs = small_and_cosmall(range(ng)) + [r for r in nonempty_subsets(mapped) if len(r) > 2 and len(r) < ng - 1]
            for kind in ("glyphs", "gids"):
                for req in reqs:
                    for optname, kw in opts_for(kind):
                        yield [key, kind, req, optname, kw, U, 3]
            missing = 0x10FFFD
            for req in nonempty_subsets(U):
                if not any(c in info.cm for c in req):
                    continue
                for optname, kw in opts_for("text")[:3]:
                    yield [key, "text", req + [missing], optname, kw, U, 3]


class CorpusRequests(_Base):
    name = "corpus-requests"
    rule = ("corpus fonts (AOTS family: one font per lookup type.format group in quick, rotating with the seed, all in thorough; Tests/subset/data inputs compiled from TTX; other vendored fonts with layout / variations / kern, <= 40 kB) "
            "x base options (default; layout_features=* for fonts whose features are all outside the default list, i.e. the AOTS 'test' feature) x requests by unicodes=: every non-empty subset of the focus alphabet (6 quick / 8 thorough layout-active characters), every single character, the whole character set and every co-size-1 set "
            "(thorough, rotating AOTS representatives: every pair of the whole set); by glyphs= and gids=: focus subsets of size <= 2; texts of length <= 2 (3) over the retained focus characters; same oracle; distinct = (font, kind, request)")
    chunk = 12
    required_witnesses = (
        "closure kept a glyph produced by GSUB type 1", "closure kept a glyph produced by GSUB type 2", "closure kept a glyph produced by GSUB type 3", "closure kept a glyph produced by GSUB type 4",
        "closure kept a glyph produced through a type 5 context", "closure kept a glyph produced through a type 6 context", "lookup pruned", "CFF font with subroutines", "variable font", "glyphs dropped",
    )

    def setup(self, tier, seed):
        self.focus, self.reps = corpus_focus(tier, seed)

    def cases(self, tier, seed):
        maxlen = 2 if tier == "quick" else 3
        for key in sorted(self.focus):
            info = info_of(key)
            U = char_universe(info)
            focus = self.focus[key]
            bname, bkw = K.base_options(info)
            reqs = list(nonempty_subsets(focus))
            if len(U) > len(focus):
                reqs += whole_set_family(U, focus, tier, seed, pairs=(key in self.reps and len(U) <= 120))
            seen = set()
            for req in reqs:
                t = tuple(req)
                if t in seen:
                    continue
                seen.add(t)
                yield [key, "unicodes", req, bname, bkw, focus, maxlen]
            gl = sorted({info.index[info.cm[c]] for c in focus if c in info.cm})
            for kind in ("glyphs", "gids"):
                for req in nonempty_subsets(gl, 2):
                    yield [key, kind, req, bname, bkw, focus, maxlen]

    def bounds(self, tier, seed):
        return {"fonts": len(self.focus), "focus_alphabet": 6 if tier == "quick" else 8, "text_length": 2 if tier == "quick" else 3}


class CorpusOptions(_Base):
    name = "corpus-options"
    rule = ("the same corpus fonts (thorough: the non-AOTS fonts and the rotating AOTS representatives) x every single applicable option deviation on top of the font's base options (quick: every second deviation per font, the phase rotating with font and seed) x requests by unicodes=: focus subsets of size <= 2, the whole focus alphabet (thorough: co-size 1 too) and the whole character set; same oracle; distinct = (font, request, options)")
    chunk = 12
    required_witnesses = ("options deviate from default", "desubroutinized a font with subroutines", "feature switched off by options", "retain_gids with emptied glyphs")

    def setup(self, tier, seed):
        self.focus, self.reps = corpus_focus(tier, seed)

    def cases(self, tier, seed):
        maxlen = 2 if tier == "quick" else 3
        for key in sorted(self.focus):
            info = info_of(key)
            U = char_universe(info)
            focus = self.focus[key]
            reqs = list(nonempty_subsets(focus, 2)) + [list(focus)]
            if tier == "thorough":
                reqs = small_and_cosmall(focus)
            if len(U) > len(focus):
                reqs.append(U)
            bname, _bkw = K.base_options(info)
            if tier == "thorough" and F.corpus.is_aots(key) and key not in self.reps:
                continue
            for oi, (optname, kw) in enumerate(K.option_sets(info, tier, seed, pairs=False, base=True)):
                if optname == bname:
                    continue  # done by corpus-requests
                if tier == "quick" and (oi + h64(key) + seed) % 2:
                    continue
                for req in reqs:
                    yield [key, "unicodes", req, optname, kw, focus, maxlen]


_UNITS = []


def units():
    if not _UNITS:
        _UNITS.extend([GeneratedAllSubsets(), GeneratedRequestKinds(), CorpusRequests(), CorpusOptions()])
    return _UNITS
