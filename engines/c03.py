"""C03 - TTX XML is a lossless representation of a font.

font x dump-option lattice (deviation-bounded).  Oracle: the font rebuilt by importXML from the
dump saves to the same table bytes as the object model it was dumped from (free-text tables are
compared on their whitespace-normalised canonical dump when bytes differ, as the property says).
"""
from mc import env  # noqa: F401
from mc.kernel import Unit, h64

import io
import itertools
import os
import re
import shutil
import tempfile

from fontTools.ttLib import TTFont

from oracles import corpus, tinyfont
from engines.c01 import parse_sfnt

LEVEL = "exploration"
ASSUMPTIONS = [
    "fonts = vendored corpus (TTC members, WOFF/WOFF2 unwrapped by loading), corpus TTX compiled with the tree under test, generated pool incl. hostile glyph names / name strings; XML written by other tools is not covered",
    "ttx-cli unit: a bitmap location table (EBLC/CBLC) is selected together with its data table (EBDT/CBDT): its dump holds no offsets by format (they are recalculated when the data table is compiled), so merging it alone into a binary whose data table stays undecoded is not a dump the format supports; loca and Gloc, which fontTools keeps from the merge file, are selected alone",
    "free-text tables (name, CFF/CFF2 strings, meta, SVG, TSI*) whose bytes differ are compared by their canonical dump with XML whitespace collapsed, per the property statement",
]

_FONTS = {}
TMPROOT = "/dev/shm" if os.path.isdir("/dev/shm") else None

# option -> (default, alternatives)
OPTIONS = {
    "splitTables": (False, [True]),
    "splitGlyphs": (False, [True]),
    "disassembleInstructions": (True, [False]),
    "bitmapGlyphDataFormat": ("raw", ["row", "bitwise", "extfile"]),
    "newlinestr": ("\n", ["\r\n", "\r"]),
    "writeVersion": (True, [False]),
}
FREE_TEXT = ("name", "CFF ", "CFF2", "meta", "SVG ", "TSI0", "TSI1", "TSI2", "TSI3", "TSI5", "TSIB", "TSIC", "TSID", "TSIJ", "TSIP", "TSIS", "TSIV", "ltag", "Debg")

# the last four collide pairwise as per-glyph file names (splitGlyphs): 'A/b' and 'A_b' both give
# A__b (an upper-case clash), 'a?b' and 'a*b' both give a_b
HOSTILE_GLYPHS = ["a&b", "a<b", 'a"b', "a'b", "a>b", "a b", "a]]>b", "a.b-c", "Aacute_", "_1", "A/b", "A_b", "a?b", "a*b"]
HOSTILE_STRINGS = ["x--y", "--", "a---b", "ends-", "-->", "<!-- c -->", "<", ">", "&", '"', "'", " lead", "trail ", "two  spaces", "tab\there", "é", "￿"[:0] + " ", "\U0001F600", "]]>", "a&amp;b", "&#65;", "line\nbreak"]


def load_fonts():
    if _FONTS:
        return
    for name, data, idx in corpus.binary_faces():
        _FONTS["bin:" + name] = (data, idx)
    for name, data in corpus.compiled_ttx():
        if "master_cff2_input/TestCFF2_" in name:
            continue  # malformed corpus data: CFF2 charstrings carrying a width operand
        _FONTS["ttx:" + name] = (data, -1)
    for pname, spec in sorted(tinyfont.pool().items()):
        _FONTS["tiny:" + pname] = (tinyfont.build_bytes(spec), -1)
    # embedded bitmaps: the vendored corpus has no EBDT font (only CBDT PNG data), so the row / bitwise
    # dump formats get generated fonts in every image format, with rows ending inside a byte
    from oracles import bitmapfont

    for bname, bdata in sorted(bitmapfont.family().items()):
        _FONTS["tiny:" + bname] = (bdata, -1)
    # CID-keyed CFF fonts with their FDSelect stored in the other format (0 <-> 3): the dump names the
    # format, the import has to keep it even when the other one would be smaller
    for key in sorted(k for k in _FONTS if k.startswith("ttx:") or k.startswith("bin:")):
        data, idx = _FONTS[key]
        if len(data) > 60000 or b"CFF " not in data[:1024]:
            continue
        try:
            f = TTFont(io.BytesIO(data), fontNumber=idx)
            td = f["CFF "].cff.topDictIndex[0]
            sel = getattr(td, "FDSelect", None)
            if sel is None or len(f.getGlyphOrder()) < 8:
                continue
            sel.format = 0 if sel.format != 0 else 3
            b = io.BytesIO()
            f.save(b)
            g = TTFont(io.BytesIO(b.getvalue()))
            if g["CFF "].cff.topDictIndex[0].FDSelect.format == sel.format:
                _FONTS["derived:%s-fdselect%d" % (key.split("/")[-1], sel.format)] = (b.getvalue(), -1)
        except Exception:
            continue
    # hostile glyph names and name strings
    spec = {"kind": "ttf", "shapes": "mixed", "glyphs": HOSTILE_GLYPHS, "cmap": {0x41 + i: g for i, g in enumerate(HOSTILE_GLYPHS)},
            "fea": "feature liga { sub \\a.b-c \\Aacute_ by \\_1; } liga;"}
    # ... every one of them referenced as a UI name of a stylistic set (name IDs 256.. in order): the
    # dump writes the string next to the reference, as a comment
    uinames = "".join("feature ss%02d { featureNames { name \"n%d\"; }; sub \\a.b-c by \\_1; } ss%02d;\n" % (i + 1, i, i + 1) for i in range(min(20, len(HOSTILE_STRINGS))))
    spec["fea"] = uinames + spec["fea"]
    f = tinyfont.build(spec)
    ui = sorted(fr.Feature.FeatureParams.UINameID for fr in f["GSUB"].table.FeatureList.FeatureRecord if fr.FeatureTag.startswith("ss"))
    assert ui == list(range(256, 256 + min(20, len(HOSTILE_STRINGS)))), ui
    for i, s in enumerate(HOSTILE_STRINGS):
        f["name"].setName(s, 256 + i, 3, 1, 0x409)
        try:
            s.encode("mac_roman")
        except UnicodeEncodeError:
            continue
        f["name"].setName(s, 256 + i, 1, 0, 0)
    _FONTS["tiny:hostile-names-ttf"] = (tinyfont.to_bytes(f), -1)
    # per-point and per-component flag bits that only some positions usually carry: OVERLAP_SIMPLE on
    # the first point only / on later points only / on several, OVERLAP_COMPOUND on a composite
    f = tinyfont.reload(tinyfont.build({"kind": "ttf", "shapes": "mixed", "glyphs": ["a", "b", "c", "d"], "composite": True}))
    glyf = f["glyf"]
    for name, positions in ((".notdef", (-1,)), ("a", (0,)), ("b", (1, 2)), ("c", (0, 1, 5))):
        g = glyf[name]
        g.expand(glyf)
        for pos in positions:
            g.flags[pos] |= 0x40
    for name in f.getGlyphOrder():
        g = glyf[name]
        if g.isComposite():
            g.components[-1].flags |= 0x0400
    _FONTS["tiny:overlap-flags"] = (tinyfont.to_bytes(f), -1)
    spec = dict(spec, kind="cff")
    _FONTS["tiny:hostile-names-cff"] = (tinyfont.build_bytes(spec), -1)


def configs(tier, small):
    """Deviation-bounded option lattice: k<=1 quick, k<=2 thorough (full product for small
    generated fonts in thorough)."""
    names = sorted(OPTIONS)
    base = {n: OPTIONS[n][0] for n in names}
    out = [dict(base)]
    k = 1 if tier == "quick" else 2
    if tier == "thorough" and small:
        k = len(names)
    for dev in range(1, k + 1):
        for sub in itertools.combinations(names, dev):
            for vals in itertools.product(*[OPTIONS[n][1] for n in sub]):
                c = dict(base)
                c.update(dict(zip(sub, vals)))
                out.append(c)
    return out


def collapse_ws(x):
    return re.sub(r"\s+", " ", x).strip()


class DumpImport(Unit):
    name = "dump-import-lattice"
    rule = ("every font (corpus faces, compiled corpus TTX, generated pool incl. hostile glyph names and name strings) x saveXML option lattice {splitTables, splitGlyphs, disassembleInstructions, bitmapGlyphDataFormat in raw/row/bitwise/extfile, newlinestr in LF/CRLF/CR, writeVersion} "
            "explored by deviation bound (k<=1 quick, k<=2 thorough, full product on generated fonts) + per-table selections (tables=[t] and skipTables=[t] for every table, imported back into the source font): "
            "table bytes of save(importXML(dump(F))) == table bytes of save(F); free-text tables compared on whitespace-collapsed canonical dump when bytes differ; distinct = (font, config)")
    chunk = 4
    required_witnesses = ("split dump", "per-glyph split", "instructions as bytes", "bitmap font", "CRLF", "single-table merge", "hostile names", "CFF font", "variable font")

    def setup(self, tier, seed):
        load_fonts()

    def cases(self, tier, seed):
        for key in sorted(_FONTS):
            data, idx = _FONTS[key]
            aots = corpus.is_aots(key)
            big = len(data) > 60000
            small = key.startswith("tiny:")
            cfgs = configs(tier, small)
            if aots and tier == "quick":
                # near-identical family: defaults for all, deviations for a rotating eighth
                if (h64(key) + seed) % 8:
                    cfgs = cfgs[:1]
            if big:
                cfgs = cfgs[:1] if tier == "quick" else cfgs[:8]
            for c in cfgs:
                # documented domain (ttx -z): EBDT accepts raw/row/bitwise/extfile, CBDT only
                # raw/extfile
                if c["bitmapGlyphDataFormat"] in ("row", "bitwise") and b"CBDT" in data[:2048]:
                    continue
                yield [key, c, None]
            if big or (aots and (tier == "quick" and (h64(key) + seed) % 8)):
                continue
            try:
                tags = [t for t in TTFont(io.BytesIO(data), fontNumber=idx, lazy=True).keys() if t != "GlyphOrder"]
            except Exception:
                continue
            base = {n: OPTIONS[n][0] for n in OPTIONS}
            for t in tags:
                yield [key, base, ["tables", t]]
                if tier == "thorough" or not aots:
                    yield [key, base, ["skipTables", t]]

    def check(self, case, rec):
        key, cfg, sel = case
        data, idx = _FONTS[key]
        src = TTFont(io.BytesIO(data), fontNumber=idx, recalcTimestamp=False)
        src.ensureDecompiled()
        src.flavor = None
        a = io.BytesIO()
        src.save(a)
        A = parse_sfnt(a.getvalue())
        # dump from a fresh object so that the first save cannot influence the dump
        f = TTFont(io.BytesIO(data), fontNumber=idx, recalcTimestamp=False)
        tmp = tempfile.mkdtemp(prefix="c03", dir=TMPROOT)
        try:
            path = os.path.join(tmp, "font.ttx")
            kw = dict(cfg)
            nl = kw.pop("newlinestr")
            if sel:
                kw[sel[0]] = [sel[1]]
            f.saveXML(path, newlinestr=nl, **kw)
            if sel is None:
                g = TTFont(recalcTimestamp=False)
                g.importXML(path)
            else:
                # a partial dump is merged back into the (fully decoded) font it came from,
                # as `ttx -m` does: the tables in the dump replace the decoded ones
                g = TTFont(io.BytesIO(data), fontNumber=idx, recalcTimestamp=False)
                g.ensureDecompiled()
                g.importXML(path)
                rec.witness("single-table merge")
            g.flavor = None
            b = io.BytesIO()
            g.save(b)
        finally:
            shutil.rmtree(tmp, ignore_errors=True)
        B = parse_sfnt(b.getvalue())
        if cfg["splitTables"] or cfg["splitGlyphs"]:
            rec.witness("split dump")
        if cfg["splitGlyphs"] and "glyf" in A:
            rec.witness("per-glyph split")
        if not cfg["disassembleInstructions"] and ("fpgm" in A or "prep" in A):
            rec.witness("instructions as bytes")
        if cfg["bitmapGlyphDataFormat"] != "raw" and ("EBDT" in A or "CBDT" in A):
            rec.witness("bitmap font")
        if nl == "\r\n":
            rec.witness("CRLF")
        if "hostile" in key:
            rec.witness("hostile names")
        if "CFF " in A:
            rec.witness("CFF font")
        if "fvar" in A:
            rec.witness("variable font")
        if sorted(A) != sorted(B):
            if sel is None or sel[0] == "tables":
                rec.violation("table-set", "%s cfg=%s sel=%s: tables %s vs %s" % (key, cfg, sel, sorted(set(A) - set(B)), sorted(set(B) - set(A))))
                return
        g2 = None
        for t in sorted(A):
            if t not in B:
                continue
            x, y = A[t], B[t]
            if t == "head":
                x, y = x[:8] + b"\0\0\0\0" + x[12:], y[:8] + b"\0\0\0\0" + y[12:]
            if x == y:
                continue
            if t in FREE_TEXT:
                if g2 is None:
                    g2 = TTFont(io.BytesIO(b.getvalue()))
                    s2 = TTFont(io.BytesIO(a.getvalue()))
                xa, xb = io.StringIO(), io.StringIO()
                s2.saveXML(xa, tables=[t], writeVersion=False)
                g2.saveXML(xb, tables=[t], writeVersion=False)
                if collapse_ws(xa.getvalue()) == collapse_ws(xb.getvalue()):
                    rec.count("free-text table differs only in whitespace")
                    continue
            rec.violation("table-bytes:%s:%s" % (t, cfg_class(cfg, sel)), "%s cfg=%s sel=%s: table %r compiles to different bytes after dump+import (%d vs %d bytes, first difference at %d)" % (
                key, cfg, sel, t, len(x), len(y), next((i for i, (p, q) in enumerate(zip(x, y)) if p != q), min(len(x), len(y)))))
        rec.nontrivial()


def cfg_class(cfg, sel):
    devs = sorted(n for n in OPTIONS if cfg[n] != OPTIONS[n][0])
    return "+".join(devs) + ("/" + sel[0] if sel else "") or "defaults"


class Programs(Unit):
    name = "ttprogram-assembly"
    rule = ("TrueType instruction streams: every opcode 0x00..0xFF as a one-instruction program (push opcodes with every legal count and boundary operand values), every ordered pair of 40 representative opcodes, PUSH runs of n in {1,2,7,8,9,255,256} byte/word values, and every push instruction cut short at every length (malformed: the XML dump must stay lossless in both modes, and any assembly produced must read back): "
            "bytecode -> assembly text -> bytecode is the identity, and assembly -> bytecode -> assembly is a fixed point; distinct = each program")
    chunk = 64
    required_witnesses = ("truncated push instruction",)

    def cases(self, tier, seed):
        for op in range(256):
            yield ["one", op]
        reps = list(range(0x00, 0x100, 7)) + [0x40, 0x41, 0xB0, 0xB7, 0xB8, 0xBF]
        reps = sorted(set(reps))
        if tier == "thorough":
            for a in reps:
                for b in reps:
                    yield ["two", a, b]
        else:
            for a in reps[::2]:
                for b in reps[::3]:
                    yield ["two", a, b]
        for n in (1, 2, 7, 8, 9, 255, 256):
            for kind in ("b", "w", "mixed"):
                yield ["push", n, kind]
        # malformed streams: every push instruction cut short at every length (alone and after a
        # well-formed instruction); they cannot be disassembled, the dump must stay lossless
        for op in [0x40, 0x41] + list(range(0xB0, 0xC0)):
            full = self.instr(op, 1)
            cuts = range(1, len(full)) if len(full) <= 20 else [1, 2, 3, len(full) // 2, len(full) - 2, len(full) - 1]
            for cut in cuts:
                yield ["trunc", op, cut, 0]
                yield ["trunc", op, cut, 1]

    @staticmethod
    def instr(op, variant=0):
        """one well-formed instruction starting with opcode `op`"""
        if op == 0x40:  # NPUSHB
            n = (1, 8, 255)[variant % 3]
            return bytes([op, n]) + bytes((i * 37 + variant) & 0xFF for i in range(n))
        if op == 0x41:  # NPUSHW
            n = (1, 8, 255)[variant % 3]
            return bytes([op, n]) + b"".join(((i * 2749 + 0x7FFF) & 0xFFFF).to_bytes(2, "big") for i in range(n))
        if 0xB0 <= op <= 0xB7:
            n = op - 0xB0 + 1
            return bytes([op]) + bytes((255 - i) & 0xFF for i in range(n))
        if 0xB8 <= op <= 0xBF:
            n = op - 0xB8 + 1
            return bytes([op]) + b"".join(v.to_bytes(2, "big") for v in [0x8000, 0x7FFF, 0xFFFF, 0, 1, 0x00FF, 0x0100, 0xFF00][:n])
        return bytes([op])

    def check(self, case, rec):
        from fontTools.ttLib.tables.ttProgram import Program

        malformed = case[0] == "trunc"
        if malformed:
            progs = [(self.instr(0xB1) + b"\x01" if case[3] else b"") + self.instr(case[1], 1)[: case[2]]]
            rec.witness("truncated push instruction")
        elif case[0] == "one":
            progs = [self.instr(case[1], v) for v in range(3 if case[1] in (0x40, 0x41) else 1)]
        elif case[0] == "two":
            progs = [self.instr(case[1]) + self.instr(case[2])]
        else:
            n, kind = case[1], case[2]
            if kind == "b":
                vals = [(i * 7) & 0xFF for i in range(n)]
            elif kind == "w":
                vals = [-32768 + (i * 257) % 65536 for i in range(n)]
            else:
                vals = [(i * 7) & 0xFF if i % 3 else -300 - i for i in range(n)]
            p = Program()
            p.fromAssembly(["PUSH[ ]"] + [str(v) for v in vals] if False else ["PUSH[ ]  /* %d values pushed */" % n, " ".join(str(v) for v in vals)])
            progs = [p.getBytecode()]
        for bc in progs:
            p = Program()
            p.fromBytecode(bc)
            try:
                asm = p.getAssembly()
            except Exception:
                if not malformed:
                    raise
                asm = None
            if malformed and asm is not None:
                # a stream that ends inside an instruction has no assembly form that reads back
                q = Program()
                q.fromAssembly(asm)
                if bytes(q.getBytecode()) != bytes(bc):
                    rec.violation("ttprogram:malformed-disassembled", "truncated program %s was disassembled to %r, which assembles to %s" % (bytes(bc).hex(), asm[:4], bytes(q.getBytecode()).hex()), case=case)
            q = Program()
            if asm is None:
                asm = []
                bc2 = bc
            else:
                q.fromAssembly(asm)
                bc2 = q.getBytecode()
            if malformed:
                pass
            elif bytes(bc2) != bytes(bc):
                rec.violation("ttprogram:bytecode-roundtrip", "bytecode %s -> %r -> %s" % (bytes(bc).hex()[:80], asm[:6], bytes(bc2).hex()[:80]), case=case)
            r = Program()
            r.fromBytecode(bc2)
            if not malformed and r.getAssembly() != asm:
                rec.violation("ttprogram:assembly-fixedpoint", "assembly not a fixed point for %s" % bytes(bc).hex()[:80], case=case)
            # through XML as well
            from fontTools.misc.xmlWriter import XMLWriter

            for dis in (True, False):
                buf = io.StringIO()
                w = XMLWriter(buf)

                class F:
                    disassembleInstructions = dis

                w.begintag("root")
                w.newline()
                p2 = Program()
                p2.fromBytecode(bc)
                p2.toXML(w, F)
                w.endtag("root")
                w.close()
                import xml.etree.ElementTree as ET

                root = ET.fromstring(buf.getvalue().split("?>", 1)[-1])
                q2 = Program()
                for el in root:
                    content = [el.text or ""]
                    q2.fromXML(el.tag, dict(el.attrib), content, F)
                if bytes(q2.getBytecode()) != bytes(bc):
                    rec.violation("ttprogram:xml-roundtrip:disassemble=%s" % dis, "bytecode %s differs after toXML/fromXML" % bytes(bc).hex()[:80], case=case)
        rec.nontrivial()


def run_ttx(argv):
    """What fontTools.ttx.main(argv) does - parseOptions then process - without main()'s last
    stage, which logs any exception and turns it into sys.exit(1): here the exception itself
    propagates, so a failure is reported with the fontTools frame it came from."""
    from fontTools import ttx

    jobs, options = ttx.parseOptions(list(argv))
    ttx.process(jobs, options)


class TtxCli(Unit):
    name = "ttx-cli"
    rule = ("the fonttools ttx command line on font files: every option set from {default, -s, -g, -i, -z extfile, --newline CRLF, --newline CR, -t <each table>, -x <each table> (then compiled with -m <original>), -d other directory, -o explicit name} "
            "on generated + small corpus fonts: ttx font -> .ttx, ttx .ttx --no-recalc-timestamp -> font; table bytes of the result equal those of the font saved from its object model; output files only where requested; distinct = (font, option set)")
    chunk = 2
    required_witnesses = ("-s", "-g", "-t/-m merge")

    def setup(self, tier, seed):
        load_fonts()

    def cases(self, tier, seed):
        keys = [k for k in sorted(_FONTS) if not corpus.is_aots(k) and len(_FONTS[k][0]) < 20000]
        keys += [k for k in sorted(_FONTS) if corpus.is_aots(k)][(seed % 7)::40]
        if tier == "quick":
            keys = [k for i, k in enumerate(keys) if (i + seed) % 3 == 0 or k.startswith("tiny:") or k.endswith(".ttc#0") or k.endswith(".ttc#1")]
        for key in keys:
            data, idx = _FONTS[key]
            for opts in ([], ["-s"], ["-g"], ["-i"], ["-z", "extfile"], ["--newline", "CRLF"], ["--newline", "CR"], ["-d"], ["-o"]):
                yield [key, opts, None]
            try:
                tags = [t for t in TTFont(io.BytesIO(data), fontNumber=idx, lazy=True).keys() if t != "GlyphOrder"]
            except Exception:
                continue
            for t in tags:
                pair = {"EBLC": "EBDT", "CBLC": "CBDT"}.get(t)
                yield [key, ["-t", t] + (["-t", pair] if pair in tags else []), t]
                if tier == "thorough":
                    # leaving out a bitmap data table leaves out its location table too (see ASSUMPTIONS)
                    loc = {"EBDT": "EBLC", "CBDT": "CBLC"}.get(t)
                    yield [key, ["-x", t] + (["-x", loc] if loc in tags else []), t]

    def check(self, case, rec):
        key, opts, tag = case
        data, idx = _FONTS[key]
        # the command line works on files: give it the font at its recompile fixed point, so
        # that which tables get decoded (all of them, or one merged with -m) cannot matter
        src = TTFont(io.BytesIO(data), fontNumber=idx, recalcTimestamp=False)
        src.ensureDecompiled()
        src.flavor = None
        a = io.BytesIO()
        src.save(a)
        src = TTFont(io.BytesIO(a.getvalue()), recalcTimestamp=False)
        src.ensureDecompiled()
        a = io.BytesIO()
        src.save(a)
        data, idx = a.getvalue(), -1
        A = parse_sfnt(data)
        tmp = tempfile.mkdtemp(prefix="c03cli", dir=TMPROOT)
        try:
            ext = ".ttc" if idx >= 0 else (".otf" if "CFF " in A or "CFF2" in A else ".ttf")
            fpath = os.path.join(tmp, "in", "font" + ext)
            os.makedirs(os.path.dirname(fpath))
            with open(fpath, "wb") as f:
                f.write(data)
            args = ["-q"]
            outdir = os.path.dirname(fpath)
            xpath = os.path.join(outdir, "font.ttx")
            o = list(opts)
            if o == ["-d"]:
                outdir = os.path.join(tmp, "elsewhere")
                os.makedirs(outdir)
                o = ["-d", outdir]
                xpath = os.path.join(outdir, "font.ttx")
            elif o == ["-o"]:
                xpath = os.path.join(tmp, "named.ttx")
                o = ["-o", xpath]
            before = snapshot_tree(tmp)
            run_ttx(args + o + [fpath])
            if not os.path.exists(xpath):
                rec.violation("ttx-cli:output-missing", "%s %s: expected dump at %s; tree: %s" % (key, opts, xpath, sorted(snapshot_tree(tmp))))
                return
            # nothing written outside the requested output directory
            new = set(snapshot_tree(tmp)) - set(before)
            stray = [p for p in new if not p.startswith(os.path.dirname(xpath))]
            if stray:
                rec.violation("ttx-cli:stray-output", "%s %s: files created outside the output location: %s" % (key, opts, stray))
            cargs = ["-q", "--no-recalc-timestamp", "-o", os.path.join(tmp, "back" + ext.replace(".ttc", ".ttf"))]
            if tag is not None:
                cargs += ["-m", fpath]
                rec.witness("-t/-m merge")
            run_ttx(cargs + [xpath])
            back = open(os.path.join(tmp, "back" + ext.replace(".ttc", ".ttf")), "rb").read()
        finally:
            shutil.rmtree(tmp, ignore_errors=True)
        B = parse_sfnt(back)
        if "-s" in opts:
            rec.witness("-s")
        if "-g" in opts:
            rec.witness("-g")
        if sorted(A) != sorted(B):
            rec.violation("ttx-cli:table-set", "%s %s: tables %s vs %s" % (key, opts, sorted(set(A) - set(B)), sorted(set(B) - set(A))))
            return
        g2 = None
        for t in sorted(A):
            x, y = A[t], B[t]
            if t == "head":
                x, y = x[:8] + b"\0\0\0\0" + x[12:], y[:8] + b"\0\0\0\0" + y[12:]
            if x == y:
                continue
            if t in FREE_TEXT:
                s2 = TTFont(io.BytesIO(a.getvalue()))
                g2 = TTFont(io.BytesIO(back))
                xa, xb = io.StringIO(), io.StringIO()
                s2.saveXML(xa, tables=[t], writeVersion=False)
                g2.saveXML(xb, tables=[t], writeVersion=False)
                if collapse_ws(xa.getvalue()) == collapse_ws(xb.getvalue()):
                    continue
            rec.violation("ttx-cli:table-bytes:%s:%s" % (t, "+".join(o for o in opts if o.startswith("-")) or "defaults"), "%s %s: table %r differs after ttx dump + compile (%d vs %d bytes)" % (key, opts, t, len(x), len(y)))
        rec.nontrivial()


def snapshot_tree(root):
    out = []
    for d, _dirs, files in os.walk(root):
        for f in files:
            out.append(os.path.join(d, f))
    return out


def units():
    return [DumpImport(), Programs(), TtxCli()]
