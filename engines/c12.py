"""C12 - rewriting a CFF charstring never changes what it draws.

Bounded exhaustive enumeration of Type 2 programs through every rewriting path of fontTools
(specialiser, generaliser, byte-code compiler/decompiler, T2CharStringPen, desubroutiniser,
hint remover, subroutine pruner, subsetter, CFF<->CFF2 converters, width optimiser).

Observation instruments (two, independent of each other):
  * oracles.t2ref   - a Type 2 interpreter written from Adobe TN5177 (paths, width operand,
                      operand-stack depth, legal operand counts, hints and masks);
  * T2CharString.draw into oracles.geom.SegPen (fontTools' own outline extractor).
Every rewritten program is drawn by both and compared with the drawing of the program before
rewriting, by both.

What "the same drawing" means follows specializeCommands' own documentation:
  * always allowed: successive rmoveto's are combined (step 1) - a moveto that is followed by
    another moveto draws nothing, so contours without any segment are ignored;
  * preserveTopology=True: the segment list of every contour is identical (type and all points);
  * preserveTopology=False ("we happily change topology"): exactly the three documented
    redundancy removals are allowed - a curve whose control points coincide with its end points
    ("00curveto") becomes a line, a zero-length line ("0lineto") is deleted, adjacent
    horizontal (resp. vertical) lines are added up.  `fill_norm` is the normal form under these
    three rules; the two drawings must have equal normal forms;
  * the operand stack of the emitted program, measured by the reference interpreter, never
    exceeds maxstack (the property's "stack limit").  A code comment promises maxstack-1 ("so
    that subroutinizer can insert subroutine calls at any point"); programs that reach maxstack
    exactly are counted in the evidence (counter), not flagged.
"""
from mc import env  # noqa: F401
from mc.kernel import Unit

import hashlib
import io
import itertools
import types

from fontTools.cffLib import specializer as SP
from fontTools.cffLib.width import optimizeWidths, optimizeWidthsBruteforce, byteCost
from fontTools.misc.psCharStrings import T2CharString
from fontTools.pens.t2CharStringPen import T2CharStringPen

from oracles import t2ref, geom, corpus

LEVEL = "exploration"
ASSUMPTIONS = [
    "arithmetic/storage/conditional operators (put, get, random, ifelse...) are outside the generated grammar (the reference interpreter implements them, the corpus fonts do not use them)",
    "operand values are instantiated from fixed lists of small distinct integers, dyadic fractions and the integer-encoding boundaries (107/108, 1131/1132, +-32767); the specialiser only inspects zero/non-zero, every such pattern is enumerated",
    "contours without any segment (a moveto directly followed by a moveto or by the end) draw nothing and are ignored: specializeCommands step 1 merges successive rmoveto's unconditionally",
    "the CFF INDEX / DICT / VarStore parsing of fontTools is trusted to hand out the raw charstring and subroutine byte codes; the interpretation of those bytes is not",
    "variable CFF2 fonts are compared at the default location and at one synthetic region-scalar vector (blend is linear in the scalars)",
    "corpus fonts whose charstrings cannot be drawn before any transform (CFF2 test inputs that carry a width operand) are skipped and counted",
    "optimizeWidths optimality is judged with fontTools' own documented cost model (1/2/5 bytes), against optimizeWidthsBruteforce and an independent exhaustive minimum",
    "stack limit = the maxstack given to specializeCommands (48 CFF / 513 CFF2 for fonts); the extra margin of one promised in a code comment is only counted (counter 'stack reaches maxstack exactly')",
    "HarfBuzz 12 (uharfbuzz) is trusted as a third reader of saved fonts: quick = after CFF<->CFF2 conversions of fonts up to 600 glyphs, thorough = after every transform that keeps the glyph order",
    "CFF<->CFF2 conversions are driven the way instancer.downgradeCFF2ToCFF does (reload with recalcBBoxes=False, convert, save, reload), because convertCFF2ToCFF renames the glyphs",
]

NOMINAL, DEFAULT = 600, 500
PRIV = types.SimpleNamespace(nominalWidthX=NOMINAL, defaultWidthX=DEFAULT, in_cff2=False)
PRIV2 = types.SimpleNamespace(nominalWidthX=None, defaultWidthX=None, in_cff2=True)

ATOMS = (3, -5, 7, -11, 13, -17, 19, -23, 29, -31, 37, -41, 43, -47, 53, -59, 61, -67, 71, -73,
         79, -83, 89, -97, 101, -103, 107, -109, 113, -127, 131, -137, 139, -149, 151, -157)


def atom(k, seed):
    """k-th 'some non-zero value' of a program (distinct within a program)."""
    v = ATOMS[(k + 5 * seed) % len(ATOMS)]
    if seed % 2:
        v = -v
    if seed % 4 == 3:
        v = v / 2  # dyadic fraction: exercises the float paths, arithmetic stays exact
    return v


# ------------------------------------------------------------------ drawing / comparing
def ft_draw(code, priv=PRIV, blender=None):
    """T2CharString.draw of a program list or byte code -> (width, closed contours)."""
    if isinstance(code, (bytes, bytearray)):
        cs = T2CharString(bytecode=bytes(code), private=priv)
    else:
        cs = T2CharString(program=list(code), private=priv)
    pen = geom.SegPen()
    cs.draw(pen, blender)
    pen._flush(False)
    return cs.width, pen.contours


def exact(contours):
    """Point structure: every contour that has segments, with all its points."""
    return [(tuple(start), tuple(segs)) for _c, start, segs in contours if segs]


def fill_norm(contours):
    """Normal form under the three topology changes specializeCommands documents."""
    out = []
    for _c, start, segs in contours:
        st = []
        for s in segs:
            if s[0] == "C":
                if s[1] == s[2] and s[3] == s[4]:
                    s = ("L", s[1], s[4])  # "A 00curveto is demoted to a lineto"
                else:
                    st.append(s)
                    continue
            if s[0] != "L":
                st.append(s)
                continue
            p0, p1 = s[1], s[2]
            if p0 == p1:
                continue  # "A 0lineto can be deleted"
            if st and st[-1][0] == "L":
                q0, q1 = st[-1][1], st[-1][2]
                if q0[1] == q1[1] == p1[1] or q0[0] == q1[0] == p1[0]:
                    st.pop()  # "Merge adjacent hlineto's and vlineto's"
                    if q0 != p1:
                        st.append(("L", q0, p1))
                    continue
            st.append(s)
        if st:
            out.append((tuple(start), tuple(st)))
    return out


def ref_width(r, nominal=NOMINAL, default=DEFAULT):
    return default if r.width is None else nominal + r.width


def show(contours):
    return repr(exact(contours))[:1500]


def prog_str(p):
    return " ".join(x.hex() if isinstance(x, bytes) else str(x) for x in p)


class Drawn:
    """Both drawings of one program."""

    __slots__ = ("r", "ref_c", "ft_w", "ft_c")

    def __init__(self, prog, priv=PRIV, cff2=False, nreg=None, scal=None, blender=None):
        self.r = t2ref.run(prog, cff2=cff2, num_regions=nreg, scalars=scal)
        self.ref_c = self.r.closed()
        self.ft_w, self.ft_c = ft_draw(prog, priv, blender)


def check_rewrite(rec, fk, before, after, topo, what, limit=None, cff2=False, hints=True):
    """before/after: Drawn.  topo=True demands identical point structure."""
    ok = True
    ra, rb = after.r, before.r
    if ra.errors:
        rec.violation(fk + ":illegal-program", "%s: emitted program is not a legal Type 2 program: %s" % (what, ra.errors[:3]))
        ok = False
    if exact(after.ref_c) != exact(after.ft_c):
        g = geom.contours_close(geom.canon_contours(after.ref_c), geom.canon_contours(after.ft_c), 1e-9)
        if g:
            rec.violation(fk + ":interpreters-disagree", "%s: reference interpreter and T2CharString.draw disagree on the emitted program: %s" % (what, g),
                          observed=show(after.ft_c), expected=show(after.ref_c))
            ok = False
    for tag, a, b in (("ref", after.ref_c, before.ref_c), ("ft", after.ft_c, before.ft_c)):
        if topo:
            if exact(a) != exact(b):
                rec.violation(fk + ":points-changed", "%s: point structure changed although topology must be preserved (%s drawing)" % (what, tag),
                              observed=show(a), expected=show(b))
                ok = False
                break
        else:
            if fill_norm(a) != fill_norm(b):
                rec.violation(fk + ":outline-changed", "%s: filled outline changed (%s drawing)" % (what, tag),
                              observed=repr(fill_norm(a))[:1500], expected=repr(fill_norm(b))[:1500])
                ok = False
                break
    if not cff2:
        if ra.width != rb.width:
            rec.violation(fk + ":width-operand", "%s: width operand %r became %r" % (what, rb.width, ra.width))
            ok = False
        if after.ft_w != before.ft_w:
            rec.violation(fk + ":width", "%s: advance width %r became %r" % (what, before.ft_w, after.ft_w))
            ok = False
    if hints and (ra.stems != rb.stems or ra.masks != rb.masks):
        rec.violation(fk + ":hints-changed", "%s: stem hints / masks changed" % what,
                      observed=repr((ra.stems, ra.masks))[:800], expected=repr((rb.stems, rb.masks))[:800])
        ok = False
    if limit is not None and ra.max_stack > limit:
        rec.violation(fk + ":stack-over-limit", "%s: operand stack reaches %d with maxstack=%d" % (what, ra.max_stack, limit))
        ok = False
    elif limit is not None and ra.max_stack == limit:
        # the property demands the limit; specializeCommands' comment promises one less ("so that
        # subroutinizer can insert subroutine calls at any point"): counted, not a violation
        rec.count("stack reaches maxstack exactly (margin of 1 promised in a code comment not kept)")
    return ok


# ------------------------------------------------------------------ E1 symbols
def _symbols():
    """(op, zero-pattern) for every zero/non-zero pattern the specialiser inspects."""
    syms = []
    for op in ("rmoveto", "rlineto"):
        for zx in (0, 1):
            for zy in (0, 1):
                syms.append((op, (zx, zy)))
    for z0x in (0, 1):
        for z0y in (0, 1):
            for z3x in (0, 1):
                for z3y in (0, 1):
                    syms.append(("rrcurveto", (z0x, z0y, 0, 0, z3x, z3y)))
    # a "00curveto" is re-categorised by its middle vector: its three other zero patterns
    for mx, my in ((1, 0), (0, 1), (1, 1)):
        syms.append(("rrcurveto", (1, 1, mx, my, 1, 1)))
    return syms


SYMS = _symbols()  # 4 + 4 + 16 + 3 = 27
MOVES = [s for s in SYMS if s[0] == "rmoveto"]
CONFIGS = [(pt, ms, gf) for pt in (True, False) for ms in (48, 10) for gf in (True, False)]


def build_commands(first, seq, seed):
    cmds = []
    k = 0
    for op, zeros in [MOVES[first]] + [SYMS[i] for i in seq]:
        args = []
        for z in zeros:
            if z:
                args.append(0)
            else:
                args.append(atom(k, seed))
                k += 1
        cmds.append((op, args))
    return cmds


def general_program(cmds, width=None):
    prog = [] if width is None else [width]
    for op, args in cmds:
        prog.extend(args)
        prog.append(op)
    prog.append("endchar")
    return prog


def out_witnesses(rec, prog):
    for i, t in enumerate(prog):
        if isinstance(t, str):
            if t in ("hlineto", "vlineto", "hmoveto", "vmoveto", "hhcurveto", "vvcurveto", "hvcurveto",
                     "vhcurveto", "rcurveline", "rlinecurve"):
                rec.witness("emitted " + t)
            if t in ("hhcurveto", "vvcurveto", "hvcurveto", "vhcurveto"):
                j = i
                while j > 0 and not isinstance(prog[j - 1], (str, bytes)):
                    j -= 1
                n = i - j
                if n % 4 == 1:
                    rec.witness("emitted %s with the extra (odd) operand" % ("hv/vhcurveto" if t[0] != t[1] else "hh/vvcurveto"))
                if n >= 8:
                    rec.witness("emitted multi-curve " + ("hv/vhcurveto" if t[0] != t[1] else "hh/vvcurveto"))


def n_ops(prog):
    return sum(1 for t in prog if isinstance(t, str))


class SpecGen(Unit):
    name = "specialize-generated"
    rule = ("rmoveto (4 zero patterns) + every sequence of <=3 (quick) / <=4 (thorough) commands over 27 symbols "
            "{rmoveto x4, rlineto x4, rrcurveto x16 zero patterns of (dx0,dy0,dx3,dy3) + 3 middle-vector patterns of the 00 curve}, "
            "non-zero operands distinct, chosen by seed; x width operand present/absent x preserveTopology x maxstack {48,10} x generalizeFirst; "
            "specializeCommands output interpreted by the TN5177 reference and by T2CharString.draw: same points (topology preserved) / same "
            "fill normal form, same width, legal operand counts, stack <= maxstack; distinct = each (sequence, width, configuration)")
    required_witnesses = (
        "emitted hlineto", "emitted vlineto", "emitted hmoveto", "emitted vmoveto", "emitted hhcurveto",
        "emitted vvcurveto", "emitted hvcurveto", "emitted vhcurveto", "emitted rcurveline", "emitted rlinecurve",
        "emitted hv/vhcurveto with the extra (odd) operand", "emitted hh/vvcurveto with the extra (odd) operand",
        "emitted multi-curve hv/vhcurveto", "emitted multi-curve hh/vvcurveto",
        "merge refused by maxstack", "segment count reduced (topology change)", "movetos combined",
        "width operand carried", "peephole kept h/v segment as rlineto/rrcurveto",
    )
    chunk = 1

    def maxlen(self, tier):
        return 3 if tier == "quick" else 4

    def bounds(self, tier, seed):
        return {"symbols": len(SYMS), "max_commands_after_first_moveto": self.maxlen(tier), "configs": len(CONFIGS) * 2,
                "atoms": [atom(k, seed) for k in range(6)]}

    def cases(self, tier, seed):
        P = self.maxlen(tier) - 2  # prefix length enumerated as cases, tails (<=2) inside check
        for first in range(len(MOVES)):
            for n in range(0, P + 1):
                for pre in itertools.product(range(len(SYMS)), repeat=n):
                    yield [first, list(pre), n == P, seed]

    def check(self, case, rec):
        first, pre, expand, seed = case
        tails = [()]
        if expand:
            tails += [(a,) for a in range(len(SYMS))]
            tails += [(a, b) for a in range(len(SYMS)) for b in range(len(SYMS))]
        n = 0
        for tail in tails:
            seq = list(pre) + list(tail)
            n += self.one(first, seq, seed, rec)
        rec.evals(n - 1)
        rec.nontrivial_n(n)

    def one(self, first, seq, seed, rec):
        cmds = build_commands(first, seq, seed)
        n = 0
        for width in (None, 45):
            before = Drawn(general_program(cmds, width))
            if before.r.errors:
                rec.violation("selfcheck:generated-program", "generator produced an illegal program: %s" % before.r.errors[:2], case=[first, seq, seed])
                continue
            cache = {}
            nops48 = {}
            for pt, ms, gf in CONFIGS:
                n += 1
                inp = [(op, list(a)) for op, a in cmds]
                if width is not None:
                    inp.insert(0, ("", [width]))
                out = SP.specializeCommands(inp, generalizeFirst=gf, preserveTopology=pt, maxstack=ms)
                prog = SP.commandsToProgram(out) + ["endchar"]
                key = repr(prog)
                after = cache.get(key)
                if after is None:
                    after = cache[key] = Drawn(prog)
                    out_witnesses(rec, prog)
                what = "specializeCommands(%s, generalizeFirst=%s, preserveTopology=%s, maxstack=%d) -> %s" % (
                    prog_str(general_program(cmds, width)[:-1]), gf, pt, ms, prog_str(prog[:-1]))
                check_rewrite(rec, "specialize", before, after, pt, what, limit=ms, hints=False)
                if ms == 48:
                    nops48[(pt, gf)] = n_ops(prog)
                elif n_ops(prog) > nops48.get((pt, gf), 99):
                    rec.witness("merge refused by maxstack")
                if not pt and sum(len(c[1]) for c in exact(after.ref_c)) < sum(len(c[1]) for c in exact(before.ref_c)):
                    rec.witness("segment count reduced (topology change)")
                if pt and len(after.r.contours) < len(before.r.contours):
                    rec.witness("movetos combined")
                if width is not None and after.r.width == width:
                    rec.witness("width operand carried")
            if len(seq) >= 3:
                self.peephole_witness(cmds, cache, rec)
        return n

    @staticmethod
    def peephole_witness(cmds, cache, rec):
        # input shape: r-line, axis-parallel line, r-line  (or the curve analogue)
        for a, b, c in zip(cmds[1:], cmds[2:], cmds[3:]):
            if a[0] == b[0] == c[0] and a[0] in ("rlineto", "rrcurveto"):
                full = lambda x: all(v != 0 for v in x[1])
                if full(a) and full(c) and not full(b):
                    for key in cache:
                        if "hlineto" not in key and "vlineto" not in key and "hhcurveto" not in key and "vvcurveto" not in key \
                                and "hvcurveto" not in key and "vhcurveto" not in key:
                            rec.witness("peephole kept h/v segment as rlineto/rrcurveto")
                            return


# ------------------------------------------------------------------ E1b long runs at the stack limit
RUN_KINDS = ("r-lines", "hv-lines", "vh-lines", "rr-curves", "hv-curves", "vh-curves", "hh-curves", "vv-curves",
             "lines+curve", "curves+line", "h-lines-cancelling", "rh-curve+hv", "hv+vr-curve", "lines+curve+hh", "curves+hh")


def run_commands(kind, n, seed):
    a = lambda k: atom(k, seed)
    cmds = [("rmoveto", [a(0), a(1)])]
    k = 2
    for i in range(n):
        if kind == "r-lines":
            cmds.append(("rlineto", [a(k), a(k + 1)]))
        elif kind in ("hv-lines", "vh-lines"):
            horiz = (i % 2 == 0) == (kind == "hv-lines")
            cmds.append(("rlineto", [a(k), 0] if horiz else [0, a(k)]))
        elif kind == "h-lines-cancelling":
            cmds.append(("rlineto", [a(k) if i % 2 == 0 else -a(k - 6), 0]))
        elif kind == "rr-curves":
            cmds.append(("rrcurveto", [a(k + j) for j in range(6)]))
        elif kind in ("hv-curves", "vh-curves", "rh-curve+hv", "hv+vr-curve"):
            horiz = (i % 2 == 0) == (kind in ("hv-curves", "hv+vr-curve"))
            if kind == "rh-curve+hv":
                horiz = i % 2 == 1  # first curve ends horizontal ... chain h->v->h
            c = [a(k), 0, a(k + 1), a(k + 2), 0, a(k + 3)] if horiz else [0, a(k), a(k + 1), a(k + 2), a(k + 3), 0]
            if kind == "rh-curve+hv" and i == 0:
                c = [a(k + 4), a(k), a(k + 1), a(k + 2), a(k + 3), 0]  # 'r' start, horizontal end
            if kind == "hv+vr-curve" and i == n - 1:
                c = list(c)
                c[4 if c[4] == 0 else 5] = a(k + 4)  # 'r' end
            cmds.append(("rrcurveto", c))
        elif kind == "hh-curves":
            cmds.append(("rrcurveto", [a(k), a(k + 4) if i == 0 and n % 2 else 0, a(k + 1), a(k + 2), a(k + 3), 0]))
        elif kind == "vv-curves":
            cmds.append(("rrcurveto", [a(k + 4) if i == 0 and n % 2 else 0, a(k), a(k + 1), a(k + 2), 0, a(k + 3)]))
        elif kind == "lines+curve":
            cmds.append(("rlineto", [a(k), a(k + 1)]))
        elif kind == "curves+line":
            cmds.append(("rrcurveto", [a(k + j) for j in range(6)]))
        elif kind == "lines+curve+hh":
            cmds.append(("rlineto", [a(k), a(k + 1)]))
        elif kind == "curves+hh":
            cmds.append(("rrcurveto", [a(k + j) for j in range(6)]))
        k += 6
    if kind in ("lines+curve+hh", "curves+hh"):
        # an rrcurveto that cannot merge with the 4-operand curve after it
        if kind == "lines+curve+hh":
            cmds.append(("rrcurveto", [a(k + j) for j in range(6)]))
        cmds.append(("rrcurveto", [a(k + 6), 0, a(k + 7), a(k + 8), a(k + 9), 0]))
    if kind == "lines+curve":
        cmds.append(("rrcurveto", [a(k + j) for j in range(6)]))
    if kind == "curves+line":
        cmds.append(("rlineto", [a(k), a(k + 1)]))
    return cmds


class StackRuns(Unit):
    name = "specialize-stack-runs"
    rule = ("rmoveto + runs of n = 1..40 (quick) / 1..130 (thorough) equal-kind commands (15 kinds: r/hv/vh lines, rr/hv/vh/hh/vv curves, "
            "lines+curve, curves+line, cancelling h-lines, r-start and r-end curve chains, lines / curves followed by an unmergeable short curve) x maxstack {48, 513, 20, 10} x width x preserveTopology, "
            "through specializeCommands and through T2CharStringPen (CFF and CFF2): same drawing, stack <= maxstack, legal operand counts; "
            "distinct = each (kind, n, maxstack, width, preserveTopology)")
    required_witnesses = ("run split at the stack limit", "stack depth maxstack-1 reached", "pen charstring checked",
                          "cancelling lines merged to zero length", "more than 47 operands merged under maxstack=513")
    chunk = 8

    def setup(self, tier, seed):
        # fractional atoms (seed % 4 == 3) are not comparable through the rounding pen: that route is
        # then skipped by design, and its witness cannot be demanded
        if seed % 4 == 3:
            self.required_witnesses = tuple(w for w in type(self).required_witnesses if w != "pen charstring checked")
        else:
            self.required_witnesses = type(self).required_witnesses

    def bounds(self, tier, seed):
        return {"kinds": list(RUN_KINDS), "n_max": 40 if tier == "quick" else 130, "maxstack": [48, 513, 20, 10]}

    def cases(self, tier, seed):
        nmax = 40 if tier == "quick" else 130
        for n in range(1, nmax + 1):
            for kind in RUN_KINDS:
                yield [kind, n, seed]

    def check(self, case, rec):
        kind, n, seed = case
        cmds = run_commands(kind, n, seed)
        cnt = 0
        for width in (None, -37):
            before = Drawn(general_program(cmds, width))
            if before.r.errors and not (before.r.max_stack > 48 and all(e[0] == "stack-overflow" for e in before.r.errors)):
                rec.violation("selfcheck:generated-program", "illegal generated program %s" % before.r.errors[:2])
                continue
            nops = {}
            for pt in (True, False):
                for ms in (513, 48, 20, 10):
                    cnt += 1
                    inp = [(op, list(a)) for op, a in cmds]
                    if width is not None:
                        inp.insert(0, ("", [width]))
                    out = SP.specializeCommands(inp, generalizeFirst=False, preserveTopology=pt, maxstack=ms)
                    prog = SP.commandsToProgram(out) + ["endchar"]
                    after = Drawn(prog)
                    if ms == 513:
                        # interpreted under the CFF limit of 48: overflow is expected and not an error here
                        after.r.errors = [e for e in after.r.errors if e[0] != "stack-overflow"]
                        if after.r.max_stack > 47:
                            rec.witness("more than 47 operands merged under maxstack=513")
                    what = "specializeCommands(%s x%d, preserveTopology=%s, maxstack=%d) -> %s" % (kind, n, pt, ms, prog_str(prog[:60]))
                    check_rewrite(rec, "specialize-run", before, after, pt, what, limit=ms, hints=False)
                    nops[ms] = n_ops(prog)
                    if after.r.max_stack >= ms - 1:
                        rec.witness("stack depth maxstack-1 reached")
                    if not pt and kind == "h-lines-cancelling" and n >= 2 and 0 in prog:
                        rec.witness("cancelling lines merged to zero length")
                if nops[48] > nops[513] or nops[10] > nops[48]:
                    rec.witness("run split at the stack limit")
            # the pen route: draw the 'before' contours into T2CharStringPen
            for cff2 in (False, True):
                cnt += 1
                w = None if cff2 else width
                pen = T2CharStringPen(w, None, CFF2=cff2)
                for _c, start, segs in before.r.contours:
                    pen.moveTo(start)
                    for s in segs:
                        if s[0] == "L":
                            pen.lineTo(s[2])
                        else:
                            pen.curveTo(s[2], s[3], s[4])
                    pen.closePath()
                cs = pen.getCharString(private=PRIV2 if cff2 else PRIV)
                prog = list(cs.program)
                after = Drawn(prog, priv=PRIV2 if cff2 else PRIV, cff2=cff2)
                b2 = before
                if cff2:
                    b2 = Drawn([t for t in general_program(cmds, None) if t != "endchar"], priv=PRIV2, cff2=True)
                    b2.r.errors = []
                what = "T2CharStringPen(CFF2=%s).getCharString of %s x%d -> %s" % (cff2, kind, n, prog_str(prog[:60]))
                # the pen rounds coordinates (otRound): integer seeds compare exactly, fractional seeds skip
                if all(float(v).is_integer() for _o, a in cmds for v in a):
                    check_rewrite(rec, "t2pen", b2, after, False, what, limit=513 if cff2 else 48, cff2=cff2, hints=False)
                    rec.witness("pen charstring checked")
                elif seed % 4 != 3:
                    rec.violation("selfcheck:atoms", "non-integer atom with an integer seed")
        rec.evals(cnt - 1)
        rec.nontrivial_n(cnt)


# ------------------------------------------------------------------ E2 every operator form
def op_forms():
    forms = [("rmoveto", 2), ("hmoveto", 1), ("vmoveto", 1)]
    for op in t2ref.PATH_OPS:
        for n in range(1, 14):
            if t2ref.legal_argcount(op, n):
                forms.append((op, n))
    return forms


FORMS = op_forms()
BOUNDARY = (107, -107, 108, -108, 1131, -1131, 1132, -1132, 32767, -32768, 0.5, -1.25, 300.0078125, 0, 1, -1, 255, 256, -0.0000152587890625)
# (stem operators with their pair counts, pairs implied at the first mask, masks?)
HINT_SETUPS = (
    (),
    (("hstem", 1),),
    (("hstem", 2), ("vstem", 1)),
    (("hstemhm", 3), ("vstemhm", 5), ("mask", 0)),           # 8 hints -> 1 mask byte
    (("hstemhm", 4), ("mask", 5), ("cntr", 0)),              # 9 hints, 5 implied -> 2 bytes
    (("hstemhm", 8), ("vstemhm", 8), ("mask", 0)),           # 16 hints -> 2 bytes
    (("hstemhm", 8), ("mask", 9)),                           # 17 hints, 9 implied -> 3 bytes
    (("mask", 2),),                                          # only implied vstems
)


def form_program(forms, scheme, width, hint_setup, seed, endchar=True):
    """Legal Type 2 program: w? hints rmoveto {form [hintmask]}* endchar."""
    k = [0]

    def val():
        i = k[0]
        k[0] += 1
        if scheme == 0:
            return atom(i, seed)
        if scheme == 1:
            return 0 if (i + seed) % 3 == 0 else atom(i, seed)
        return BOUNDARY[(i * 7 + seed) % len(BOUNDARY)]

    prog = []
    if width is not None:
        prog.append(width)
    nh = 0
    have_mask = False
    edge = 10
    for kind, n in hint_setup:
        if kind in ("mask", "cntr"):
            for _ in range(n):
                prog += [edge, 20]
                edge = 15
            nh += n
            nb = (nh + 7) // 8
            prog += ["hintmask" if kind == "mask" else "cntrmask", bytes(((0xA5 + 17 * j + nh) & 0xFF) for j in range(nb))]
            have_mask = True
        else:
            for _ in range(n):
                prog += [edge, 20]
                edge = 15
            prog.append(kind)
            nh += n
            edge = 30
    prog += [val(), val(), "rmoveto"]
    for idx, (op, n) in enumerate(forms):
        if op == "flex":
            prog += [val() for _ in range(12)] + [50, op]
        else:
            prog += [val() for _ in range(n)] + [op]
        if have_mask and idx == 0 and len(forms) > 1:
            nb = (nh + 7) // 8
            prog += ["hintmask", bytes(((0x3C + 29 * j) & 0xFF) for j in range(nb))]
    if endchar:
        prog.append("endchar")
    return prog


GENERAL_OK = {"rmoveto", "rlineto", "rrcurveto", "flex", "hflex", "hflex1", "flex1", "endchar",
              "hstem", "vstem", "hstemhm", "vstemhm", "hintmask", "cntrmask"}


class OpForms(Unit):
    name = "operator-forms"
    rule = ("w? hints rmoveto + every sequence of <=2 operator forms (every path operator in every legal operand count <= 13, "
            "flex/hflex/hflex1/flex1, r/h/vmoveto: %d forms) x 3 value schemes (distinct non-zero, sparse zeros, integer-encoding boundaries "
            "and 16.16 fractions) x width x 8 hint set-ups (stems, implied vstems, hintmask/cntrmask of 1..3 bytes): reference interpreter == "
            "T2CharString.draw; generalizeProgram keeps all points, width, hints and emits only general operators; specializeProgram "
            "(preserveTopology both ways) keeps points / fill, width, hints, stack <= 47, legal operand counts; compile -> reference reads the "
            "bytes; reference assembler -> decompile returns the program; distinct = each program" % len(FORMS))
    required_witnesses = ("flex1 final delta horizontal", "flex1 final delta vertical", "3-byte hintmask", "2-byte hintmask",
                          "implied vstem at hintmask", "cntrmask", "16.16 operand compiled", "3-byte integer operand",
                          "odd-count hvcurveto generalised", "odd-count hhcurveto generalised", "13-operand hlineto",
                          "respecialised program differs from the input")
    chunk = 1

    def bounds(self, tier, seed):
        return {"forms": len(FORMS), "sequence_len": 2, "schemes": 3, "hint_setups": len(HINT_SETUPS),
                "hint_setups_on_two_operator_sequences": 2 if tier == "quick" else len(HINT_SETUPS)}

    def setup(self, tier, seed):
        self.tier = tier

    def setup_replay(self):
        self.tier = "thorough"

    def cases(self, tier, seed):
        yield [None, seed]
        for i in range(len(FORMS)):
            yield [i, seed]

    def check(self, case, rec):
        i, seed = case
        seqs = [()] if i is None else [(FORMS[i],)] + [(FORMS[i], f) for f in FORMS]
        n = 0
        for forms in seqs:
            # quick: two-operator sequences get 2 of the 8 hint set-ups (hints are carried through untouched)
            setups = HINT_SETUPS if (self.tier == "thorough" or len(forms) < 2) else (HINT_SETUPS[0], HINT_SETUPS[4])
            for scheme in (0, 1, 2):
                for width in (None, -21):
                    for hs in setups:
                        n += 1
                        self.one(form_program(forms, scheme, width, hs, seed), rec)
        rec.evals(n - 1)
        rec.nontrivial_n(n)

    def one(self, P, rec):
        before = Drawn(P)
        r0 = before.r
        src = prog_str(P)
        if r0.errors:
            rec.violation("selfcheck:generated-program", "illegal generated program %s: %s" % (src, r0.errors[:2]))
            return
        # the two interpreters on the source program
        if exact(before.ref_c) != exact(before.ft_c) or before.ft_w != ref_width(r0):
            rec.violation("draw:interpreters-disagree", "T2CharString.draw and the TN5177 reference disagree on %s" % src,
                          observed=repr((before.ft_w, exact(before.ft_c)))[:1500], expected=repr((ref_width(r0), exact(before.ref_c)))[:1500])
        # witnesses from the input shape
        for j, t in enumerate(P):
            if t == "flex1":
                a = P[j - 11 : j]
                dx = a[0] + a[2] + a[4] + a[6] + a[8]
                dy = a[1] + a[3] + a[5] + a[7] + a[9]
                rec.witness("flex1 final delta horizontal" if abs(dx) > abs(dy) else "flex1 final delta vertical")
            elif isinstance(t, bytes):
                rec.witness("%d-byte hintmask" % len(t))
                if P[j - 1] == "cntrmask":
                    rec.witness("cntrmask")
                if j >= 2 and not isinstance(P[j - 2], str):
                    rec.witness("implied vstem at hintmask")
        # byte code, both directions
        cs = T2CharString(program=list(P), private=PRIV)
        cs.compile()
        code = cs.bytecode
        rb = t2ref.run(code)
        if rb.errors or exact(rb.closed()) != exact(before.ref_c) or rb.width != r0.width or rb.stems != r0.stems or rb.masks != r0.masks:
            rec.violation("compile:bytes-draw-differently", "T2CharString.compile(%s) = %s is read differently by the reference" % (src, code.hex()),
                          observed=repr((rb.errors, rb.width, exact(rb.closed())))[:1500], expected=repr((r0.width, exact(before.ref_c)))[:1500])
        if b"\xff" in code and any(isinstance(t, float) and not t.is_integer() for t in P):
            rec.witness("16.16 operand compiled")
        if any(isinstance(t, int) and abs(t) > 1131 for t in P):
            rec.witness("3-byte integer operand")
        asm = t2ref.assemble(P)
        cs2 = T2CharString(bytecode=asm, private=PRIV)
        cs2.decompile()
        if cs2.program != P:
            rec.violation("decompile:program-differs", "decompile(%s) = %s, expected %s" % (asm.hex(), prog_str(cs2.program), src))
        w3, c3 = ft_draw(asm)
        if exact(c3) != exact(before.ft_c) or w3 != before.ft_w:
            rec.violation("decompile:draws-differently", "T2CharString(bytecode=%s).draw differs from drawing the program %s" % (asm.hex(), src))
        # generalise
        G = SP.generalizeProgram(list(P))
        g = Drawn(G)
        check_rewrite(rec, "generalize", before, g, True, "generalizeProgram(%s) -> %s" % (src, prog_str(G)), limit=None)
        bad = [t for t in G if isinstance(t, str) and t not in GENERAL_OK]
        if bad:
            rec.violation("generalize:special-operator-left", "generalizeProgram(%s) still contains %s" % (src, bad))
        for j, t in enumerate(P):
            if t in ("hvcurveto", "vhcurveto", "hhcurveto", "vvcurveto"):
                jj = j
                while jj > 0 and not isinstance(P[jj - 1], (str, bytes)):
                    jj -= 1
                if (j - jj) % 4 == 1:
                    rec.witness("odd-count hvcurveto generalised" if t[0] != t[1] else "odd-count hhcurveto generalised")
            if t == "hlineto" and j >= 13 and not any(isinstance(x, (str, bytes)) for x in P[j - 13 : j]):
                rec.witness("13-operand hlineto")
        # specialise (from the source and from the generalised program)
        for pt in (True, False):
            S = SP.specializeProgram(list(P), preserveTopology=pt)
            s = Drawn(S)
            check_rewrite(rec, "respecialize", before, s, pt, "specializeProgram(%s, preserveTopology=%s) -> %s" % (src, pt, prog_str(S)), limit=48)
            if S != P:
                rec.witness("respecialised program differs from the input")
            S2 = SP.specializeProgram(list(G), preserveTopology=pt, generalizeFirst=False)
            if S2 != S:
                s2 = Drawn(S2)
                check_rewrite(rec, "respecialize", before, s2, pt, "specializeProgram(generalizeProgram(%s), generalizeFirst=False, preserveTopology=%s) -> %s" % (src, pt, prog_str(S2)), limit=48)


# ------------------------------------------------------------------ E2b blends (CFF2)
BLEND_FORMS = [("rlineto", 2), ("rlineto", 4), ("hlineto", 1), ("hlineto", 2), ("hlineto", 3), ("vlineto", 1), ("vlineto", 2),
               ("rrcurveto", 6), ("rrcurveto", 12), ("hhcurveto", 4), ("hhcurveto", 5), ("vvcurveto", 4), ("vvcurveto", 5),
               ("hvcurveto", 4), ("hvcurveto", 5), ("hvcurveto", 8), ("hvcurveto", 9), ("vhcurveto", 4), ("vhcurveto", 5),
               ("vhcurveto", 8), ("rcurveline", 8), ("rlinecurve", 8), ("rmoveto", 2), ("hmoveto", 1), ("vmoveto", 1)]
BLEND_PATTERNS = ("none", "all", "first", "last", "alternate", "all-single", "path-single")
SCALARS = ((0, 0), (1, 0), (0, 1), (1, 1), (0.5, 0.25), (-0.5, 2))


def blend_program(forms, pattern, regions, seed, zero_defaults):
    k = [0]
    d = [0]

    def val():
        k[0] += 1
        if zero_defaults and k[0] % 2 == 0:
            return 0
        return atom(k[0], seed)

    def deltas():
        d[0] += 1
        return [((d[0] * 3 + r * 5) % 7) - 3 for r in range(regions)]

    def emit(n, pattern=pattern):
        vals = [val() for _ in range(n)]
        if pattern == "none":
            return vals
        flags = {
            "all": [True] * n, "all-single": [True] * n, "first": [i == 0 for i in range(n)],
            "last": [i == n - 1 for i in range(n)], "alternate": [i % 2 == 0 for i in range(n)],
        }[pattern]
        out = []
        i = 0
        while i < n:
            if not flags[i]:
                out.append(vals[i])
                i += 1
                continue
            j = i
            while j < n and flags[j] and (pattern != "all-single" or j == i):
                j += 1
            out += vals[i:j]
            for _ in range(i, j):
                out += deltas()
            out += [j - i, "blend"]
            i = j
        return out

    # "path-single": the first moveto's operands in one blend, every later operand in a blend of its own
    prog = emit(2, "all" if pattern == "path-single" else pattern) + ["rmoveto"]
    for op, n in forms:
        prog += emit(n, "all-single" if pattern == "path-single" else pattern) + [op]
    return prog


class Blends(Unit):
    name = "blend-programs"
    rule = ("CFF2 programs rmoveto + <=2 of 25 operator forms whose operands are blended after 6 patterns (none/all in one blend/first/last/"
            "alternate/each singly) with 1..2 regions, default values optionally zero: generalizeProgram and specializeProgram (maxstack 513, "
            "preserveTopology both ways) evaluated by the reference interpreter and by T2CharString.draw(blender) at 4 (quick) / 6 (thorough) region-scalar vectors: "
            "same points / same fill at every vector, stack <= 512; distinct = each (program, regions)")
    required_witnesses = ("blend operators merged by the specialiser", "blend with 2 regions", "blended operand with zero default",
                          "multi-value blend split by the generaliser")
    chunk = 1

    def setup(self, tier, seed):
        self.tier = tier

    def setup_replay(self):
        self.tier = "thorough"

    def bounds(self, tier, seed):
        return {"forms": len(BLEND_FORMS), "patterns": list(BLEND_PATTERNS), "regions": [1, 2],
                "scalars": [list(s) for s in (SCALARS if tier == "thorough" else SCALARS[:4])]}

    def cases(self, tier, seed):
        yield [None, seed]
        for i in range(len(BLEND_FORMS)):
            yield [i, seed]

    def check(self, case, rec):
        i, seed = case
        seqs = [()] if i is None else [(BLEND_FORMS[i],)] + [(BLEND_FORMS[i], f) for f in BLEND_FORMS]
        n = 0
        for forms in seqs:
            for pattern in BLEND_PATTERNS:
                for regions in (1, 2):
                    for zd in (False, True):
                        if pattern == "none" and (regions == 2):
                            continue
                        n += 1
                        self.one(blend_program(forms, pattern, regions, seed, zd), regions, rec)
        rec.evals(n - 1)
        rec.nontrivial_n(n)

    def one(self, P, regions, rec):
        nreg = lambda vsindex: regions
        src = prog_str(P)
        if regions == 2 and "blend" in P:
            rec.witness("blend with 2 regions")
        # class of the input, for the failure key: blend operators in front of the first stack-clearing operator
        def shape_of(prog):
            first_op = next(j for j, t in enumerate(prog) if isinstance(t, str) and t != "blend")
            nb = prog[:first_op].count("blend")
            return "%s-after-%s-blends" % (prog[first_op], nb if nb < 2 else "2+")

        shape = shape_of(P)
        try:
            G = SP.generalizeProgram(list(P), nreg)
        except Exception as e:
            rec.violation("generalize-blend:raises-%s:%s" % (type(e).__name__, shape),
                          "generalizeProgram(%s, %d regions) raises %s: %s" % (src, regions, type(e).__name__, e))
            return
        outs = [("generalize", True, G)]
        for pt in (True, False):
            try:
                outs.append(("specialize", pt, SP.specializeProgram(list(P), nreg, preserveTopology=pt, maxstack=513)))
            except Exception as e:
                rec.violation("specialize-blend:raises-%s:%s" % (type(e).__name__, shape),
                              "specializeProgram(%s, %d regions, preserveTopology=%s) raises %s: %s" % (src, regions, pt, type(e).__name__, e))
                return
        try:
            outs.append(("respecialize", False, SP.specializeProgram(list(G), nreg, maxstack=513)))
        except Exception as e:
            rec.violation("specialize-blend:raises-%s:%s" % (type(e).__name__, shape_of(G)),
                          "specializeProgram(generalizeProgram(%s) = %s, %d regions) raises %s: %s" % (src, prog_str(G), regions, type(e).__name__, e))
        if G.count("blend") > P.count("blend"):
            rec.witness("multi-value blend split by the generaliser")
        if outs[1][2].count("blend") < G.count("blend"):
            rec.witness("blend operators merged by the specialiser")
        for j, t in enumerate(G):
            if t == "blend" and G[j - 2 - regions] == 0:
                rec.witness("blended operand with zero default")
                break
        for sc in (SCALARS if self.tier == "thorough" else SCALARS[:4]):
            sc = sc[:regions]
            scal = lambda vsindex, sc=sc: sc
            blender = lambda vsindex, deltas, sc=sc: sum(dv * s for dv, s in zip(deltas, sc))
            before = Drawn(P, priv=types.SimpleNamespace(nominalWidthX=None, defaultWidthX=None, in_cff2=True, getNumRegions=lambda vi=None: regions),
                           cff2=True, nreg=nreg, scal=scal, blender=blender)
            if before.r.errors:
                rec.violation("selfcheck:generated-program", "illegal generated blend program %s: %s" % (src, before.r.errors[:2]))
                return
            if exact(before.ref_c) != exact(before.ft_c):
                rec.violation("draw:interpreters-disagree", "blend: T2CharString.draw and the reference disagree on %s at scalars %s" % (src, list(sc)),
                              observed=show(before.ft_c), expected=show(before.ref_c))
            for kind, pt, out in outs:
                after = Drawn(out, priv=types.SimpleNamespace(nominalWidthX=None, defaultWidthX=None, in_cff2=True, getNumRegions=lambda vi=None: regions),
                              cff2=True, nreg=nreg, scal=scal, blender=blender)
                what = "%sProgram(%s, %d regions, preserveTopology=%s) -> %s at scalars %s" % (kind, src, regions, pt, prog_str(out), list(sc))
                check_rewrite(rec, kind + "-blend", before, after, pt, what, limit=513 if kind != "generalize" else None, cff2=True, hints=False)


# ------------------------------------------------------------------ E3 whole-font transforms
KEEP_TABLES = {"head", "hhea", "maxp", "OS/2", "hmtx", "cmap", "name", "post", "CFF ", "CFF2", "fvar", "avar", "HVAR", "MVAR", "STAT", "vhea", "vmtx", "VORG", "VVAR"}


def cff_fonts():
    """[(name, tag, data, fontNumber)] one per distinct CFF/CFF2 table of the corpus."""
    out, seen = [], set()
    srcs = [(n, d, fn) for n, d, fn in corpus.binary_faces()] + [(n, d, -1) for n, d in corpus.compiled_ttx()]
    for name, data, fn in srcs:
        try:
            f = corpus.open_font(data, fontNumber=fn, lazy=True)
            tags = [t for t in ("CFF ", "CFF2") if t in f]
        except Exception:
            continue
        for tag in tags:
            try:
                raw = f.reader[tag]
                hm = f.reader["hmtx"] if "hmtx" in f else b""
            except Exception:
                continue
            h = hashlib.sha1(raw + hm).hexdigest()
            if h in seen:
                continue
            seen.add(h)
            out.append((name, tag, data, fn))
    return out


def code_of(cs):
    return cs.bytecode if cs.bytecode is not None else list(cs.program)


class Snapshot:
    """Every glyph of a CFF/CFF2 table drawn by both interpreters."""

    def __init__(self, font, tag, scal_vec=None):
        cff = font[tag].cff
        self.cff2 = cff.major > 1
        td = cff.topDictIndex[0]
        self.names = list(td.charset) if hasattr(td, "charset") and td.charset else list(td.CharStrings.keys())
        css = td.CharStrings
        gs = [code_of(s) for s in cff.GlobalSubrs]
        self.n_gsubrs = len(gs)
        self.n_lsubrs = 0
        nreg = None
        self.variable = hasattr(td, "VarStore")
        if self.cff2:
            if self.variable:
                vs = td.VarStore.otVarStore
                nreg = lambda i, vs=vs: vs.VarData[i].VarRegionCount
            else:
                nreg = lambda i: 0
        scal = blender = None
        if scal_vec is not None and self.variable:
            scal = lambda i: scal_vec
            blender = lambda i, deltas: sum(d * s for d, s in zip(deltas, scal_vec))
        lcache = {}
        self.glyphs = {}
        self.baseline_error = None
        # gather raw codes before anything is executed (drawing decompiles in place)
        items = []
        for g in self.names:
            if g not in css:
                continue
            cs, _fd = css.getItemAndSelector(g)
            priv = cs.private
            ls = getattr(priv, "Subrs", None)
            key = id(ls)
            if key not in lcache:
                lcache[key] = [code_of(s) for s in ls] if ls is not None else []
                self.n_lsubrs += len(lcache[key])
            items.append((g, cs, priv, lcache[key], code_of(cs)))
        for g, cs, priv, ls, code in items:
            r = t2ref.run(code, ls, gs, cff2=self.cff2, num_regions=nreg, scalars=scal, default_vsindex=getattr(priv, "vsindex", 0) or 0)
            pen = geom.SegPen()
            try:
                cs.draw(pen, blender)
                pen._flush(False)
                ftw = cs.width
                ftc = pen.contours
                fterr = None
            except Exception as e:  # reported by the caller when it happens after a transform
                ftw, ftc, fterr = None, [], "%s: %s" % (type(e).__name__, e)
            if self.cff2:
                rw = None
            else:
                rw = priv.defaultWidthX if r.width is None else priv.nominalWidthX + r.width
            self.glyphs[g] = (r, r.closed(), rw, ftw, ftc, fterr)

    def drawable(self):
        for g, (r, _rc, _rw, _fw, _fc, fterr) in self.glyphs.items():
            if fterr or r.fatal:
                return "%s: %s" % (g, fterr or r.fatal)
        return None


BIG_FONT = 600  # glyphs
SCAL_VEC = tuple(((i % 3) + 1) / 4 for i in range(2048))


def strip_tables(font):
    for t in list(font.keys()):
        if t not in KEEP_TABLES and t != "GlyphOrder":
            del font[t]


def do_subset(font, glyph_names, desub, hinting):
    from fontTools import subset

    o = subset.Options()
    o.desubroutinize = desub
    o.hinting = hinting
    o.notdef_outline = True
    o.glyph_names = True
    o.legacy_cmap = True
    o.symbol_cmap = True
    o.name_IDs = ["*"]
    o.name_languages = ["*"]
    o.prune_unicode_ranges = False
    o.recalc_bounds = False
    s = subset.Subsetter(o)
    s.populate(glyphs=glyph_names)
    s.subset(font)


TRANSFORMS = ("desubroutinize", "remove_hints", "remove_unused_subroutines", "desubroutinize+remove_hints",
              "subset-all-desubroutinize", "subset-all-no-hinting", "subset-half", "subset-half-desubroutinize-no-hinting",
              "subset-other-half", "cff-to-cff2", "cff-to-cff2-to-cff", "cff-to-cff2-to-cff-glyphs-loaded", "cff2-to-cff",
              "cff2-to-cff-to-cff2", "save-reload")


class FontTransforms(Unit):
    name = "font-transforms"
    rule = ("every distinct CFF / CFF2 table of the corpus (binary_faces + compiled_ttx) x 15 transforms (desubroutinize, remove_hints, "
            "remove_unused_subroutines, both, subset '*' / even glyphs / odd glyphs with --desubroutinize / --no-hinting / plain, convertCFFToCFF2, "
            "CFF->CFF2->CFF (freshly reloaded in between, and with all glyphs drawn in between), convertCFF2ToCFF, CFF2->CFF->CFF2, save+reload): every glyph drawn before and after (in memory and again after "
            "save+reload) by T2CharString.draw and by the TN5177 reference fed with the raw byte codes: identical points; widths identical "
            "(hmtx advance after CFF2->CFF); hints identical / absent as the transform says; no subroutine call left after desubroutinize; "
            "stack within the format limit; legal operand counts; variable CFF2 also at a synthetic scalar vector; distinct = each (font, transform)")
    required_witnesses = (
        "subroutine calls inlined", "nested subroutine inlined", "stem hints removed", "hintmask removed", "cntrmask removed",
        "unused subroutines dropped", "subroutine calls renumbered", "width operand dropped for CFF2",
        "width operand re-encoded (CFF2->CFF)", "variable CFF2 compared at a non-default location", "FDArray font",
        "global and local subroutines in one font", "variable CFF2 refused by convertCFF2ToCFF", "subset dropped glyphs",
        "harfbuzz third opinion",
    )
    chunk = 1

    def setup(self, tier, seed):
        # imports done once in the parent, before the workers are forked
        import fontTools.subset  # noqa: F401
        import fontTools.fontBuilder  # noqa: F401
        import fontTools.cffLib.CFFToCFF2  # noqa: F401
        import fontTools.cffLib.CFF2ToCFF  # noqa: F401
        from oracles import hbridge  # noqa: F401

        self.fonts = cff_fonts()
        self.tier = tier
        self.nglyphs = []
        for name, tag, data, fn in self.fonts:
            self.nglyphs.append(corpus.open_font(data, fontNumber=fn, lazy=True)["maxp"].numGlyphs)
        # the corpus stays in the parent's heap: keep the collector of the forked workers from
        # touching (and so copying) those pages
        import gc

        gc.collect()
        gc.freeze()

    def bounds(self, tier, seed):
        return {"distinct_cff_tables": len(self.fonts), "transforms": list(TRANSFORMS), "harfbuzz_third_opinion": "all transforms" if tier == "thorough" else "CFF<->CFF2 conversions",
                "fonts_with_reduced_transform_set": [f[0] for f, n in zip(self.fonts, self.nglyphs) if tier == "quick" and n > BIG_FONT]}

    def cases(self, tier, seed):
        for i, (name, tag, data, fn) in enumerate(self.fonts):
            ts = [t for t in TRANSFORMS if not (t.startswith("cff-to") and tag != "CFF ") and not (t.startswith("cff2-to") and tag != "CFF2")]
            if tier == "quick" and self.nglyphs[i] > BIG_FONT:
                # quick tier: the two largest fonts get 4 of the transforms, rotated by the seed
                ts = [ts[(4 * seed + j * 3) % len(ts)] for j in range(4)]
            for t in ts:
                yield [i, name, t]

    def setup_replay(self):
        self.setup("thorough", 0)

    def open(self, i):
        name, tag, data, fn = self.fonts[i]
        return corpus.open_font(data, fontNumber=fn), tag

    def check(self, case, rec):
        i, name, t = case
        if self.fonts[i][0] != name:
            i = [k for k, f in enumerate(self.fonts) if f[0] == name][0]
        f0, tag = self.open(i)
        base = Snapshot(f0, tag)
        why = base.drawable()
        if why:
            rec.count("font skipped: not drawable before any transform")
            return
        rec.nontrivial()
        base_v = None
        if base.variable:
            f0v, _ = self.open(i)
            base_v = Snapshot(f0v, tag, SCAL_VEC)
        if hasattr(f0[tag].cff.topDictIndex[0], "FDArray") and tag == "CFF ":
            rec.witness("FDArray font")
        if base.n_gsubrs and base.n_lsubrs:
            rec.witness("global and local subroutines in one font")
        hm0 = {g: f0["hmtx"].metrics[g][0] for g in f0.getGlyphOrder()} if "hmtx" in f0 else {}

        font, _ = self.open(i)
        exp = {"hints": "same", "calls": "any", "order": list(base.names), "width": "same", "tag": tag, "by_gid": True}
        order0 = font.getGlyphOrder()
        if t == "desubroutinize":
            font[tag].cff.desubroutinize()
            exp["calls"] = "none"
        elif t == "remove_hints":
            font[tag].cff.remove_hints()
            exp["hints"] = "none"
        elif t == "desubroutinize+remove_hints":
            font[tag].cff.desubroutinize()
            font[tag].cff.remove_hints()
            exp["hints"] = "none"
            exp["calls"] = "none"
        elif t == "remove_unused_subroutines":
            font[tag].cff.remove_unused_subroutines()
        elif t.startswith("subset-"):
            strip_tables(font)
            if "-all" in t:
                keep = list(order0)
            elif "other" in t:
                keep = [g for k, g in enumerate(order0) if k % 2 == 1 or k == 0]
            else:
                keep = [g for k, g in enumerate(order0) if k % 2 == 0]
            desub = "desubroutinize" in t
            hinting = "no-hinting" not in t
            do_subset(font, keep, desub, hinting)
            if desub:
                exp["calls"] = "none"
            if not hinting:
                exp["hints"] = "none"
            # glyph names are those of the original font, in the subset's glyph order (a font
            # without glyph names gets index-based names again when it is reloaded)
            exp["order"] = list(font.getGlyphOrder())
            exp["by_gid"] = False
            if len(exp["order"]) < len(order0):
                rec.witness("subset dropped glyphs")
        elif t.startswith("cff-to-cff2") or t.startswith("cff2-to-cff"):
            font = self.convert_chain(rec, t, i, base, exp, hm0, name)
            if font is None:
                return
        elif t == "save-reload":
            pass
        else:
            raise AssertionError(t)

        # in memory, then after a save/reload cycle (fresh byte codes for the reference)
        if t != "save-reload":
            self.compare(rec, t, "in memory", base, Snapshot(font, exp["tag"]), exp, hm0, name)
        buf = io.BytesIO()
        font.save(buf)
        data = buf.getvalue()
        re = corpus.open_font(data)
        self.compare(rec, t, "after save+reload", base, Snapshot(re, exp["tag"]), exp, hm0, name)
        if base_v is not None:
            re2 = corpus.open_font(data)
            self.compare(rec, t, "after save+reload, scalars", base_v, Snapshot(re2, exp["tag"], SCAL_VEC), exp, hm0, name)
            rec.witness("variable CFF2 compared at a non-default location")
        if exp["by_gid"]:
            self.harfbuzz(rec, t, i, data, name)

    def convert_chain(self, rec, t, i, base, exp, hm0, fname):
        """CFF <-> CFF2 conversions, used the way fontTools itself uses them (instancer.
        downgradeCFF2ToCFF: the font is saved, reloaded with recalcBBoxes=False, converted, saved
        and reloaded, because convertCFF2ToCFF renames the glyphs).  Returns the converted font."""
        from fontTools.cffLib.CFFToCFF2 import convertCFFToCFF2
        from fontTools.cffLib.CFF2ToCFF import convertCFF2ToCFF

        name, tag, data, fn = self.fonts[i]
        steps = {"cff-to-cff2": ["2"], "cff-to-cff2-to-cff": ["2", "1"], "cff-to-cff2-to-cff-glyphs-loaded": ["2", "load", "1"],
                 "cff2-to-cff": ["1"], "cff2-to-cff-to-cff2": ["1", "2"]}[t]
        font = None
        for k, step in enumerate(steps):
            if font is None:
                font = corpus.open_font(data, fontNumber=fn, recalcBBoxes=False, recalcTimestamp=False)
            elif step != "load" and steps[k - 1] != "load":
                buf = io.BytesIO()
                font.save(buf)
                font = corpus.open_font(buf.getvalue(), recalcBBoxes=False, recalcTimestamp=False)
            if step == "load":
                # every glyph drawn once: charstrings and subroutine INDEXes are loaded
                buf = io.BytesIO()
                font.save(buf)
                font = corpus.open_font(buf.getvalue(), recalcBBoxes=False, recalcTimestamp=False)
                self.compare(rec, t, "intermediate font after step %d" % k, base, Snapshot(font, exp["tag"]), dict(exp), hm0, fname)
                continue
            if step == "1" and base.variable:
                try:
                    convertCFF2ToCFF(font)
                except ValueError:
                    rec.witness("variable CFF2 refused by convertCFF2ToCFF")
                    return None
                rec.violation("cff2-to-cff:variable-accepted", "convertCFF2ToCFF accepted the variable font %s although it documents a ValueError" % fname)
                return None
            lsub = "font-with-local-subrs" if base.n_lsubrs else "font-without-local-subrs"
            try:
                if step == "1":
                    convertCFF2ToCFF(font)
                    exp["tag"], exp["width"] = "CFF ", "hmtx"
                else:
                    convertCFFToCFF2(font)
                    exp["tag"], exp["width"] = "CFF2", "none"
            except Exception as e:
                fn_name = "convertCFF2ToCFF" if step == "1" else "convertCFFToCFF2"
                loaded = "glyphs-loaded" if "load" in steps[:k] else "freshly-loaded"
                rec.violation("%s:raises-%s:%s:%s" % (fn_name, type(e).__name__, loaded, lsub),
                              "%s: %s (step %d of %s, font %s) raises %s: %s\n%s" % (fname, fn_name, k + 1, t, loaded, type(e).__name__, e,
                                                                                       "".join(__import__("traceback").format_exception(e)[-4:])))
                return None
        return font

    def compare(self, rec, t, stage, base, snap, exp, hm0, fname):
        fk = t
        names = list(snap.glyphs)
        # pair by glyph index: convertCFF2ToCFF renames glyphs to cidNNNNN, fonts without glyph
        # names get index-based names
        if len(names) != len(exp["order"]):
            rec.violation(fk + ":glyph-count", "%s %s [%s]: expected %d glyphs, CharStrings has %d" % (fname, t, stage, len(exp["order"]), len(names)))
            return
        pairs = [(g0, g1) for g0, g1 in zip(exp["order"], names) if g0 in base.glyphs]
        limit = t2ref.CFF2_STACK_LIMIT if snap.cff2 else t2ref.CFF_STACK_LIMIT
        calls_before = calls_after = 0
        nested = False
        stems_before = masks_before = cntr_before = 0
        renumbered = False
        for g0, g1 in pairs:
            r0, rc0, rw0, fw0, fc0, _e0 = base.glyphs[g0]
            r1, rc1, rw1, fw1, fc1, fe1 = snap.glyphs[g1]
            what = "%s glyph %s, %s [%s]" % (fname, g0, t, stage)
            if fe1:
                rec.violation(fk + ":draw-raises", "%s: T2CharString.draw raises %s" % (what, fe1))
                continue
            if r1.errors and not r0.errors:
                rec.violation(fk + ":illegal-program", "%s: charstring is no longer a legal Type 2 program: %s" % (what, r1.errors[:3]))
            if exact(rc1) != exact(rc0):
                rec.violation(fk + ":points-changed", "%s: outline changed (reference interpreter)" % what, observed=show(rc1), expected=show(rc0))
            if exact(fc1) != exact(fc0):
                rec.violation(fk + ":points-changed", "%s: outline changed (T2CharString.draw)" % what, observed=show(fc1), expected=show(fc0))
            if exact(rc1) != exact(fc1):
                m = geom.contours_close(geom.canon_contours(rc1), geom.canon_contours(fc1), 1e-6)
                if m:
                    rec.violation(fk + ":interpreters-disagree", "%s: reference and T2CharString.draw disagree after the transform: %s" % (what, m))
            if exp["width"] == "same" and not snap.cff2:
                if rw1 != rw0 or fw1 != fw0:
                    rec.violation(fk + ":width", "%s: width %r/%r became %r/%r (reference/fontTools)" % (what, rw0, fw0, rw1, fw1))
            elif exp["width"] == "hmtx":
                if rw1 != hm0.get(g0) or fw1 != hm0.get(g0):
                    rec.violation(fk + ":width", "%s: charstring width %r/%r, hmtx advance %r" % (what, rw1, fw1, hm0.get(g0)))
                if r1.width is not None:
                    rec.witness("width operand re-encoded (CFF2->CFF)")
            elif exp["width"] == "none":
                if r0.width is not None and not r1.errors:
                    rec.witness("width operand dropped for CFF2")
            if exp["hints"] == "same":
                if r1.stems != r0.stems or r1.masks != r0.masks:
                    rec.violation(fk + ":hints-changed", "%s: stem hints / masks changed" % what,
                                  observed=repr((r1.stems, r1.masks))[:600], expected=repr((r0.stems, r0.masks))[:600])
            else:
                left = [o for o in r1.ops if o in t2ref.STEM_OPS or o in t2ref.MASK_OPS]
                if left or r1.stems or r1.masks:
                    rec.violation(fk + ":hints-left", "%s: hint operators left: %s" % (what, left[:5]))
                stems_before += len(r0.stems)
                masks_before += sum(1 for o, _m in r0.masks if o == "hintmask")
                cntr_before += sum(1 for o, _m in r0.masks if o == "cntrmask")
            if exp["calls"] == "none" and r1.calls:
                rec.violation(fk + ":calls-left", "%s: %d subroutine calls left" % (what, len(r1.calls)))
            if r1.max_stack > limit:
                rec.violation(fk + ":stack-over-limit", "%s: operand stack %d > %d" % (what, r1.max_stack, limit))
            calls_before += len(r0.calls)
            calls_after += len(r1.calls)
            if r0.max_call_depth >= 2:
                nested = True
            if r0.calls and len(r0.calls) == len(r1.calls) and r0.calls != r1.calls:
                renumbered = True
        rec.evals(len(pairs))
        if exp["calls"] == "none" and calls_before:
            rec.witness("subroutine calls inlined")
            if nested:
                rec.witness("nested subroutine inlined")
        if exp["hints"] == "none":
            if stems_before:
                rec.witness("stem hints removed")
            if masks_before:
                rec.witness("hintmask removed")
            if cntr_before:
                rec.witness("cntrmask removed")
        if renumbered:
            rec.witness("subroutine calls renumbered")
        if exp["calls"] == "any" and snap.n_gsubrs + snap.n_lsubrs < base.n_gsubrs + base.n_lsubrs and calls_after:
            rec.witness("unused subroutines dropped")

    def harfbuzz(self, rec, t, i, data, fname):
        from oracles import hbridge

        # thorough: every transform; quick: the format conversions of all but the largest fonts
        if self.tier != "thorough" and not (t.startswith("cff") and self.nglyphs[i] <= BIG_FONT):
            return
        name, tag, data0, fn = self.fonts[i]
        if data0[:4] in (b"wOFF", b"wOF2", b"ttcf"):
            return
        try:
            a = hbridge.HBFont(data0)
            b = hbridge.HBFont(data)
        except Exception:
            return
        f0 = corpus.open_font(data0, lazy=True)
        n = f0["maxp"].numGlyphs
        td = f0[tag].cff.topDictIndex[0]
        shape = "fdselect-format-%s" % td.FDSelect.format if hasattr(td, "FDSelect") else "no-fdselect"
        for gid in range(n):
            m = geom.contours_close(a.outline(gid), b.outline(gid), 1e-3)
            if m:
                rec.violation("%s:harfbuzz-outline:%s" % (t, shape), "%s gid %d, %s: HarfBuzz draws the saved font differently from the original: %s" % (fname, gid, t, m))
        rec.evals(n)
        rec.witness("harfbuzz third opinion")


# ------------------------------------------------------------------ E3b generated fonts with subroutines
MASK1, MASK2, MASK3 = b"\xa0", b"\x60", b"\xc0"
# local subroutines (index -> program); 0 and 5 are never called (so pruning renumbers)
LSUBRS = (
    [1, 2, "rlineto", "return"],                                  # 0 unused
    [10, 20, "hstemhm", "return"],                                # 1 stems
    [3, 4, "rlineto", 5, "hlineto", "return"],                    # 2 path
    [2 - 107, "callsubr", 7, "vlineto", "return"],                # 3 nested local -> local
    [0 - 107, "callgsubr", 6, "vlineto", "return"],               # 4 nested local -> global
    [9, 9, "rlineto", "return"],                                  # 5 unused
    [9, "hlineto", "endchar"],                                    # 6 endchar inside the subroutine
    [10, 20, "hstemhm", 30, 40, "return"],                        # 7 stems + operands of an implied vstem
    [-33, 10, 20, "hstem", "return"],                             # 8 width operand and stems inside the subroutine
    ["hintmask", MASK3, 2, 3, "rlineto", "return"],               # 9 hintmask inside the subroutine
    [10, 20, "hstem", 21, 23, "rmoveto", 5, "hlineto", "return"],  # 10 stems, then the subroutine goes on drawing
)
GSUBRS = (
    [-4, -6, "rlineto", "return"],                                # 0 path
    [8, 8, "rlineto", "return"],                                  # 1 unused
    [12, 22, "vstemhm", "return"],                                # 2 stems
    [0 - 107, "callgsubr", 8, "hlineto", "return"],               # 3 nested global -> global
)
L = lambda i: [i - 107, "callsubr"]
G = lambda i: [i - 107, "callgsubr"]
SYN_HINTS = (
    ("none", [], 0, False),
    ("inline-stem", [10, 20, "hstem"], 1, False),
    ("inline-stems+mask", [10, 20, "hstemhm", 30, 40, "vstemhm", "hintmask", MASK1], 2, True),
    ("lsubr-stems+mask", L(1) + ["hintmask", MASK1], 1, True),
    ("lsubr-stems+implied-vstem", L(7) + ["hintmask", MASK1], 2, True),
    ("inline+gsubr-stems+mask", [10, 20, "hstemhm"] + G(2) + ["hintmask", MASK1], 2, True),
    ("lsubr+gsubr-stems+cntrmask", L(1) + G(2) + ["cntrmask", MASK2, "hintmask", MASK1], 2, True),
    ("width-and-stem-in-lsubr", L(8), 1, False),
    ("stem-then-path-in-lsubr", L(10), 1, False),
)
SYN_PATHS = (
    ("inline", [3, 4, "rlineto"]),
    ("lsubr", L(2)),
    ("gsubr", G(0)),
    ("lsubr->lsubr", L(3)),
    ("lsubr->gsubr", L(4)),
    ("gsubr->gsubr", G(3)),
    ("lsubr-with-hintmask", L(9)),
)


def syn_glyph(h, p, variant):
    """One glyph program; `variant` toggles width operand and where endchar sits."""
    hname, hprog, nh, masks = SYN_HINTS[h]
    pname, pprog = SYN_PATHS[p]
    if pname == "lsubr-with-hintmask" and nh == 0:
        pprog = SYN_PATHS[0][1]
    prog = []
    width = None
    if hname == "width-and-stem-in-lsubr":
        width = NOMINAL - 33
    elif variant & 1:
        width = NOMINAL + 17 + h
        prog.append(17 + h)
    prog += list(hprog)
    prog += [11 + p, 13 + h, "rmoveto"] + list(pprog)
    if masks:
        prog += ["hintmask", MASK2]
    prog += [7, "vlineto"]
    if variant & 2:
        prog += L(6)
    else:
        prog += ["endchar"]
    return prog, (DEFAULT if width is None else width)


def build_syn_font(spec):
    """spec = [[h, p, variant], ...] -> bytes of a CFF font .notdef + one glyph per entry."""
    from fontTools.fontBuilder import FontBuilder
    from fontTools.cffLib import SubrsIndex

    names = [".notdef"] + ["g%d" % k for k in range(len(spec))]
    fb = FontBuilder(1000, isTTF=False)
    fb.setupGlyphOrder(names)
    fb.setupCharacterMap({0x41 + k: "g%d" % k for k in range(len(spec))})
    css = {".notdef": T2CharString(program=[100, "hmoveto", 50, "hlineto", 50, "vlineto", "endchar"])}
    widths = {".notdef": DEFAULT}
    for k, (h, p, v) in enumerate(spec):
        prog, w = syn_glyph(h, p, v)
        css["g%d" % k] = T2CharString(program=prog)
        widths["g%d" % k] = w
    fb.setupCFF("Syn", {"FullName": "Syn"}, css, {"nominalWidthX": NOMINAL, "defaultWidthX": DEFAULT})
    cff = fb.font["CFF "].cff
    priv = cff.topDictIndex[0].Private
    priv.Subrs = SubrsIndex()
    for prog in LSUBRS:
        priv.Subrs.append(T2CharString(program=list(prog), private=priv, globalSubrs=cff.GlobalSubrs))
    for prog in GSUBRS:
        cff.GlobalSubrs.append(T2CharString(program=list(prog), private=priv, globalSubrs=cff.GlobalSubrs))
    fb.setupHorizontalMetrics({g: (w, 0) for g, w in widths.items()})
    fb.setupHorizontalHeader(ascent=800, descent=-200)
    fb.setupNameTable({"familyName": "Syn", "styleName": "Regular"})
    fb.setupOS2()
    fb.setupPost()
    buf = io.BytesIO()
    fb.font.save(buf)
    return buf.getvalue()


def pad_subrs(data, nlocal, nglobal):
    """The same font with its local / global subroutine INDEX padded to nlocal / nglobal entries by
    never-called one-operator subroutines, every call operand re-biased for the new counts (the
    bias is 107 below 1240 subroutines, 1131 below 33900, 32768 from there on)."""
    from fontTools.ttLib import TTFont as _TTFont

    def bias(n):
        return 107 if n < 1240 else 1131 if n < 33900 else 32768

    font = _TTFont(io.BytesIO(data))
    cff = font["CFF "].cff
    top = cff.topDictIndex[0]
    priv = top.Private
    lsubrs, gsubrs = priv.Subrs, cff.GlobalSubrs
    nl, ng = max(nlocal, len(lsubrs)), max(nglobal, len(gsubrs))
    dl, dg = bias(len(lsubrs)) - bias(nl), bias(len(gsubrs)) - bias(ng)
    progs = [top.CharStrings[g] for g in font.getGlyphOrder()] + list(lsubrs) + list(gsubrs)
    for cs in progs:
        # a subroutine taken from its INDEX does not know the global subroutines it may call
        cs.private, cs.globalSubrs = priv, gsubrs
        cs.decompile()
    for cs in progs:
        pr = cs.program
        for i, tok in enumerate(pr):
            if tok == "callsubr":
                pr[i - 1] += dl
            elif tok == "callgsubr":
                pr[i - 1] += dg
    while len(lsubrs) < nl:
        lsubrs.append(T2CharString(program=["return"], private=priv, globalSubrs=gsubrs))
    while len(gsubrs) < ng:
        gsubrs.append(T2CharString(program=["return"], private=priv, globalSubrs=gsubrs))
    buf = io.BytesIO()
    font.save(buf)
    return buf.getvalue()


SYN_TRANSFORMS = ("desubroutinize", "remove_hints", "desubroutinize+remove_hints", "remove_unused_subroutines",
                  "subset-half", "subset-other-half", "subset-half-desubroutinize-no-hinting", "cff-to-cff2",
                  "cff-to-cff2-to-cff-glyphs-loaded")


class SyntheticFonts(FontTransforms):
    name = "generated-subr-fonts"
    rule = ("generated CFF fonts .notdef + 2 glyphs over 11 local / 4 global subroutines (2+1 never called): glyph = width? x 9 hint set-ups "
            "(none, inline stems, stems in a local / global subroutine, operands of an implied vstem left by a subroutine, cntrmask, width operand "
            "inside the subroutine, a subroutine that declares stems and goes on drawing) x 7 path set-ups (inline, local, global, nested l->l, l->g, g->g, hintmask inside a subroutine) x endchar inline / "
            "inside a subroutine; all ordered glyph pairs in thorough, first glyph over all 63 kinds x second over 9 kinds in quick; x 9 transforms "
            "(7 in quick); plus the 7 path set-ups x 2 (thorough 9) hint set-ups with the local / global / both subroutine INDEX padded to 1300 (thorough also 34000) entries by never-called subroutines (bias 107 -> 1131 -> 32768; pruning changes the bias) x 4 transforms; "
            "oracle as font-transforms; distinct = each (font, transform)")
    required_witnesses = ("subroutine calls inlined", "nested subroutine inlined", "stem hints removed", "hintmask removed", "cntrmask removed",
                          "unused subroutines dropped", "subroutine calls renumbered", "width operand dropped for CFF2",
                          "width operand re-encoded (CFF2->CFF)", "subset dropped glyphs", "global and local subroutines in one font",
                          "second glyph re-uses a hint subroutine of the first", "subroutine INDEX padded across a bias threshold")
    chunk = 7  # about the number of transforms: a shard builds its font once or twice

    def setup(self, tier, seed):
        import fontTools.subset  # noqa: F401
        import fontTools.fontBuilder  # noqa: F401
        import fontTools.cffLib.CFFToCFF2  # noqa: F401
        import fontTools.cffLib.CFF2ToCFF  # noqa: F401

        self.tier = tier
        self.fonts = None
        self._built = {}

    def bounds(self, tier, seed):
        return {"hint_setups": [h[0] for h in SYN_HINTS], "path_setups": [p[0] for p in SYN_PATHS], "glyphs_per_font": 2,
                "transforms": [t for t in SYN_TRANSFORMS if tier != "quick" or t not in ("subset-other-half", "cff-to-cff2")], "second_glyph_kinds": len(SYN_HINTS) if tier == "quick" else len(SYN_HINTS) * len(SYN_PATHS)}

    def cases(self, tier, seed):
        kinds = [(h, p) for h in range(len(SYN_HINTS)) for p in range(len(SYN_PATHS))]
        seconds = kinds if tier != "quick" else [(h, (h + 3 + seed) % len(SYN_PATHS)) for h in range(len(SYN_HINTS))]
        for (h1, p1) in kinds:
            for (h2, p2) in seconds:
                v1 = (h1 + p1 + seed) % 4
                v2 = (h2 + 2 * p2 + h1 + seed) % 4
                for t in SYN_TRANSFORMS:
                    if tier == "quick" and t in ("subset-other-half", "cff-to-cff2"):
                        continue  # the round trip covers cff-to-cff2; the other half is the mirror case
                    yield [[[h1, p1, v1], [h2, p2, v2]], "syn", t]
        # subroutine INDEXes padded across the bias thresholds (1240; thorough also 33900): pruning
        # the unused entries changes the bias, every surviving call must be re-biased - nested ones too
        pads = [("L1300", 1300, 0), ("G1300", 0, 1300), ("L1300G1300", 1300, 1300)]
        if tier != "quick":
            pads += [("L34000", 34000, 0), ("G34000", 0, 34000)]
        for pname, _nl, _ng in pads:
            for p1 in range(len(SYN_PATHS)):
                for h1 in ((0, 3) if tier == "quick" else range(len(SYN_HINTS))):
                    if h1 >= len(SYN_HINTS):
                        continue
                    p2 = (p1 + 3) % len(SYN_PATHS)
                    for t in ("remove_unused_subroutines", "subset-half", "desubroutinize", "remove_hints"):
                        yield [[[h1, p1, (h1 + p1 + seed) % 4], [h1, p2, (p2 + seed) % 4]], "syn+" + pname, t]

    def check(self, case, rec):
        spec, _n, t = case
        key = repr(spec) + _n
        if key not in self._built:
            self._built.clear()
            data = build_syn_font(spec)
            if "+" in _n:
                pname = _n.split("+", 1)[1]
                nl = int(pname.split("L")[1].split("G")[0]) if "L" in pname else 0
                ng = int(pname.split("G")[1]) if "G" in pname else 0
                data = pad_subrs(data, nl, ng)
                rec.witness("subroutine INDEX padded across a bias threshold")
            self._built[key] = data
        data = self._built[key]
        name = "generated font " + "+".join("%s/%s/v%d" % (SYN_HINTS[h][0], SYN_PATHS[p][0], v) for h, p, v in spec) + (" " + _n if "+" in _n else "")
        self.fonts = [(name, "CFF ", data, -1)]
        if SYN_HINTS[spec[0][0]][0] == SYN_HINTS[spec[1][0]][0] and "subr" in SYN_HINTS[spec[0][0]][0]:
            rec.witness("second glyph re-uses a hint subroutine of the first")
        FontTransforms.check(self, [0, name, t], rec)

    def harfbuzz(self, rec, t, i, data, fname):
        return


# ------------------------------------------------------------------ optimizeWidths
WIDTH_ATOMS = (0, 1, 500, 501, 1000)
# atoms on both sides of the 1-byte/2-byte (107/108) and 2-byte/longer (1131/1132) operand sizes
# (three widths 107 apart plus a far one make the optimal nominal unique: measured to expose wrong 107/108 resp. 1131/1132 constants)
WIDTH_ATOMS_107 = (0, 107, 214, 215, 700)
WIDTH_ATOMS_1131 = (0, 1131, 1132, 2262, 2263, 2264, 4000)


def my_cost(widths, default, nominal):
    """Bytes of all width operands: T2 integer sizes as width.py models them (1 / 2 / 5)."""
    total = 0
    for w in widths:
        if w == default:
            continue
        d = abs(w - nominal)
        total += 1 if d <= 107 else 2 if d <= 1131 else 5
    return total


class Widths(Unit):
    name = "optimize-widths"
    rule = ("all multisets of size 1..5 over {0,1,500,501,1000} (251), of size 1..5 over {0,107,214,215,700} (251) and of "
            "size 1..4 over {0,1131,1132,2262,2263,2264,4000} (329): optimizeWidths returns (default, nominal) whose cost equals "
            "optimizeWidthsBruteforce's and an independent exhaustive minimum (nominal over [min,max], default over the widths or none); "
            "every width is recovered exactly when written as 'omitted if == default else w - nominal' and read back by the reference "
            "interpreter and by T2CharString.draw; the same multiset as the hmtx of a generated CFF2 font: convertCFF2ToCFF writes "
            "defaultWidthX/nominalWidthX/width operands from which every advance is recovered; distinct = each multiset")
    required_witnesses = ("default width used (operand omitted)", "2-byte width operand", "1-byte width operand",
                          "bruteforce compared", "font round trip checked", "width operand of exactly +-107", "width operand of exactly +-1131",
                          "widths 107 apart", "widths 108 apart", "widths 1131 apart", "widths 1132 apart")
    chunk = 1

    def bounds(self, tier, seed):
        return {"atoms": [list(WIDTH_ATOMS), list(WIDTH_ATOMS_107), list(WIDTH_ATOMS_1131)], "max_size": [5, 5, 4],
                "bruteforce_max_size": [3 if tier == "quick" else 5, 2 if tier == "quick" else 4, 0]}

    def cases(self, tier, seed):
        quick = tier == "quick"
        for n in range(1, 6):
            for ms in itertools.combinations_with_replacement(WIDTH_ATOMS, n):
                yield [list(ms), n <= (3 if quick else 5)]
        for n in range(1, 6):
            for ms in itertools.combinations_with_replacement(WIDTH_ATOMS_107, n):
                yield [list(ms), n <= (2 if quick else 4)]
        for n in range(1, 5):
            for ms in itertools.combinations_with_replacement(WIDTH_ATOMS_1131, n):
                yield [list(ms), False]

    def check(self, case, rec):
        widths, brute = case
        rec.nontrivial()
        for a, b in itertools.combinations(sorted(set(widths)), 2):
            if b - a in (107, 108, 1131, 1132):
                rec.witness("widths %d apart" % (b - a))
        default, nominal = optimizeWidths(list(widths))
        cost = my_cost(widths, default, nominal)
        if cost != byteCost(widths, default, nominal):
            rec.violation("widths:byteCost", "byteCost(%s, %s, %s) = %s, T2 operand sizes give %s" % (widths, default, nominal, byteCost(widths, default, nominal), cost))
        lo, hi = min(widths), max(widths)
        defaults = sorted(set(widths)) + [None]
        # the cost is a step function of the nominal width: it changes only where some |w - n|
        # passes 107/108 or 1131/1132, so the minimum is attained at one of these candidates
        cand = sorted({min(max(w + d, lo), hi) for w in widths for d in (0, 107, -107, 108, -108, 1131, -1131, 1132, -1132)} | {lo, hi})
        best = min(my_cost(widths, d, n) for n in cand for d in defaults)
        if hi - lo <= 1000:
            full = min(my_cost(widths, d, n) for n in range(lo, hi + 1) for d in defaults)
            if full != best:
                rec.violation("selfcheck:width-minimum", "candidate minimum %d != full-scan minimum %d for %s" % (best, full, widths))
        if cost != best:
            rec.violation("widths:not-optimal", "optimizeWidths(%s) = (%s, %s) costs %d bytes, the minimum is %d" % (widths, default, nominal, cost, best))
        if brute:
            bd, bn = optimizeWidthsBruteforce(list(widths))
            bc = my_cost(widths, bd, bn)
            rec.witness("bruteforce compared")
            if bc != cost:
                rec.violation("widths:differs-from-bruteforce", "optimizeWidths(%s) = (%s, %s) costs %d, optimizeWidthsBruteforce = (%s, %s) costs %d" % (widths, default, nominal, cost, bd, bn, bc))
            if bc != best:
                rec.violation("widths:bruteforce-not-optimal", "optimizeWidthsBruteforce(%s) = (%s, %s) costs %d, the minimum is %d" % (widths, bd, bn, bc, best))
        # exact recovery through both interpreters
        priv = types.SimpleNamespace(nominalWidthX=nominal, defaultWidthX=default, in_cff2=False)
        for w in widths:
            prog = ([] if w == default else [w - nominal]) + [10, 20, "rmoveto", 30, "hlineto", "endchar"]
            r = t2ref.run(prog)
            got = default if r.width is None else nominal + r.width
            fw, _c = ft_draw(prog, priv)
            if got != w or fw != w or r.errors:
                rec.violation("widths:not-recovered", "width %d with default=%s nominal=%s reads back %r (reference) / %r (fontTools)" % (w, default, nominal, got, fw))
            if w == default:
                rec.witness("default width used (operand omitted)")
            else:
                n = len(t2ref.encode_int(w - nominal))
                rec.witness("%d-byte width operand" % n)
                if abs(w - nominal) in (107, 108, 1131, 1132):
                    rec.witness("width operand of exactly +-%d" % abs(w - nominal))
        self.font_roundtrip(widths, rec)

    def font_roundtrip(self, widths, rec):
        from fontTools.fontBuilder import FontBuilder
        from fontTools.cffLib.CFF2ToCFF import convertCFF2ToCFF

        names = [".notdef"] + ["g%d" % k for k in range(1, len(widths))]
        names = names[: len(widths)]
        fb = FontBuilder(1000, isTTF=False)
        fb.setupGlyphOrder(names)
        fb.setupCharacterMap({})
        css = {}
        for k, g in enumerate(names):
            pen = T2CharStringPen(None, None, CFF2=True)
            pen.moveTo((0, 0))
            pen.lineTo((10 + k, 0))
            pen.lineTo((10 + k, 20))
            pen.closePath()
            css[g] = pen.getCharString()
        fb.setupCFF2(css)
        fb.setupHorizontalMetrics({g: (w, 0) for g, w in zip(names, widths)})
        fb.setupHorizontalHeader()
        fb.setupNameTable({})
        fb.setupOS2()
        fb.setupPost()
        buf = io.BytesIO()
        fb.font.save(buf)
        # as instancer.downgradeCFF2ToCFF does it: convertCFF2ToCFF renames the glyphs
        font = corpus.open_font(buf.getvalue(), recalcBBoxes=False, recalcTimestamp=False)
        convertCFF2ToCFF(font)
        buf = io.BytesIO()
        font.save(buf)
        re = corpus.open_font(buf.getvalue())
        snap = Snapshot(re, "CFF ")
        priv = re["CFF "].cff.topDictIndex[0].FDArray[0].Private
        exp = optimizeWidths(list(widths))
        if (priv.defaultWidthX, priv.nominalWidthX) != exp:
            rec.violation("widths:font-private-dict", "convertCFF2ToCFF wrote defaultWidthX=%s nominalWidthX=%s, optimizeWidths(%s) = %s" % (priv.defaultWidthX, priv.nominalWidthX, widths, exp))
        for (g1, (r, _rc, rw, fw, _fc, fe)), w in zip(snap.glyphs.items(), widths):
            if fe or r.errors or rw != w or fw != w:
                rec.violation("widths:font-not-recovered", "CFF2->CFF with hmtx %s: glyph %s reads width %r / %r, expected %d (%s %s)" % (widths, g1, rw, fw, w, fe, r.errors[:2]))
        rec.witness("font round trip checked")


class UnroundedPen(Unit):
    name = "unrounded-pen-operands"
    rule = ("T2CharStringPen(roundTolerance=0) fed every closed triangle over an 18-point set of decimal coordinates (x in 6 values, y in 3: 0.1-steps whose "
            "differences fall just below / above integers, e.g. 2.3 - 1.3 = 0.9999999999999998, and -107.99999999), with and without a curve: the charstring is compiled, "
            "the byte code read by the TN5177 reference interpreter and decompiled + drawn by T2CharString: every point within k * 2^-16 of the coordinate fed in "
            "(k = its index on the path: relative 16.16 operands accumulate); distinct = each triangle")
    chunk = 8
    required_witnesses = ("delta just below an integer", "16.16 operand written")
    XS = (0.1, 1.3, 2.3, 3.3, -107.99999999, 5.0)
    YS = (0.7, 1.7, -0.3)

    def cases(self, tier, seed):
        pts = [(x, y) for x in self.XS for y in self.YS]
        for i in range(len(pts)):
            yield [i]

    def check(self, case, rec):
        pts = [(x, y) for x in self.XS for y in self.YS]
        p0 = pts[case[0]]
        n = 0
        for p1 in pts:
            for p2 in pts:
                # pairwise different in x and in y: no horizontal / vertical / repeated segment for the
                # specialiser to merge (that rewriting is judged by the other units)
                if len({p0[0], p1[0], p2[0]}) < 3 or len({p0[1], p1[1], p2[1]}) < 3:
                    continue
                for curve in (False, True):
                    n += 1
                    pen = T2CharStringPen(500, None, roundTolerance=0)
                    pen.moveTo(p0)
                    pen.lineTo(p1)
                    if curve:
                        mid = ((p1[0] + p2[0]) / 2 + 0.1, (p1[1] + p2[1]) / 2)
                        pen.curveTo(mid, mid, p2)
                        fed = [p0, p1, mid, mid, p2]
                    else:
                        pen.lineTo(p2)
                        fed = [p0, p1, p2]
                    pen.closePath()
                    cs = pen.getCharString(private=PRIV)
                    prog = list(cs.program)
                    for t in prog:
                        if isinstance(t, float) and not t.is_integer() and abs(t - round(t)) < 1e-6:
                            rec.witness("delta just below an integer")
                    cs.compile()
                    code = cs.bytecode
                    if b"\xff" in code:
                        rec.witness("16.16 operand written")
                    rb = t2ref.run(code)
                    w, cont = ft_draw(code)
                    for how, contours in (("reference", rb.closed() if not rb.errors else None), ("T2CharString.draw", cont)):
                        if contours is None:
                            rec.violation("unrounded-pen:reference-rejects", "compiled %s rejected by the reference: %s" % (code.hex(), rb.errors[:2]))
                            continue
                        got = []
                        for _c, start, segs in contours:
                            got.append(tuple(start))
                            for sg in segs:
                                got += [tuple(q) for q in sg[2:]]  # (kind, from, ...to)
                        # drop the closing point if the interpreter adds one
                        got = got[: len(fed)]
                        bad = [(k, f_, g_) for k, (f_, g_) in enumerate(zip(fed, got)) if abs(f_[0] - g_[0]) > (k + 1) * 2.0 ** -16 or abs(f_[1] - g_[1]) > (k + 1) * 2.0 ** -16]
                        if len(got) < len(fed) or bad:
                            rec.violation("unrounded-pen:points-moved:" + how.split(".")[0], "fed %r, program %s, bytes %s drawn as %r" % (fed, prog_str(prog), code.hex(), got))
        rec.evals(n - 1)
        rec.nontrivial_n(n)


def units():
    return [SpecGen(), StackRuns(), OpForms(), Blends(), FontTransforms(), SyntheticFonts(), Widths(), UnroundedPen()]
