"""C11 - compiled feature files do what their rules say.

An *abstract program* is a list of lookups (family, lookup flag, language scope, abstract
rules over glyphs a..e and marks m n).  From it this engine prints feature-file text in
several spellings (its own printer, not feaLib's asFea), compiles every spelling with
feaLib.addOpenTypeFeaturesFromString on a tinyfont font, and shapes every glyph string up to
a length bound with HarfBuzz on the saved bytes.  The expected result comes from
oracles/otlref.py, an interpreter of the abstract rules that never sees feaLib's AST or the
tables.  The whole space of programs with <= 2 (quick) / <= 3 (thorough) rule statements over a
reduced, collision-forcing argument pool is enumerated.

Second oracle: parse(text).asFea() is a fixed point of parse/asFea and compiles to the same
tables as the text, for every generated text and every corpus .fea file.
"""
from mc import env  # noqa: F401
from mc.kernel import Unit

import copy
import io
import itertools
import os

from fontTools.ttLib import TTFont, newTable
from fontTools.feaLib.builder import addOpenTypeFeaturesFromString, addOpenTypeFeatures
from fontTools.feaLib.parser import Parser
from fontTools.feaLib.error import FeatureLibError

from oracles import tinyfont, otlref

LEVEL = "model_checking"
ASSUMPTIONS = [
    "HarfBuzz 12.1 (uharfbuzz 0.52), default shaper, script latn, left-to-right, features liga calt kern mark mkmk given explicitly, is the meaning of 'a shaper driven by the compiled tables'; mark glyphs have zero advance in the test font and never receive advance adjustments, so HarfBuzz's mark zeroing is the identity; the font has no kern table; clusters are not compared",
    "the reference (oracles/otlref.py) encodes: lookups in written order, first matching rule per position, ligature rules sorted longest first (feature-file spec 5.d), specific pairs before class pairs and one class table per run of class-pair rules (spec 6.b), skipping by lookup flag, HarfBuzz's split of attachments into advance/offset",
    "rule arguments come from a fixed pool (glyph sets {a},{b},{c},{a b},{b c},{m},{n}; a handful of values/anchors); statements per program <= 2 (quick) / <= 3 on a reduced pool (thorough); glyph strings over the glyphs a program mentions plus one unmentioned base glyph and the marks",
    "same-lookup duplicates whose meaning the feature-file specification leaves open (two cursive/mark-base/mark-mark rules for the same glyph and class, overlapping class-pair classes) are not generated",
    "feature-file constructs outside the rule grammar (tables other than GDEF GlyphClassDef, names, STAT, variable scalars, conditionsets) are covered only through the asFea fixed point on the corpus files",
]

BASES = ["a", "b", "c", "d", "e"]
MARKS = ["m", "n"]
GLYPHS = BASES + MARKS
GDEF = {g: 1 for g in BASES}
GDEF.update({g: 3 for g in MARKS})
MARKCLASSES = {"TOP": [[["m"], [100, 600]]], "BOT": [[["n"], [120, -20]]]}
FEATURES = {"liga": 1, "calt": 1, "kern": 1, "mark": 1, "mkmk": 1}

FLAGS = {
    "0": {"im": False, "mat": None, "mfs": None, "rtl": False},
    "im": {"im": True, "mat": None, "mfs": None, "rtl": False},
    "mat": {"im": False, "mat": ["m"], "mfs": None, "rtl": False},
    "mfs": {"im": False, "mat": None, "mfs": ["n"], "rtl": False},
    "rtl": {"im": False, "mat": None, "mfs": None, "rtl": True},
    # second attachment class / filtering set: only used together with the first one, so that
    # class and set numbering matters
    "mat2": {"im": False, "mat": ["n"], "mfs": None, "rtl": False},
    "mfs2": {"im": False, "mat": None, "mfs": ["m"], "rtl": False},
}

# ------------------------------------------------------------------------------ rule pool


def _nested(fam, rules):
    return {"fam": fam, "flag": None, "rules": rules, "lang": None}


def rule_pool():
    """[(family, rule)] - the statement alphabet.  Arguments are chosen so that statements
    collide: outputs of one are inputs of another, classes overlap, contexts share prefixes."""
    A, Bb, C, AB, BC = ["a"], ["b"], ["c"], ["a", "b"], ["b", "c"]
    P = []
    # --- GSUB 1/2/4 (one family: feaLib builds them through one builder)
    P += [("subst", r) for r in [
        ["single", [["a", "b"]]],
        ["single", [["b", "c"]]],
        ["single", [["a", "c"], ["b", "d"]]],            # sub [a b] by [c d]
        ["single", [["b", "a"], ["c", "a"]]],            # sub [b c] by a
        ["single", [["m", "n"]]],
        ["multiple", "a", ["b", "c"]],
        ["multiple", "b", ["a", "a"]],
        ["multiple", "c", ["a", "m"]],
        ["multiple", "d", []],                           # sub d by NULL
        ["ligature", [A, Bb], "c"],
        ["ligature", [A, Bb, C], "d"],
        ["ligature", [AB, C], "e"],                      # sub [a b] c by e
        ["ligature", [Bb, Bb], "a"],
    ]]
    # --- GSUB 3
    P += [("alt", r) for r in [
        ["alternate", "a", ["b", "c"]],
        ["alternate", "b", ["c", "d", "a"]],
    ]]
    # --- GSUB 5/6 (contextual, chained, ignore)
    P += [("ctxsub", r) for r in [
        ["ctx", [A], [Bb], [], [[0, _nested("subst", [["single", [["b", "c"]]]])]]],       # sub a b' by c
        ["ctx", [], [Bb], [C], [[0, _nested("subst", [["single", [["b", "d"]]]])]]],       # sub b' c by d
        ["ctx", [], [Bb], [], [[0, _nested("subst", [["single", [["b", "a"]]]])]]],        # sub b' by a
        ["ctx", [AB], [BC], [], [[0, _nested("subst", [["single", [["b", "d"], ["c", "e"]]]])]]],  # sub [a b] [b c]' by [d e]
        ["ctx", [], [A, Bb], [], [[0, _nested("subst", [["ligature", [A, Bb], "c"]])]]],   # sub a' b' by c
        ["ctx", [], [A, Bb], [C], [[0, _nested("subst", [["ligature", [A, Bb], "d"]])]]],  # sub a' b' c by d
        ["ctx", [C], [A, Bb, C], [], [[0, _nested("subst", [["ligature", [A, Bb, C], "e"]])]]],  # sub c a' b' c' by e
        ["ctx", [A], [Bb], [C], [[0, _nested("subst", [["multiple", "b", ["d", "e"]]])]]],  # sub a b' c by d e
        ["ctx", [], [A], [A], [[0, _nested("alt", [["alternate", "a", ["b", "c"]]])]]],    # sub a' a from [b c]
        ["ctx", [Bb], [A], [], [[0, _nested("alt", [["alternate", "a", ["d", "e"]]])]]],   # sub b a' from [d e]
        ["ctx", [C], [Bb], [], [[0, _nested("subst", [["multiple", "b", ["a", "a"]]])]]],  # sub c b' by a a
        ["ctx", [], [A, Bb], [], [[0, _nested("subst", [["single", [["a", "b"]]]])], [1, _nested("subst", [["single", [["b", "c"]]]])]]],  # two lookups
        ["ctx", [], [A, Bb], [], [[1, _nested("subst", [["single", [["b", "a"]]]])]]],    # sub a' b' lookup X
        ["ctx", [AB, Bb], [C], [], [[0, _nested("subst", [["single", [["c", "d"]]]])]]],   # sub [a b] b c' by d   (two backtrack positions, coverage based)
        ["ctx", [], [C], [Bb, A], [[0, _nested("subst", [["single", [["c", "e"]]]])]]],    # sub c' b a by e   (two lookahead glyphs)
        ["ctx", [A], [Bb], [], []],                                                        # ignore sub a b'
        ["ctx", [], [Bb], [C], []],                                                        # ignore sub b' c
    ]]
    # --- GSUB 8
    P += [("rsub", r) for r in [
        ["rsub", [], [["b", "c"]], [Bb]],               # rsub b' b by c
        ["rsub", [A], [["b", "d"], ["c", "e"]], []],     # rsub a [b c]' by [d e]
        ["rsub", [], [["a", "b"]], [C]],                 # rsub a' c by b
    ]]
    # --- GPOS 1
    P += [("spos", r) for r in [
        ["spos", A, [0, 0, 10, 0]],
        ["spos", AB, [1, 2, 3, 4]],
        ["spos", BC, [-5, 7, 0, 0]],
        ["spos", ["m"], [3, 4, 0, 0]],
    ]]
    # --- GPOS 2
    P += [("pair", r) for r in [
        ["pair", "a", [0, 0, -10, 0], "b", None],
        ["pair", "a", [1, 0, 2, 0], "b", [3, 0, 4, 0]],
        ["pair", "b", [0, 0, 15, 0], "b", None],
        ["pair", "a", [0, 0, 7, 0], "m", None],
        ["epair", AB, [0, 0, 30, 0], C, None],
        ["epair", A, [0, 0, -8, 0], BC, [0, 5, 0, 0]],
        ["cpair", AB, [0, 0, 20, 0], BC, None],
        ["cpair", C, [0, 0, -20, 0], AB, [2, 0, 6, 0]],
        ["cpair", AB, [0, 0, 25, 0], A, None],
    ]]
    # --- GPOS 3
    P += [("curs", r) for r in [
        ["curs", A, [10, 20], [400, 50]],
        ["curs", Bb, [5, -10], None],
        ["curs", BC, None, [300, 30]],
        ["curs", AB, [0, 40], [450, -30]],
    ]]
    # --- GPOS 4 / 6
    P += [("mkbase", r) for r in [
        ["mkbase", A, [[[250, 700], "TOP"]]],
        ["mkbase", AB, [[[200, -20], "BOT"]]],
        ["mkbase", Bb, [[[260, 710], "TOP"], [[240, 0], "BOT"]]],
    ]]
    P += [("mkmk", r) for r in [
        ["mkmk", ["m"], [[[100, 900], "TOP"]]],
        ["mkmk", ["m", "n"], [[[50, -300], "BOT"]]],
    ]]
    # --- GPOS 7/8
    P += [("ctxpos", r) for r in [
        ["ctx", [A], [Bb], [], [[0, _nested("spos", [["spos", Bb, [0, 0, 10, 0]]])]]],          # pos a b' 10
        ["ctx", [], [A, Bb], [C], [[0, _nested("spos", [["spos", A, [5, 0, 0, 0]]])], [1, _nested("spos", [["spos", Bb, [0, 6, 7, 0]]])]]],  # pos a' <..> b' <..> c
        ["ctx", [], [AB], [BC], [[0, _nested("spos", [["spos", AB, [0, 0, -12, 0]]])]]],       # pos [a b]' -12 [b c]
        ["ctx", [], [A, Bb], [], [[0, _nested("pair", [["pair", "a", [0, 0, -10, 0], "b", None]])]]],  # pos a' lookup K b'
        ["ctx", [A], [["m"]], [], [[0, _nested("spos", [["spos", ["m"], [9, 9, 0, 0]]])]]],     # pos a m' <9 9 0 0>
        ["ctx", [C], [Bb], [], [[0, _nested("spos", [["spos", Bb, [0, 0, 20, 0]]])]]],          # pos c b' 20
        ["ctx", [Bb], [Bb], [], []],                                                            # ignore pos b b'
    ]]
    return P


# reduced pool for three-statement programs (indices into rule_pool by family/position)
def reduced_pool():
    full = rule_pool()
    keep = []
    want = {
        "subst": (0, 1, 5, 8, 9), "alt": (0,), "ctxsub": (0, 2, 4, 11), "rsub": (0,),
        "spos": (0, 2), "pair": (0, 1, 6), "curs": (0, 3), "mkbase": (0, 1), "mkmk": (0,), "ctxpos": (0, 5),
    }
    seen = {}
    for fam, r in full:
        k = seen.get(fam, 0)
        seen[fam] = k + 1
        if k in want.get(fam, ()):
            keep.append((fam, r))
    return keep


# ------------------------------------------------------------------------------ validity


def subst_keys(rule):
    if rule[0] == "single":
        return {(g,): (t,) for g, t in rule[1]}
    if rule[0] == "multiple":
        return {(rule[1],): tuple(rule[2])}
    seqs = [()]
    for s in rule[1]:
        seqs = [q + (g,) for q in seqs for g in s]
    return {q: (rule[2],) for q in seqs}


def lookup_ok(fam, rules):
    """May these statements stand in one lookup (feature-file specification)?"""
    if len(rules) <= 1:
        return True
    if fam == "subst":
        seen = {}
        lig = mult = False
        for r in rules:
            lig |= r[0] == "ligature"
            mult |= r[0] == "multiple"
            for k, v in subst_keys(r).items():
                if k in seen:
                    return False
                seen[k] = v
        return not (lig and mult)
    if fam == "alt":
        return len({r[1] for r in rules}) == len(rules)
    if fam in ("ctxsub", "rsub", "ctxpos"):
        # a lookup made only of "ignore" statements does nothing new when repeated; allow all
        return True
    if fam == "spos":
        seen = set()
        for r in rules:
            if seen & set(r[1]):
                return False
            seen |= set(r[1])
        return True
    if fam == "pair":
        kinds = [r[0] in ("cpair", "break") for r in rules]
        if kinds != sorted(kinds):  # specific and enumerated pairs precede class pairs
            return False
        # class pairs: inside one subtable the first classes must be equal or disjoint, and
        # so must the second classes (what a class table can express); an explicit
        # "subtable;" statement starts a new class table
        c1, c2, pairs = [], [], set()
        for r in rules:
            if r[0] == "break":
                c1, c2, pairs = [], [], set()
                continue
            if r[0] != "cpair":
                continue
            for pool, s in ((c1, frozenset(r[1])), (c2, frozenset(r[3]))):
                for o in pool:
                    if o != s and o & s:
                        return False
                pool.append(s)
            k = (frozenset(r[1]), frozenset(r[3]))
            if k in pairs:
                return False
            pairs.add(k)
        return True
    if fam == "curs":
        seen = set()
        for r in rules:
            if seen & set(r[1]):
                return False
            seen |= set(r[1])
        return True
    if fam in ("mkbase", "mkmk"):
        seen = set()
        for r in rules:
            for g in r[1]:
                for _a, cn in r[2]:
                    if (g, cn) in seen:
                        return False
                    seen.add((g, cn))
        return True
    raise ValueError(fam)


def flags_for(fam):
    if fam == "curs":
        return ("0", "im", "mat", "mfs", "rtl")
    return ("0", "im", "mat", "mfs")


# ------------------------------------------------------------------------------ programs


def make_program(lookups):
    """lookups: [(fam, flagname, [rules], lang)] -> abstract program (deep, JSON-able)."""
    out = []
    for fam, fl, rules, lang in lookups:
        flag = dict(FLAGS[fl])
        rules = copy.deepcopy(rules)
        for r in rules:
            if r[0] == "ctx":
                for _i, n in r[4]:
                    n["flag"] = flag
        out.append({"fam": fam, "flag": flag, "flagname": fl, "rules": rules, "lang": lang})
    return {"gdef": GDEF, "markclasses": MARKCLASSES, "lookups": out}


def partitions(stmts):
    """All ways to cut the statement list into consecutive lookups of one family."""
    n = len(stmts)
    for cuts in itertools.product((0, 1), repeat=n - 1):
        groups, cur = [], [stmts[0]]
        for c, s in zip(cuts, stmts[1:]):
            if c:
                groups.append(cur)
                cur = [s]
            else:
                cur.append(s)
        groups.append(cur)
        if not all(len({f for f, _ in g}) == 1 for g in groups):
            continue
        if all(lookup_ok(g[0][0], [r for _, r in g]) for g in groups):
            yield [(g[0][0], [r for _, r in g]) for g in groups]
        # class pairs separated by an explicit subtable break (a different program: the
        # first class table shadows the second for its first glyphs)
        broken, any_break = [], False
        for g in groups:
            rules = []
            for f, r in g:
                if rules and r[0] == "cpair" and rules[-1][0] == "cpair":
                    rules.append(["break"])
                    any_break = True
                rules.append(r)
            broken.append((g[0][0], rules))
        if any_break and all(lookup_ok(f, rules) for f, rules in broken):
            yield broken


def programs(nstmt, pool, flag_dev, lang_variants):
    """Yield lookup lists [(fam, flagname, rules, lang)] with exactly nstmt statements."""
    for stmts in itertools.product(pool, repeat=nstmt):
        # GSUB lookups are applied before GPOS lookups whatever the order in the file:
        # only enumerate files that keep substitutions first (the other orders print the same
        # abstract program)
        tabs = [0 if f in otlref.GSUB_FAMS else 1 for f, _ in stmts]
        if tabs != sorted(tabs):
            continue
        for groups in partitions(list(stmts)):
            k = len(groups)
            flagsets = [["0"] * k]
            for i in range(k):
                for fl in flags_for(groups[i][0])[1:]:
                    if flag_dev == 0 or (flag_dev == "im" and fl != "im"):
                        continue
                    fs = ["0"] * k
                    fs[i] = fl
                    flagsets.append(fs)
            if flag_dev == 1 and k >= 2:
                # two adjacent lookups that differ ONLY in their mark filtering set / attachment
                # class: nothing but the set separates them
                for i in range(k - 1):
                    for a, b in (("mfs", "mfs2"), ("mat", "mat2")):
                        fs = ["0"] * k
                        fs[i], fs[i + 1] = a, b
                        flagsets.append(fs)
            if flag_dev == 2 and k >= 2:
                for combo in itertools.product(*[flags_for(g[0]) for g in groups]):
                    if sum(1 for c in combo if c != "0") >= 2:
                        flagsets.append(list(combo))
                for i in range(k - 1):
                    for a, b in (("mat", "mat2"), ("mat2", "mat"), ("mfs", "mfs2"), ("mfs2", "mfs")):
                        fs = ["0"] * k
                        fs[i], fs[i + 1] = a, b
                        flagsets.append(fs)
            if lang_variants and flag_dev in (1, 2) and k >= 2:
                # a flagged lookup directly followed by a script / language statement: the statement
                # resets the lookup flag (and the mark filtering set) for the rules after it
                tabs2 = [g[0] in otlref.GSUB_FAMS for g in groups]
                for tab in (True, False):
                    idxs = [i for i in range(k) if tabs2[i] == tab]
                    for pos in range(1, len(idxs)):
                        prev, j = idxs[pos - 1], idxs[pos]
                        for fl in ("mfs", "im"):
                            if fl in flags_for(groups[prev][0]):
                                yield [(g[0], fl if i == prev else "0", g[1], "TRK" if (i in idxs and i >= j) else None) for i, g in enumerate(groups)]
            for fs in flagsets:
                yield [(g[0], f, g[1], None) for g, f in zip(groups, fs)]
                if lang_variants and all(f == "0" for f in fs):
                    # script/language statements act inside one feature block (here: one
                    # table): the lookups of that table from index j on are TRK only; with
                    # exclude_dflt the earlier lookups of the same table are removed from TRK
                    tabs_ = [g[0] in otlref.GSUB_FAMS for g in groups]
                    for tab in (True, False):
                        idxs = [i for i in range(k) if tabs_[i] == tab]
                        for j in idxs:
                            yield [(g[0], "0", g[1], "TRK" if (i in idxs and i >= j) else None) for i, g in enumerate(groups)]
                            if j > idxs[0]:
                                yield [(g[0], "0", g[1], ("TRK" if i >= j else "!TRK") if i in idxs else None) for i, g in enumerate(groups)]


# ------------------------------------------------------------------------------ printer

LOOKUP_NAMES = ["zz0", "yy1", "xx2", "ww3", "vv4", "uu5", "tt6", "ss7", "rr8"]  # reverse alphabetical on purpose


class Printer:
    """abstract program + spelling -> feature file text."""

    def __init__(self, prog, sp):
        self.prog = prog
        self.sp = sp
        self.classes = {}  # tuple(glyphs) -> name
        self.values = {}
        self.anchors = {}
        self.named = []  # standalone lookup blocks printed before the features
        self.nnamed = 0
        self.defs = []

    # -- atoms
    def gset(self, s, force_class=False):
        s = list(s)
        if len(s) == 1 and not force_class:
            return s[0]
        if self.sp.get("cls") == "named":
            k = tuple(s)
            if k not in self.classes:
                self.classes[k] = "@c%d" % len(self.classes)
                self.defs.append("%s = [%s];" % (self.classes[k], " ".join(s)))
            return self.classes[k]
        if self.sp.get("cls") == "mixed" and len(s) > 1:
            # plain glyph names in front of a class reference inside one pair of brackets
            k = tuple(s[1:])
            if k not in self.classes:
                self.classes[k] = "@c%d" % len(self.classes)
                self.defs.append("%s = [%s];" % (self.classes[k], " ".join(s[1:])))
            return "[%s %s]" % (s[0], self.classes[k])
        if self.sp.get("cls") == "range" and len(s) > 1 and all(ord(b) - ord(a) == 1 for a, b in zip(s, s[1:])):
            return "[%s-%s]" % (s[0], s[-1])
        return "[%s]" % " ".join(s)

    def value(self, v, pair_second=False):
        mode = self.sp.get("val", "short")
        if mode == "named":
            k = tuple(v)
            if k not in self.values:
                self.values[k] = "v%d" % len(self.values)
                if v[0] == 0 and v[1] == 0 and v[3] == 0:
                    # format A at file level: a horizontal advance wherever the name is used
                    self.defs.append("valueRecordDef %d %s;" % (v[2], self.values[k]))
                else:
                    self.defs.append("valueRecordDef <%d %d %d %d> %s;" % (v[0], v[1], v[2], v[3], self.values[k]))
            return "<%s>" % self.values[k]
        if mode == "short" and v[0] == 0 and v[1] == 0 and v[3] == 0:
            return "%d" % v[2]
        return "<%d %d %d %d>" % tuple(v)

    def anchor(self, a):
        if a is None:
            return "<anchor NULL>"
        if self.sp.get("anc") == "named":
            k = tuple(a)
            if k not in self.anchors:
                self.anchors[k] = "A%d" % len(self.anchors)
                self.defs.append("anchorDef %d %d %s;" % (a[0], a[1], self.anchors[k]))
            return "<anchor %s>" % self.anchors[k]
        return "<anchor %d %d>" % tuple(a)

    def flagstmt(self, flag):
        parts = []
        if flag.get("rtl"):
            parts.append("RightToLeft")
        if flag.get("im"):
            parts.append("IgnoreMarks")
        if flag.get("mat") is not None:
            parts.append("MarkAttachmentType %s" % self.gset(flag["mat"], force_class=True))
        if flag.get("mfs") is not None:
            parts.append("UseMarkFilteringSet %s" % self.gset(flag["mfs"], force_class=True))
        if not parts:
            return "lookupflag 0;"
        return "lookupflag %s;" % " ".join(parts)

    # -- rules
    def new_named(self, nested):
        name = "n%d" % self.nnamed
        self.nnamed += 1
        body = [self.flagstmt(nested["flag"])] if any(nested["flag"].get(k) for k in ("im", "mat", "mfs", "rtl")) else []
        for r in nested["rules"]:
            body += self.rule(nested["fam"], r)
        self.named.append("lookup %s {\n  %s\n} %s;" % (name, "\n  ".join(body), name))
        return name

    def rule(self, fam, r):
        k = r[0]
        if k == "break":
            return ["subtable;"]
        if k == "single":
            src = [g for g, _ in r[1]]
            dst = [t for _, t in r[1]]
            if len(src) == 1:
                return ["sub %s by %s;" % (src[0], dst[0])]
            if len(set(dst)) == 1:
                return ["sub %s by %s;" % (self.gset(src), dst[0])]
            return ["sub %s by %s;" % (self.gset(src), self.gset(dst))]
        if k == "multiple":
            return ["sub %s by %s;" % (r[1], " ".join(r[2]) if r[2] else "NULL")]
        if k == "ligature":
            return ["sub %s by %s;" % (" ".join(self.gset(s) for s in r[1]), r[2])]
        if k == "alternate":
            return ["sub %s from %s;" % (r[1], self.gset(r[2], force_class=True))]
        if k == "rsub":
            src = [g for g, _ in r[2]]
            dst = [t for _, t in r[2]]
            pre = " ".join(self.gset(s) for s in r[1])
            post = " ".join(self.gset(s) for s in r[3])
            return [("rsub %s %s' %s by %s;" % (pre, self.gset(src), post, self.gset(dst) if len(dst) > 1 else dst[0])).replace("  ", " ")]
        if k == "spos":
            return ["pos %s %s;" % (self.gset(r[1]), self.value(r[2]))]
        if k == "pair":
            if r[4] is None:
                return ["pos %s %s %s;" % (r[1], r[3], self.value(r[2]))]
            return ["pos %s %s %s %s;" % (r[1], self.value(r[2]), r[3], self.value(r[4]))]
        if k in ("cpair", "epair"):
            kw = "enum pos" if k == "epair" else "pos"
            force = k == "cpair"
            g1, g2 = self.gset(r[1], force_class=force), self.gset(r[3], force_class=force)
            if k == "epair" and len(r[1]) == 1 and len(r[3]) == 1:
                g1 = self.gset(r[1], force_class=True)
            if r[4] is None:
                return ["%s %s %s %s;" % (kw, g1, g2, self.value(r[2]))]
            return ["%s %s %s %s %s;" % (kw, g1, self.value(r[2]), g2, self.value(r[4]))]
        if k == "curs":
            return ["pos cursive %s %s %s;" % (self.gset(r[1]), self.anchor(r[2]), self.anchor(r[3]))]
        if k in ("mkbase", "mkmk"):
            kw = "base" if k == "mkbase" else "mark"
            return ["pos %s %s %s;" % (kw, self.gset(r[1]), " ".join("%s mark @%s" % (self.anchor(a), cn) for a, cn in r[2]))]
        if k == "ctx":
            return self.ctx(fam, r)
        raise ValueError(k)

    def ctx(self, fam, r):
        _k, pre, inp, post, acts = r
        kw = "sub" if fam == "ctxsub" else "pos"
        P = [self.gset(s) for s in pre]
        S = [self.gset(s) for s in post]
        if not acts:
            return [" ".join(["ignore", kw] + P + [self.gset(s) + "'" for s in inp] + S) + ";"]
        inline = self.sp.get("ctx", "inline") == "inline" and self.inlineable(fam, r)
        if not inline:
            byidx = {}
            for idx, n in acts:
                byidx.setdefault(idx, []).append(self.new_named(n))
            I = []
            for i, s in enumerate(inp):
                I.append(self.gset(s) + "'" + "".join(" lookup %s" % nm for nm in byidx.get(i, [])))
            return [" ".join([kw] + P + I + S) + ";"]
        if fam == "ctxpos":
            byidx = {idx: n for idx, n in acts}
            I = []
            for i, s in enumerate(inp):
                t = self.gset(s) + "'"
                if i in byidx:
                    t += " " + self.value(byidx[i]["rules"][0][2])
                I.append(t)
            return [" ".join([kw] + P + I + S) + ";"]
        n = acts[0][1]
        nr = n["rules"][0]
        I = [self.gset(s) + "'" for s in inp]
        head = " ".join([kw] + P + I + S)
        if nr[0] == "single":
            dst = [t for _, t in nr[1]]
            return ["%s by %s;" % (head, self.gset(dst) if len(set(dst)) > 1 else dst[0])]
        if nr[0] == "multiple":
            return ["%s by %s;" % (head, " ".join(nr[2]))]
        if nr[0] == "ligature":
            return ["%s by %s;" % (head, nr[2])]
        if nr[0] == "alternate":
            return ["%s from %s;" % (head, self.gset(nr[2], force_class=True))]
        raise ValueError(nr[0])

    @staticmethod
    def inlineable(fam, r):
        _k, pre, inp, post, acts = r
        if fam == "ctxpos":
            for idx, n in acts:
                if n["fam"] != "spos" or len(n["rules"]) != 1 or list(n["rules"][0][1]) != list(inp[idx]):
                    return False
            return len({i for i, _ in acts}) == len(acts)
        if len(acts) != 1 or len(acts[0][1]["rules"]) != 1:
            return False
        idx, n = acts[0]
        nr = n["rules"][0]
        if nr[0] == "ligature":
            return idx == 0 and [list(s) for s in nr[1]] == [list(s) for s in inp]
        if len(inp) != 1 or idx != 0:
            return False
        if nr[0] == "single":
            return [g for g, _ in nr[1]] == list(inp[0])
        if nr[0] in ("multiple", "alternate"):
            return [nr[1]] == list(inp[0])
        return False

    # -- file
    def text(self):
        prog, sp = self.prog, self.sp
        lookups = prog["lookups"]
        bodies = []
        for l in lookups:
            body = []
            for r in l["rules"]:
                body += self.rule(l["fam"], r)
            bodies.append(body)
        place = sp.get("place", "plain")
        head = []
        ls = sp.get("ls", 2)
        if any(l["lang"] for l in lookups):
            ls = 2
        if ls >= 1:
            head.append("languagesystem DFLT dflt;")
        if ls >= 2:
            head.append("languagesystem latn dflt;")
        usedmc = sorted({cn for l in lookups for r in l["rules"] if r[0] in ("mkbase", "mkmk") for _a, cn in r[2]}
                        | {cn for l in lookups for r in l["rules"] if r[0] == "ctx" for _i, n in r[4] for q in n["rules"] if q[0] in ("mkbase", "mkmk") for _a, cn in q[2]})
        if sp.get("gdef") == "inferred":
            usedmc = sorted(prog["markclasses"])
        mcs = []
        for cn in usedmc:
            for glyphs, a in prog["markclasses"][cn]:
                mcs.append("markClass %s %s @%s;" % (self.gset(glyphs), self.anchor(a), cn))
        gdef = []
        if sp.get("gdef") != "inferred":
            gdef.append("table GDEF { GlyphClassDef %s, , %s, ; } GDEF;" % (self.gset(BASES, True), self.gset(MARKS, True)))

        def feat_of(i):
            l = lookups[i]
            gsub = l["fam"] in otlref.GSUB_FAMS
            if sp.get("feat") == "two":
                same = [j for j in range(len(lookups)) if (lookups[j]["fam"] in otlref.GSUB_FAMS) == gsub]
                k = same.index(i)
                return (["liga", "calt"] if gsub else ["kern", "mark", "mkmk"])[k % (2 if gsub else 3)]
            if sp.get("feat") == "rev":
                same = [j for j in range(len(lookups)) if (lookups[j]["fam"] in otlref.GSUB_FAMS) == gsub]
                k = same.index(i)
                return (["calt", "liga"] if gsub else ["mkmk", "mark", "kern"])[k % (2 if gsub else 3)]
            return "liga" if gsub else "kern"

        # group consecutive lookups by feature (a feature block may be opened more than once)
        blocks = []  # standalone lookup blocks
        feats = []  # [(tag, [lines])]
        curlang = None
        for i, l in enumerate(lookups):
            tag = feat_of(i)
            if not feats or feats[-1][0] != tag:
                feats.append((tag, []))
                curflag = "0"
                curlang = None
                prevkey = None
            lines = feats[-1][1]
            if l["lang"] == "TRK" and curlang != "TRK":
                excl = any(x["lang"] == "!TRK" for x in lookups)
                lines.append("script latn;")
                lines.append("language TRK%s;" % (" exclude_dflt" if excl else ""))
                curlang = "TRK"
                curflag = "0"
                prevkey = None
            name = LOOKUP_NAMES[i]
            fl = self.flagstmt(l["flag"])
            nondefault = l["flagname"] != "0"
            if place == "plain":
                key = (l["fam"], l["flagname"])  # what feaLib keys its current lookup on
                if key == prevkey:
                    # two lookups that feaLib would merge into one: keep them apart
                    lines.append("lookup %s {" % name)
                    if nondefault:
                        lines.append("  " + fl)
                    lines += ["  " + b for b in bodies[i]]
                    lines.append("} %s;" % name)
                    prevkey = None
                    # flags set inside the block stay in force in the feature
                    curflag = l["flagname"]
                else:
                    if l["flagname"] != curflag:
                        lines.append(fl)
                        curflag = l["flagname"]
                    lines += bodies[i]
                    prevkey = key
            elif place == "infeature":
                lines.append("lookup %s {" % name)
                if nondefault or curflag != "0":
                    lines.append("  " + fl)
                    curflag = l["flagname"]
                lines += ["  " + b for b in bodies[i]]
                lines.append("} %s;" % name)
            else:  # "blocks" / "blocksrev": standalone block, referenced from the feature
                blk = ["lookup %s {" % name]
                if nondefault:
                    blk.append("  " + fl)
                blk += ["  " + b for b in bodies[i]]
                blk.append("} %s;" % name)
                blocks.append("\n".join(blk))
                lines.append("lookup %s;" % name)
        out = head + self.defs + gdef + mcs + self.named + blocks
        for tag, lines in feats:
            if place == "blocksrev" and not any(x.startswith(("script", "language")) for x in lines):
                lines = lines[::-1]
            out.append("feature %s {\n  %s\n} %s;" % (tag, "\n  ".join(lines), tag))
        return "\n".join(out) + "\n"


def spellings(prog):
    """The spellings of one abstract program: a base spelling and every single deviation.
    Spellings that only concern how arguments are written (classes, values, anchors,
    languagesystem statements) are not crossed with flag / language-scope deviations;
    placement spellings are (a lookupflag statement stays in force depending on placement)."""
    lookups = prog["lookups"]
    lang = any(l["lang"] for l in lookups)
    flagged = any(l["flagname"] != "0" for l in lookups)
    fams = {l["fam"] for l in lookups}
    base = {"place": "plain", "cls": "inline", "val": "short", "anc": "inline", "ctx": "inline", "feat": "one", "ls": 2, "gdef": "explicit"}
    out = [("base", base)]

    def dev(name, **kw):
        d = dict(base)
        d.update(kw)
        out.append((name, d))

    dev("blocks", place="blocks")
    dev("infeature", place="infeature")
    if len(lookups) > 1 and not lang:
        tabs = [l["fam"] in otlref.GSUB_FAMS for l in lookups]
        two = tabs.count(True) > 1 or tabs.count(False) > 1
        if two:
            dev("twofeat", feat="two")
        if not flagged:
            dev("blocksrev", place="blocksrev")
            if two:
                dev("twofeat-blocks", feat="two", place="blocks")
                dev("revfeat", feat="rev")
    if fams & {"ctxsub", "ctxpos"}:
        dev("namedctx", ctx="named")
        if not flagged:
            dev("namedctx-blocks", ctx="named", place="blocks")
    if flagged or fams & {"mkbase", "mkmk"} or "m" in mentioned(prog) or "n" in mentioned(prog):
        dev("gdef-inferred", gdef="inferred")
    if not lang and not flagged:
        dev("namedclass", cls="named")
        dev("rangeclass", cls="range")
        dev("mixedclass", cls="mixed")
        if fams & {"spos", "pair", "ctxpos"}:
            dev("fullvalue", val="full")
            dev("namedvalue", val="named")
        if fams & {"curs", "mkbase", "mkmk"}:
            dev("namedanchor", anc="named")
        dev("ls-none", ls=0)
        dev("ls-dflt", ls=1)
    return out


def all_rules(prog):
    """(family, rule) of every rule, nested lookups included."""
    out = []

    def visit(l):
        for r in l["rules"]:
            out.append((l["fam"], r))
            if r[0] == "ctx":
                for _i, n in r[4]:
                    visit(n)

    for l in prog["lookups"]:
        visit(l)
    return out


def traits(prog):
    """Structural traits of a program that name a narrow failing class in violation keys."""
    out = []
    for l in prog["lookups"]:
        if l["fam"] != "ctxsub":
            continue
        seqs = []
        for r in l["rules"]:
            for _i, n in r[4]:
                for q in n["rules"]:
                    if q[0] == "ligature":
                        seqs.append(sorted(subst_keys(q)))
        for i in range(len(seqs)):
            for j in range(len(seqs)):
                if i != j and any(x != y and y[: len(x)] == x for x in seqs[i] for y in seqs[j]):
                    if "inline-ligatures-one-prefix-of-other" not in out:
                        out.append("inline-ligatures-one-prefix-of-other")
    return out


def hb_specific(prog):
    """Programs on which HarfBuzz deliberately departs from the plain reading of the
    specification; they are checked differentially (all spellings must shape alike)."""
    rules = all_rules(prog)
    fams = {f for f, _ in rules}
    grows = any(r[0] == "multiple" and len(r[2]) > 1 for _f, r in rules)
    if grows and "mkbase" in fams:
        # MarkBasePos does not attach to the non-first glyphs of a multiple substitution
        # unless they are covered (harfbuzz issues 740, 1020, 4124)
        return "multiple substitution before mark-to-base"
    if "mkmk" in fams:
        # a ligature formed across skipped marks gives those marks component numbers, and
        # MarkMarkPos refuses to combine marks of different components of one ligature
        def skips_marks(l):
            f = l["flag"]
            return bool(f.get("im") or f.get("mat") is not None or f.get("mfs") is not None)

        def lig_over_marks(l):
            for r in l["rules"]:
                if r[0] == "ligature" and len(r[1]) > 1 and skips_marks(l):
                    return True
                if r[0] == "ctx" and any(lig_over_marks(n) for _i, n in r[4]):
                    return True
            return False

        if any(lig_over_marks(l) for l in prog["lookups"]):
            return "ligature over skipped marks before mark-to-mark"
    return None


# ------------------------------------------------------------------------------ fonts / HarfBuzz

_BASE = {}


def base_font_bytes():
    if "b" not in _BASE:
        f = tinyfont.static_font({"kind": "ttf", "glyphs": GLYPHS})
        for g in MARKS:
            f["hmtx"].metrics[g] = (0, f["hmtx"].metrics[g][1])
        _BASE["b"] = tinyfont.to_bytes(f)
        f2 = TTFont(io.BytesIO(_BASE["b"]))
        _BASE["adv"] = {g: f2["hmtx"].metrics[g][0] for g in GLYPHS}
        _BASE["order"] = f2.getGlyphOrder()
    return _BASE["b"]


def compile_fea(text):
    font = TTFont(io.BytesIO(base_font_bytes()))
    addOpenTypeFeaturesFromString(font, text)
    return font


LAYOUT_TAGS = ("GDEF", "GSUB", "GPOS")


def layout_bytes(font):
    """Compile the layout tables once; the compiled bytes replace the table objects so that
    saving the font writes exactly these bytes."""
    from fontTools.ttLib.tables.DefaultTable import DefaultTable

    out = {}
    for t in LAYOUT_TAGS:
        if t in font:
            data = font[t].compile(font)
            out[t] = data
            raw = DefaultTable(t)
            raw.data = data
            font[t] = raw
    return out


class Shaper:
    def __init__(self, data):
        import uharfbuzz as hb

        self.hb = hb
        self.face = hb.Face(hb.Blob(data))
        self.font = hb.Font(self.face)
        self.font.scale = (self.face.upem, self.face.upem)

    def shape(self, text, lang=None, alt=1):
        hb = self.hb
        buf = hb.Buffer()
        buf.add_str(text)
        buf.direction = "ltr"
        buf.script = "latn"
        buf.language = "tr" if lang == "TRK" else "en"
        buf.cluster_level = hb.BufferClusterLevel.MONOTONE_CHARACTERS
        feats = FEATURES if alt == 1 else {k: alt for k in FEATURES}
        hb.shape(self.font, buf, feats)
        return [(i.codepoint, p.x_advance, p.y_advance, p.x_offset, p.y_offset) for i, p in zip(buf.glyph_infos, buf.glyph_positions)]


def mentioned(prog):
    s = set()

    def visit(l):
        for k in ("mat", "mfs"):
            if l["flag"].get(k):
                s.update(l["flag"][k])
        for r in l["rules"]:
            walk(r)

    def walk(x):
        if isinstance(x, str):
            if x in GLYPHS:
                s.add(x)
        elif isinstance(x, dict):
            if "rules" in x:
                visit(x)
        elif isinstance(x, list):
            for y in x:
                walk(y)

    for l in prog["lookups"]:
        visit(l)
    for l in prog["lookups"]:
        for r in l["rules"]:
            for cn in _markclasses_in(r):
                for glyphs, _a in prog["markclasses"][cn]:
                    s.update(glyphs)
    return s


def _markclasses_in(r):
    out = []
    if r[0] in ("mkbase", "mkmk"):
        out += [cn for _a, cn in r[2]]
    if r[0] == "ctx":
        for _i, n in r[4]:
            for q in n["rules"]:
                out += _markclasses_in(q)
    return out


def alphabet_for(prog, seed, full):
    if full:
        return list(GLYPHS)
    men = mentioned(prog)
    rest = [g for g in BASES if g not in men]
    out = [g for g in BASES if g in men]
    if rest:
        out.append(rest[seed % len(rest)])
    # one mark always (marks interrupt unflagged matches); the second when the program can
    # tell them apart
    out.append("m")
    if "n" in men or any(l["flag"].get("mat") or l["flag"].get("mfs") for l in prog["lookups"]):
        out.append("n")
    return out


def strings(alpha, maxlen):
    for n in range(1, maxlen + 1):
        for t in itertools.product(alpha, repeat=n):
            yield "".join(t)


# ------------------------------------------------------------------------------ units


def describe(prog):
    return [[l["fam"], l["flagname"], l["lang"], l["rules"]] for l in prog["lookups"]]


def fams_key(prog):
    return "+".join(l["fam"] for l in prog["lookups"])


_W_COMMON = (
    "substitution changed a string", "positioning changed a string", "flag changes result",
    "language scope changes result", "alternate index 2 differs", "ligature over skipped mark", "mark attached", "cursive attached",
    "nested lookup applied", "reverse substitution applied", "second glyph of pair skipped",
    "spellings compile to different bytes", "context format 1", "context format 3", "class pair subtable",
)


class ShapeUnit(Unit):
    """programs x spellings x strings: HarfBuzz on compiled tables == reference."""

    chunk = 24

    def __init__(self, nstmt):
        self.nstmt = nstmt
        self.name = "shape-%d" % nstmt
        self.tiers = ("quick", "thorough") if nstmt <= 2 else ("thorough",)
        self.rule = (
            "all abstract programs with exactly %d rule statement(s) from the %s statement pool, every cut into lookups, "
            "lookup flags {none, IgnoreMarks, MarkAttachmentType, UseMarkFilteringSet, RightToLeft(cursive)} on one lookup%s, script/language scopes (language TRK with and without exclude_dflt); "
            "every spelling (plain / lookup blocks / blocks in feature / reversed references / two features in both tag orders / named and range classes / short, full, named values / named anchors / inline vs named contextual lookups / languagesystem forms / inferred GDEF); "
            "every glyph string up to length L over the program's alphabet, languages dflt and TRK, alternate index 1 and 2: "
            "HarfBuzz(glyphs, advances, offsets) == reference interpreter of the abstract rules; usMaxContext == reference; "
            "distinct = program with at least one string whose result differs from the identity"
            % (nstmt, "reduced" if nstmt >= 3 else "full", " (every combination in the thorough tier)" if nstmt == 2 else " (IgnoreMarks only)" if nstmt >= 3 else ""))
        w = list(_W_COMMON)
        if nstmt >= 2:
            w += ["lookup order matters", "ignore rule blocked a match", "explicit subtable break"]
        if nstmt >= 3:
            # the reduced pool of the three-statement programs has no ignore rule, no alternates, no
            # reverse chaining and no language scopes: those witnesses belong to shape-1 / shape-2
            w = [x for x in w if x not in ("language scope changes result", "alternate index 2 differs", "explicit subtable break", "reverse substitution applied", "ignore rule blocked a match")]
        self.required_witnesses = tuple(w)

    def setup(self, tier, seed):
        base_font_bytes()

    def plan(self, tier):
        if self.nstmt >= 3:
            return {"flag_dev": "im", "maxlen": 3, "lang": False}
        if tier == "quick":
            return {"flag_dev": 1, "maxlen": 3, "lang": True}
        return {"flag_dev": 2, "maxlen": 4, "lang": True}

    def cases(self, tier, seed):
        pl = self.plan(tier)
        pool = rule_pool() if self.nstmt <= 2 else reduced_pool()
        full = tier == "thorough" and self.nstmt == 1  # whole 7-glyph alphabet
        for lk in programs(self.nstmt, pool, pl["flag_dev"], pl["lang"]):
            yield {"lk": lk, "maxlen": pl["maxlen"], "seed": seed, "full": full}

    def bounds(self, tier, seed):
        pl = self.plan(tier)
        return {"statements": self.nstmt, "pool": len(rule_pool() if self.nstmt <= 2 else reduced_pool()),
                "string_length": pl["maxlen"], "string_alphabet": "all 7 glyphs" if (tier == "thorough" and self.nstmt == 1) else "glyphs the program mentions + one other base glyph + marks", "flag_deviations": pl["flag_dev"], "language_scopes": pl["lang"],
                "seed_role": "chooses the unmentioned base glyph added to each program's alphabet"}

    def check(self, case, rec):
        prog = make_program(case["lk"])
        alpha = alphabet_for(prog, case.get("seed", 0), case.get("full", False))
        strs = list(strings(alpha, case["maxlen"]))
        adv = _BASE["adv"]
        order = _BASE["order"]
        gid = {g: i for i, g in enumerate(order)}
        interp = otlref.Interp(prog, adv)
        langs = [None, "TRK"] if any(l["lang"] for l in prog["lookups"]) else [None]
        alts = [1, 2] if has_alt(prog) else [1]
        # expected results, computed once per abstract program
        exp = {}
        changed_sub = changed_pos = False
        for lang in langs:
            for alt in alts:
                for s in strs:
                    e = interp.run(list(s), lang=lang, alt=alt)
                    exp[(lang, alt, s)] = [(gid[g], xa, ya, xo, yo) for g, xa, ya, xo, yo in e]
        ident = {s: [(gid[g], adv[g], 0, 0, 0) for g in s] for s in strs}
        for (lang, alt, s), e in exp.items():
            if [x[0] for x in e] != [x[0] for x in ident[s]]:
                changed_sub = True
            elif e != ident[s]:
                changed_pos = True
        self.semantic_witnesses(prog, interp, strs, exp, ident, langs, alts, rec)
        if changed_sub or changed_pos:
            rec.nontrivial(describe(prog))
        if changed_sub:
            rec.witness("substitution changed a string")
        if changed_pos:
            rec.witness("positioning changed a string")
        # states: (program, language, alternate index, string) with a result that differs from
        # the identity; distinct by construction (programs are enumerated without repetition)
        rec.state_n(sum(1 for k, e in exp.items() if e != ident[k[2]]))
        rec.outcome([fams_key(prog), changed_sub, changed_pos])
        want_ctx = otlref.max_context(prog)
        differential = hb_specific(prog)
        if differential:
            rec.count("programs checked differentially: " + differential)
        seen_bytes = {}
        seen_text = set()
        first = None
        for spname, sp in spellings(prog):
            text = Printer(prog, sp).text()
            if text in seen_text:
                continue
            seen_text.add(text)
            try:
                font = compile_fea(text)
            except FeatureLibError as e:
                rec.violation("rejects:%s:%s" % (fams_key(prog), spname), "feaLib rejects a valid file: %s\n%s" % (e, text), observed=str(e))
                continue
            rec.count("spellings compiled")
            self.table_witnesses(font, rec)
            lb = layout_bytes(font)
            bkey = tuple(sorted(lb.items()))
            got_ctx = font["OS/2"].usMaxContext if lb.get("GSUB") or lb.get("GPOS") else None
            if got_ctx is not None and got_ctx != want_ctx:
                rec.violation("maxcontext:%s" % fams_key(prog), "usMaxContext=%r, rules need %r\n%s" % (got_ctx, want_ctx, text), observed=got_ctx, expected=want_ctx)
            if bkey in seen_bytes:
                rec.count("spellings byte-identical to an earlier one")
                continue
            if seen_bytes:
                rec.witness("spellings compile to different bytes")
            seen_bytes[bkey] = spname
            data = tinyfont.to_bytes(font, reorderTables=None)
            sh = Shaper(data)
            got_all = {k: sh.shape(k[2], lang=k[0], alt=k[1]) for k in exp}
            rec.transition(len(exp))
            rec.evals(len(exp))
            if differential:
                if first is None:
                    first = (spname, text, got_all)
                    continue
                want_all, what = first[2], "spelling %s" % first[0]
            else:
                want_all, what = exp, "rules"
            bad = 0
            for k, e in want_all.items():
                got = got_all[k]
                if got != e:
                    bad += 1
                    if bad <= 2:
                        kind = "glyphs" if [x[0] for x in got] != [x[0] for x in e] else "positions"
                        rec.violation(
                            "shape:%s%s:%s:%s%s" % (fams_key(prog), "".join("~%s" % t for t in traits(prog)), "+".join(l["flagname"] for l in prog["lookups"]), kind, ":differential" if differential else ""),
                            "spelling %s, string %r lang=%s alt=%d: HarfBuzz on compiled tables != %s\n%s%s" % (spname, k[2], k[0], k[1], what, text, ("--- other spelling:\n" + first[1]) if differential else ""),
                            observed=names(got, order), expected=names(e, order))
        rec.trace()

    def semantic_witnesses(self, prog, interp, strs, exp, ident, langs, alts, rec):
        lookups = prog["lookups"]
        adv = _BASE["adv"]
        gid = {g: i for i, g in enumerate(_BASE["order"])}

        def run_variant(p2, s, lang=None, alt=1):
            return [(gid[g], xa, ya, xo, yo) for g, xa, ya, xo, yo in otlref.Interp(p2, adv).run(list(s), lang=lang, alt=alt)]

        if len(lookups) >= 2:
            p2 = dict(prog)
            p2["lookups"] = lookups[::-1]
            if any(run_variant(p2, s) != exp[(None, alts[0], s)] for s in strs[:100] if alts[0] == 1):
                rec.witness("lookup order matters")
        if any(l["flagname"] != "0" for l in lookups):
            p2 = dict(prog)
            p2["lookups"] = []
            for l in lookups:
                l2 = dict(l)
                l2["flag"] = dict(FLAGS["0"])
                l2["rules"] = copy.deepcopy(l["rules"])
                for r in l2["rules"]:
                    if r[0] == "ctx":
                        for _i, n in r[4]:
                            n["flag"] = l2["flag"]
                p2["lookups"].append(l2)
            if any(run_variant(p2, s) != exp[(None, 1, s)] for s in strs[:100]):
                rec.witness("flag changes result")
        if len(langs) > 1 and any(exp[(None, 1, s)] != exp[("TRK", 1, s)] for s in strs):
            rec.witness("language scope changes result")
        if len(alts) > 1 and any(exp[(None, 1, s)] != exp[(None, 2, s)] for s in strs):
            rec.witness("alternate index 2 differs")
        for h in interp.hits:
            rec.witness(h)

    def table_witnesses(self, font, rec):
        for tag in ("GSUB", "GPOS"):
            if tag not in font:
                continue
            for lk in font[tag].table.LookupList.Lookup:
                for st in lk.SubTable:
                    cn = type(st).__name__
                    if "Context" in cn:
                        rec.witness("context format %d" % st.Format)
                    if cn == "PairPos" and st.Format == 2:
                        rec.witness("class pair subtable")
                if sum(1 for st in lk.SubTable if type(st).__name__ == "PairPos" and st.Format == 2) > 1:
                    rec.witness("explicit subtable break")


def names(res, order):
    return [(order[g],) + tuple(rest) for g, *rest in res]


def has_alt(prog):
    def v(l):
        if l["fam"] == "alt":
            return True
        return any(r[0] == "ctx" and any(v(n) for _i, n in r[4]) for r in l["rules"])

    return any(v(l) for l in prog["lookups"])


# ------------------------------------------------------------------------------ asFea fixed point


def table_blobs(font):
    """Every table the feature compiler may have written, as comparable bytes (a table that
    cannot be compiled on a font without outlines is compared through its XML dump)."""
    from fontTools.misc.xmlWriter import XMLWriter

    out = {}
    for tag in sorted(font.keys()):
        if tag in ("GlyphOrder", "fvar", "glyf", "loca", "hmtx", "cmap", "maxp", "post"):
            continue
        try:
            out[tag] = font[tag].compile(font)
        except Exception:
            buf = io.StringIO()
            font[tag].toXML(XMLWriter(buf), font)
            out[tag] = "XML:" + buf.getvalue()
    return out


def fixed_point(rec, fkey, text_or_path, glyph_order, mkfont, is_path=False):
    """t1 = asFea(parse(text)); asFea(parse(t1)) == t1; compile(text) == compile(t1)."""
    src = text_or_path if is_path else io.StringIO(text_or_path)
    shown = text_or_path if is_path else text_or_path
    try:
        doc = Parser(src, glyphNames=glyph_order).parse()
    except FeatureLibError as e:
        return "unparsable"
    t1 = doc.asFea()
    rec.transition()
    try:
        t2 = Parser(io.StringIO(t1), glyphNames=glyph_order).parse().asFea()
        rec.transition()
    except FeatureLibError as e:
        rec.violation(fkey + ":asFea-unparsable", "asFea output does not parse: %s\n--- source\n%s\n--- asFea\n%s" % (e, shown, t1), observed=str(e))
        return "violation"
    if t1 != t2:
        rec.violation(fkey + ":asFea-not-fixed-point", "asFea(parse(asFea(parse(t)))) != asFea(parse(t))\n--- source\n%s" % shown, observed=t2, expected=t1)
        return "violation"
    try:
        f0 = mkfont()
        if is_path:
            addOpenTypeFeatures(f0, text_or_path)
        else:
            addOpenTypeFeaturesFromString(f0, text_or_path)
    except FeatureLibError:
        return "uncompilable"
    rec.transition()
    try:
        f1 = mkfont()
        addOpenTypeFeaturesFromString(f1, t1, filename=text_or_path if is_path else None)
        rec.transition()
    except FeatureLibError as e:
        rec.violation(fkey + ":asFea-uncompilable", "source compiles, its asFea form does not: %s\n--- source\n%s\n--- asFea\n%s" % (e, shown, t1), observed=str(e))
        return "violation"
    b0, b1 = table_blobs(f0), table_blobs(f1)
    if b0 != b1:
        diff = sorted(t for t in set(b0) | set(b1) if b0.get(t) != b1.get(t))
        rec.violation(fkey + ":asFea-tables-differ", "tables %s differ between source and its asFea form\n--- source\n%s\n--- asFea\n%s" % (diff, shown, t1), observed=diff)
        return "violation"
    return "ok:" + ",".join(sorted(b0))


class FixedPointGenerated(Unit):
    name = "fixedpoint-generated"
    rule = ("every distinct feature-file text printed for the programs of the shape unit (quick: all spellings of one-statement programs, base/blocks/named-contextual/two-feature spellings of unflagged two-statement programs; thorough: all spellings of unflagged and those four spellings of flagged / language-scoped <=2-statement programs): "
            "every text with a kern feature also with that feature renamed vkrn (vertical reading of one-number value records); t1=asFea(parse(t)) parses, asFea(parse(t1))==t1, and t and t1 compile to byte-identical tables; distinct = text")
    required_witnesses = ("GSUB compared", "GPOS compared", "GDEF compared", "asFea changed the text", "vertical feature compared")
    chunk = 40

    def setup(self, tier, seed):
        base_font_bytes()

    def cases(self, tier, seed):
        pool = rule_pool()
        for lk in programs(1, pool, 1, True):
            yield {"lk": lk, "sp": "all"}
        if tier == "quick":
            for lk in programs(2, pool, 0, False):
                if all(f == "0" for _a, f, _r, _l in lk):
                    yield {"lk": lk, "sp": "some"}
        else:
            for lk in programs(2, pool, 1, True):
                plain = all(f == "0" and l is None for _a, f, _r, l in lk)
                yield {"lk": lk, "sp": "all" if plain else "some"}

    def bounds(self, tier, seed):
        return {"statements": 2, "pool": len(rule_pool())}

    def check(self, case, rec):
        prog = make_program(case["lk"])
        order = _BASE["order"]
        seen = set()
        for spname, sp in spellings(prog):
            if case["sp"] == "some" and spname not in ("base", "blocks", "namedctx", "twofeat"):
                continue
            text = Printer(prog, sp).text()
            if text in seen:
                continue
            seen.add(text)
            r = fixed_point(rec, "fixedpoint:%s:%s" % (fams_key(prog), spname), text, order, lambda: TTFont(io.BytesIO(base_font_bytes())))
            rec.evals(1)
            if "feature kern {" in text:
                # the same rules in a vertical feature: a one-number value record then means a vertical
                # advance, while value records defined at file level keep their horizontal reading
                vtext = text.replace("feature kern {", "feature vkrn {").replace("} kern;", "} vkrn;")
                rv = fixed_point(rec, "fixedpoint:%s:%s:vertical" % (fams_key(prog), spname), vtext, order, lambda: TTFont(io.BytesIO(base_font_bytes())))
                rec.evals(1)
                if rv in ("unparsable", "uncompilable"):
                    rec.violation("rejects:%s:%s:vertical" % (fams_key(prog), spname), "feaLib rejects a valid file (%s)\n%s" % (rv, vtext))
                elif rv.startswith("ok:"):
                    rec.nontrivial(vtext)
                    rec.state(vtext)
                    rec.witness("vertical feature compared")
            if r in ("unparsable", "uncompilable"):
                rec.violation("rejects:%s:%s" % (fams_key(prog), spname), "feaLib rejects a valid file (%s)\n%s" % (r, text))
            elif r.startswith("ok:"):
                rec.nontrivial(text)
                rec.state(text)
                for t in r[3:].split(","):
                    if t in LAYOUT_TAGS:
                        rec.witness(t + " compared")
                rec.witness("asFea changed the text")  # generated texts are never in asFea's layout
        rec.trace()


_BT = {}


def builder_test_module():
    """Tests/feaLib/builder_test.py of the tree under test: the glyph order of its mock font,
    the list of feature files its suite compiles, the axes of its mock variable font."""
    if "m" not in _BT:
        import importlib.util

        path = os.path.join(env.REPO, "Tests", "feaLib", "builder_test.py")
        spec = importlib.util.spec_from_file_location("c11_builder_test", path)
        m = importlib.util.module_from_spec(spec)
        spec.loader.exec_module(m)
        _BT["m"] = m
    return _BT["m"]


def ast_glyph_names(doc):
    from fontTools.feaLib import ast

    names, seen = set(), set()

    def walk(o):
        if id(o) in seen or isinstance(o, (str, int, float, bytes)) or o is None:
            return
        seen.add(id(o))
        if isinstance(o, ast.GlyphName):
            names.add(o.glyph)
        if isinstance(o, ast.GlyphClass):
            for g in o.glyphs:
                if isinstance(g, str):
                    names.add(g)
        if isinstance(o, (list, tuple, set, frozenset)):
            for x in o:
                walk(x)
        elif isinstance(o, dict):
            for x in o.values():
                walk(x)
        elif hasattr(o, "__dict__"):
            if hasattr(o, "glyphSet") and not isinstance(o, ast.MarkClass):
                try:
                    names.update(g for g in o.glyphSet() if isinstance(g, str))
                except Exception:
                    pass
            for x in vars(o).values():
                walk(x)

    walk(doc)
    return names


class FixedPointCorpus(Unit):
    name = "fixedpoint-corpus"
    rule = ("every .fea file under Tests/ of the tree (feaLib/data files on the test-suite's mock glyph order, variable_* ones with its fvar; other files on the glyph names they mention); files that do not parse (expected-failure and include fragments) are outside the domain: "
            "asFea fixed point and byte-identical tables from source and from its asFea form; distinct = file")
    required_witnesses = ("test-suite feature file", "variable font file", "file outside feaLib/data", "GSUB compared", "GPOS compared", "GDEF compared", "name compared", "STAT compared", "BASE compared", "OS/2 compared")
    chunk = 4

    def cases(self, tier, seed):
        import glob

        root = os.path.join(env.REPO, "Tests")
        for p in sorted(glob.glob(os.path.join(root, "**", "*.fea"), recursive=True)):
            yield os.path.relpath(p, env.REPO)

    def bounds(self, tier, seed):
        return {"files": len(list(self.cases(tier, seed)))}

    def check(self, case, rec):
        path = os.path.join(env.REPO, case)
        name = os.path.basename(path)[:-4]
        bt = builder_test_module()
        indata = os.path.dirname(path).endswith(os.path.join("feaLib", "data"))
        if indata:
            def mkfont():
                font = bt.makeTTFont()
                if name.startswith("variable_"):
                    from fontTools.fontBuilder import addFvar

                    font["name"] = newTable("name")
                    addFvar(font, bt.BuilderTest.VARFONT_AXES, [])
                    del font["name"]
                return font
            order = mkfont().getGlyphOrder()
        else:
            try:
                doc = Parser(path, glyphNames=()).parse()
            except FeatureLibError:
                rec.count("skipped: does not parse")
                return
            order = [".notdef"] + sorted(ast_glyph_names(doc) - {".notdef"})

            def mkfont():
                font = TTFont()
                font.setGlyphOrder(order)
                return font
        r = fixed_point(rec, "fixedpoint-corpus:" + name, path, order, mkfont, is_path=True)
        if r == "unparsable":
            if name in bt.BuilderTest.TEST_FEATURE_FILES:
                rec.violation("corpus-unparsable:" + name, "a feature file of the test suite does not parse")
            rec.count("skipped: does not parse")
            return
        rec.trace()
        if r == "uncompilable":
            if name in bt.BuilderTest.TEST_FEATURE_FILES:
                rec.violation("corpus-uncompilable:" + name, "a feature file of the test suite does not compile")
            rec.count("parse-only (does not compile on the mock font)")
            rec.nontrivial()
            return
        if r.startswith("ok:"):
            rec.nontrivial()
            rec.state(case)
            if indata and name in bt.BuilderTest.TEST_FEATURE_FILES:
                rec.witness("test-suite feature file")
            if name.startswith("variable_"):
                rec.witness("variable font file")
            if not indata:
                rec.witness("file outside feaLib/data")
            for t in r[3:].split(","):
                if t:
                    rec.witness(t + " compared")


def units():
    return [ShapeUnit(1), ShapeUnit(2), ShapeUnit(3), FixedPointGenerated(), FixedPointCorpus()]
