"""C08 - instancing a variable font preserves the design space that remains.

fonts x per-axis limit lattice (pin / drop / range / moved default over P = {min, mid-, default,
mid+, max}) x location lattice inside the new limits.  Oracle: the ORIGINAL font at user
location u (pinned axes at their pin) against the INSTANCE at u restricted to the remaining
axes, through fontTools floats (raw gvar points, glyphSet outlines/advances, MVAR metrics) and
through HarfBuzz on the saved bytes (outlines, advances, metrics, shaping of all pairs), within
the rounding budget of the deltas the instance stores.
"""
from mc import env  # noqa: F401
from mc.kernel import Unit, h64

import io
import itertools

from fontTools.ttLib import TTFont
from fontTools.varLib import instancer
from fontTools.varLib.instancer import solver

from oracles import c08_eval as E, c08_fonts

LEVEL = "exploration"
ASSUMPTIONS = [
    "rounding budget, derived from the instancer's documented rounding: the new default value of an item is rounded once (glyf coordinates / hmtx by otRound, MVAR / GPOS / CFF2 defaults by otRound or round) = 0.5; every delta set (gvar tuple, ItemVariationStore region) the INSTANCE stores for the item was rounded once (TupleVariation.roundDeltas) and contributes 0.5 x its scalar at the compared location; with optimize=True every gvar tuple contributes another 0.5 x scalar (IUP tolerance 0.5). Budget = 0.5 + sum_i s_i(u) * (0.5 [+0.5]) + Q",
    "Q (quantisation): limits, tents and avar knots are F2Dot14; the location both fonts evaluate differs by at most r = 2^-14 * (1 + steepest avar segment) per font (8 * 2^-14 for avar-2 partial instances: the instancer's documented residual, _AVAR2_OFFSET_WARN_THRESHOLD); Q = Lipschitz bound of the item (sum |delta| * steepest tent slope, from the stored deltas of each font) * r. On these fonts Q is 0.01..0.3 units",
    "composites: budget of the composite's own offsets + the largest (scaled) component budget; drawn x coordinates additionally carry the left phantom point (glyphSet and HarfBuzz shift by it): + ceil(own budget); values an observer rounds to integers are compared with ceil(budget)",
    "CFF2 operands are relative moves, each rounded on its own: a relative move must agree within the operand budget, an absolute coordinate within (number of moves written so far) x operand budget",
    "glyf advances: the instance's hmtx comes from the gvar phantom points while the original's advance at u comes from HVAR; the original's own disagreement |gvar advance - HVAR advance| at the new default location is added to the budget (a font whose HVAR contradicts gvar is ambiguous, not mis-instanced)",
    "HarfBuzz 12.1 applies MVAR hasc/hdsc/hlgp to hhea when USE_TYPO_METRICS is clear; those three are compared through HarfBuzz only when the original has hhea == OS/2 typo metrics or USE_TYPO_METRICS (where the instancer documents that it keeps them in sync)",
    "shaping alphabet: the first 8 mapped characters, all strings of length 1 and 2, features kern mark mkmk liga calt rvrn rlig ccmp; a location within r of a FeatureVariations condition boundary is not compared for substitutions (either side is legitimate)",
    "outside the domain (counted, not checked): VARC fonts, glyf fonts without gvar, test fragments without hhea/hmtx/cmap; NotImplementedError/ValueError raised for an avar-2 font; the documented ValueError of updateFontNames when STAT lacks an Axis Value for the coordinate",
    "fontTools' reading side (glyf/gvar decoding, supportScalar, iup_delta, VarStoreInstancer, glyphSet) and HarfBuzz are the observers and are trusted (C05/C09 check them); overlap removal is not exercised (overlap flag default); GDEF ligature carets are not observed (uharfbuzz has no API)",
]

_FONTS = {}
_EXCLUDED = []
_META = {}
_ORIG = {}
_OBS = {}


def load_fonts():
    if _FONTS:
        return
    fonts, excluded = c08_fonts.load()
    _FONTS.update(fonts)
    _EXCLUDED.extend(excluded)
    for key, data in fonts.items():
        f = TTFont(io.BytesIO(data), lazy=True)
        _META[key] = {
            "axes": [(a.axisTag, a.minValue, a.defaultValue, a.maxValue) for a in f["fvar"].axes],
            "stat": "STAT" in f,
            "avar2": "avar" in f and getattr(TTFont(io.BytesIO(data))["avar"], "majorVersion", 1) >= 2,
            "nglyphs": len(f.getGlyphOrder()),
        }


def get_orig(key):
    o = _ORIG.get(key)
    if o is None:
        if len(_ORIG) >= 4:
            _ORIG.clear()
            _OBS.clear()
        o = _ORIG[key] = E.Observer(_FONTS[key])
    return o


def orig_obs(key, O, u):
    k = (key, tuple(sorted(u.items())))
    r = _OBS.get(k)
    if r is None:
        if len(_OBS) > 1500:
            _OBS.clear()
        r = _OBS[k] = O.observe(u, want_hb_outlines=not O.cubic_glyf)
    return r


def kind_of(spec):
    ks = sorted({"pin" if r[0] in ("pin", "drop") else ("moved" if r[0] == "triple" else "range") for r in spec.values()})
    return "+".join(ks)


# --------------------------------------------------------------------------- enumeration
def specs_for(key, tier, seed):
    """limit specifications of one font, simplest first: [(spec dict, group)]"""
    axes = _META[key]["axes"]
    n = len(axes)
    full = {a[0]: E.axis_restrictions(*a[1:], extra_forms=(tier == "thorough")) for a in axes}
    simple = {a[0]: E.simple_restrictions(*a[1:]) for a in axes}
    red = {a[0]: E.reduced_restrictions(*a[1:]) for a in axes}
    tags = [a[0] for a in axes]
    out = []
    for t in tags:
        for r in full[t]:
            out.append(({t: r}, "single"))
    if n == 1:
        return out
    pairs = list(itertools.combinations(tags, 2))
    if n == 2:
        t0, t1 = tags
        for r0 in full[t0]:
            for r1 in full[t1]:
                s = {t0: r0, t1: r1}
                if tier == "quick" and not (r0 in simple[t0] and r1 in simple[t1]) and not (r0 in red[t0] and r1 in red[t1]):
                    if (h64([key, s]) + seed) % 4:
                        continue
                out.append((s, "pair"))
        return out
    if n == 3:
        for t0, t1 in pairs:
            R0, R1 = (red[t0], red[t1]) if tier == "quick" else (full[t0], full[t1])
            for r0 in R0:
                for r1 in R1:
                    out.append(({t0: r0, t1: r1}, "pair"))
        if tier == "quick":
            pins = [[["pin", v] for v in sorted({a[1], a[2], a[3]})] for a in axes]
        else:
            pins = [[["pin", p] for p in E.axis_points(*a[1:])] for a in axes]
        for combo in itertools.product(*pins):
            out.append((dict(zip(tags, combo)), "all"))
        R = [red[t] for t in tags]
        for combo in itertools.product(*R):
            s = dict(zip(tags, combo))
            if tier == "quick" and (h64([key, s]) + seed) % 8:
                continue
            if all(r[0] == "pin" for r in combo):
                continue
            out.append((s, "all"))
        return out
    # many axes: deviation 2 with the reduced alphabet; a rotating set of pairs in quick
    if tier == "quick":
        pairs = [p for i, p in enumerate(pairs) if (i + seed) % max(1, len(pairs) // 6) == 0]
    for t0, t1 in pairs:
        for r0 in red[t0]:
            for r1 in red[t1]:
                out.append(({t0: r0, t1: r1}, "pair"))
    for which in (1, 2, 3):  # pin everything: all-min, all-default, all-max
        out.append(({a[0]: ["pin", a[which]] for a in axes}, "all"))
    out.append(({a[0]: (["pin", a[1 + (i + seed) % 3]]) for i, a in enumerate(axes)}, "all"))
    out.append(({a[0]: red[a[0]][(i + seed) % len(red[a[0]])] for i, a in enumerate(axes)}, "all"))
    return out


class Lattice(Unit):
    name = "limits-x-locations"
    rule = ("instantiateVariableFont(font, limits) for every corpus/generated VF in the domain x per-axis restriction over P={min, mid-, default, mid+, max}: drop(None) / pin at each p / every 2-tuple range containing the default / every (lo, newdefault, hi) with a moved default + identity (thorough: also 2-tuple ranges excluding the default); "
            "1 axis: all; 2 axes: full product (quick: every non-moved pair + reduced-alphabet pairs + a seed-rotated quarter of the rest); 3 axes: every single, every pair (quick: reduced alphabet), every all-pinned lattice point, reduced-alphabet triples; >3 axes: every single, reduced-alphabet pairs (quick: a rotating sixth of the axis pairs), pin-all at min/default/max/mixed; "
            "options: optimize=True everywhere, optimize=False, updateFontNames=True and a lazily loaded font (lazy=True) on every single-axis spec (thorough: optimize=False on every spec of fonts with <=2 axes); result saved and reloaded; "
            "at every lattice point of P^axes inside the new limits (thorough: quarter points for <=2 axes; >3 axes: restricted axes x {untouched at default, all-min, all-max, one axis off}): original at u vs instance at u restricted to the remaining axes - raw gvar points+phantoms in floats, glyphSet outline and advance, HarfBuzz outline/h-/v-advance, MVAR-tag metrics (fontTools floats + HarfBuzz), HarfBuzz shaping of all strings of length <=2 over 8 characters (glyph names, positions) within the derived rounding budget; "
            "structure: glyph order kept, fvar triples == requested limits, pinned axes removed, pin-all leaves no fvar/gvar/cvar/HVAR/VVAR/MVAR/avar/VarStore/FeatureVariations, STAT axis values inside the limits; distinct = (font, limits, options)")
    chunk = 6
    required_witnesses = (
        "pin one axis, others remain", "range", "moved default", "pin-all static font", "two or more axes restricted",
        "avar axis restricted, avar kept", "gvar tuple count grew (tent split)", "gvar tuple count shrank (dropped or merged)",
        "IUP-optimised tuple in instance", "composite glyph", "HVAR AdvWidthMap kept", "HVAR direct mapping kept", "MVAR kept", "MVAR dropped",
        "GDEF VarStore kept", "GDEF VarStore dropped", "FeatureVariations kept", "FeatureVariations resolved away", "substitution differs from default at a location",
        "CFF2 partial instance", "CFF2 static instance", "cvar kept", "cvar dropped", "VVAR kept", "variable kerning compared", "variable mark attachment compared",
        "optimize=False", "updateFontNames=True", "lazily loaded font", "avar-2 partial instance", "location off every master (interior)",
    )

    def setup(self, tier, seed):
        load_fonts()

    def bounds(self, tier, seed):
        return {
            "fonts": len(_FONTS),
            "excluded_outside_domain": ["%s: %s" % e for e in _EXCLUDED],
            "lattice": "P = {min, mid-, default, mid+, max}" + (" + quarter points for locations (<=2 axes)" if tier == "thorough" else ""),
            "specs_per_font": {k: len(specs_for(k, tier, seed)) for k in sorted(_FONTS)},
        }

    def cases(self, tier, seed):
        for key in sorted(_FONTS, key=lambda k: (len(_META[k]["axes"]), k)):
            n = len(_META[key]["axes"])
            for spec, group in specs_for(key, tier, seed):
                tf = "t" if tier == "thorough" else "q"
                yield [key, spec, "opt", tf]
                if group == "single" or (tier == "thorough" and n <= 2):
                    yield [key, spec, "noopt", tf]
                if group == "single" and _META[key]["stat"]:
                    yield [key, spec, "names", tf]
                if group == "single":
                    # the same on a lazily loaded font (tables and sub-tables decoded on demand)
                    yield [key, spec, "lazy", tf]

    def shards(self, tier, seed):
        # shard per font so that the cached observations of the original are reused
        cur, block = None, []
        for case in self.cases(tier, seed):
            if case[0] != cur or len(block) >= self.chunk:
                if block:
                    yield block
                cur, block = case[0], []
            block.append(case)
        if block:
            yield block

    # ------------------------------------------------------------------ one case
    def check(self, case, rec):
        key, spec, opt, tf = case
        tier_quarters = tf == "t"
        O = get_orig(key)
        axes = O.axes
        axd = {a[0]: a for a in axes}
        optimize = opt != "noopt"
        names = opt == "names"
        limits = {t: E.restriction_value(r) for t, r in sorted(spec.items())}
        newt = {t: E.restriction_triple(r, *axd[t][1:]) for t, r in spec.items()}
        pinned = {t for t, (a, d, b) in newt.items() if a == b}
        all_pinned = pinned == set(axd)
        kind = kind_of(spec)
        fkind = ("cff2" if O.is_cff2 else "glyf") + ":" + kind
        solver.rebaseTent.cache_clear()

        font = TTFont(io.BytesIO(_FONTS[key]), lazy=True if opt == "lazy" else None)
        if opt == "lazy":
            rec.witness("lazily loaded font")
        try:
            inst = instancer.instantiateVariableFont(font, dict(limits), inplace=True, optimize=optimize, updateFontNames=names)
        except (NotImplementedError, ValueError) as e:
            msg = str(e)
            if names and isinstance(e, ValueError) and ("Cannot update name table" in msg or "Cannot find Axis Value" in msg or "Missing required NameIDs" in msg):
                rec.count("outside domain: updateFontNames documented ValueError (STAT lacks the Axis Value)")
                return
            if O.avar2:
                rec.count("outside domain: avar-2 %s" % type(e).__name__)
                return
            raise
        buf = io.BytesIO()
        inst.save(buf)
        data = buf.getvalue()
        I = E.Observer(data, shape_alphabet=O.alphabet)
        rec.nontrivial()
        self.structure(O, I, spec, newt, pinned, all_pinned, kind, rec, key)
        self.witnesses(O, I, spec, newt, pinned, all_pinned, optimize, names, rec)

        dev_axes = ()
        if len(axes) > 3:
            free = [a[0] for a in axes if a[0] not in newt]
            k = h64([key, sorted(spec)]) % max(1, len(free))
            dev_axes = (free[k:] + free[:k])[: (len(free) if tier_quarters else 2)]
        quarters = tier_quarters and len(axes) <= 2
        # |gvar advance - HVAR advance| of the original at the new default location
        u_nd = {a[0]: (newt[a[0]][1] if a[0] in newt else a[2]) for a in axes}
        dhv = {}
        if O.is_glyf and O.hvar is not None:
            ond = orig_obs(key, O, u_nd)
            for gn in O.order:
                g = ond["glyphs"][gn]
                raw = g["raw"]
                dhv[gn] = abs((raw[-3][0] - raw[-4][0]) - g["ftw"])
        nloc = 0
        ctx = E.LimitCtx(O.font, axes, newt)
        for u in E.locations(axes, newt, quarters, dev_axes):
            self.compare_at(key, O, I, ctx, u, optimize, dhv, fkind, rec, spec)
            nloc += 1
        rec.evals(nloc * len(O.order))

    # ------------------------------------------------------------------ structure
    def structure(self, O, I, spec, newt, pinned, all_pinned, kind, rec, key):
        fo, fi = O.font, I.font
        tag = "%s %s" % (key, spec)
        if I.order != O.order:
            rec.violation("structure:glyph-order", "%s: glyph order changed" % tag)
        if all_pinned:
            left = [t for t in ("fvar", "gvar", "cvar", "HVAR", "VVAR", "MVAR", "avar") if t in fi]
            if left:
                rec.violation("structure:pin-all-leaves-variation-table", "%s: all axes pinned but %s remain" % (tag, left))
            if I.gdef_info is not None or ("GDEF" in fi and getattr(fi["GDEF"].table, "VarStore", None)):
                rec.violation("structure:pin-all-leaves-GDEF-VarStore", "%s: GDEF VarStore left in a static instance" % tag)
            for t in ("GSUB", "GPOS"):
                if t in fi and getattr(fi[t].table, "FeatureVariations", None):
                    rec.violation("structure:pin-all-leaves-FeatureVariations", "%s: %s FeatureVariations left in a static instance" % (tag, t))
            if "CFF2" in fi and getattr(fi["CFF2"].cff.topDictIndex[0], "VarStore", None) is not None:
                rec.violation("structure:pin-all-leaves-CFF2-VarStore", "%s: CFF2 VarStore left in a static instance" % tag)
            if "BASE" in fi and getattr(fi["BASE"].table, "VarStore", None):
                rec.violation("structure:pin-all-leaves-BASE-VarStore", "%s: BASE VarStore left in a static instance" % tag)
        else:
            if "fvar" not in fi:
                rec.violation("structure:fvar-missing", "%s: partial instance has no fvar" % tag)
                return
            got = {a[0]: a for a in I.axes}
            want_tags = [a[0] for a in O.axes if a[0] not in pinned]
            if O.avar2:
                # non-self-contained pinned axes may stay as hidden axes of zero extent
                for t in pinned:
                    if t in got:
                        a = got[t]
                        if not (a[1] == a[2] == a[3] and abs(a[2] - newt[t][1]) <= 1 / 65536):
                            rec.violation("structure:avar2-pinned-axis-range", "%s: pinned axis %s kept with range %s" % (tag, t, a[1:]))
                have = [a[0] for a in I.axes if a[0] not in pinned]
            else:
                have = [a[0] for a in I.axes]
            if have != want_tags:
                rec.violation("structure:fvar-axes:" + kind, "%s: instance axes %s, expected %s" % (tag, have, want_tags))
                return
            for a in O.axes:
                t = a[0]
                if t in pinned:
                    continue
                want = newt.get(t, a[1:])
                g = got[t][1:]
                if any(abs(x - y) > 1 / 65536 for x, y in zip(want, g)):
                    rec.violation("structure:fvar-triple:" + kind, "%s: axis %s is %s in the instance, requested %s" % (tag, t, g, tuple(want)), observed=g, expected=tuple(want))
        if "STAT" in fi and "STAT" in fo:
            st = fi["STAT"].table
            if st.DesignAxisRecord and st.AxisValueArray and st.AxisValueArray.AxisValue:
                daxes = st.DesignAxisRecord.Axis
                for av in st.AxisValueArray.AxisValue:
                    recs = []
                    if av.Format in (1, 3):
                        recs = [(daxes[av.AxisIndex].AxisTag, av.Value)]
                    elif av.Format == 2:
                        recs = [(daxes[av.AxisIndex].AxisTag, av.NominalValue)]
                    elif av.Format == 4:
                        recs = [(daxes[r.AxisIndex].AxisTag, r.Value) for r in av.AxisValueRecord]
                    for t, v in recs:
                        if t in newt and not (newt[t][0] <= v <= newt[t][2]):
                            rec.violation("structure:STAT-axis-value-outside-limits", "%s: STAT keeps %s=%s outside %s" % (tag, t, v, newt[t]))

    def witnesses(self, O, I, spec, newt, pinned, all_pinned, optimize, names, rec):
        fo, fi = O.font, I.font
        kinds = {r[0] for r in spec.values()}
        if pinned and not all_pinned:
            rec.witness("pin one axis, others remain")
        if "range" in kinds:
            rec.witness("range")
        if any(r[0] == "triple" and r[2] != dict((a[0], a[2]) for a in O.axes)[t] for t, r in spec.items()):
            rec.witness("moved default")
        if all_pinned:
            rec.witness("pin-all static font")
            if O.is_cff2:
                rec.witness("CFF2 static instance")
        elif O.is_cff2 and I.cff2_info is not None:
            rec.witness("CFF2 partial instance")
        if len(spec) >= 2:
            rec.witness("two or more axes restricted")
        if not optimize:
            rec.witness("optimize=False")
        if names:
            rec.witness("updateFontNames=True")
        if O.avar2 and not all_pinned:
            rec.witness("avar-2 partial instance")
        if "avar" in fo and "avar" in fi and not O.avar2:
            segs = fo["avar"].segments
            if any(t in newt and t not in pinned and len(segs.get(t, {})) > 3 for t in segs):
                rec.witness("avar axis restricted, avar kept")
        if O.gvar is not None and I.gvar is not None:
            grew = shrank = iup = False
            for gn in O.order:
                no, ni = len(O.gvar.variations.get(gn, [])), len(I.gvar.variations.get(gn, []))
                grew |= ni > no
                shrank |= ni < no
                iup |= any(None in v.coordinates for v in I.gvar.variations.get(gn, []))
            if grew:
                rec.witness("gvar tuple count grew (tent split)")
            if shrank:
                rec.witness("gvar tuple count shrank (dropped or merged)")
            if iup and optimize:
                rec.witness("IUP-optimised tuple in instance")
        if I.hvar is not None:
            rec.witness("HVAR AdvWidthMap kept" if I.hvar.AdvWidthMap else "HVAR direct mapping kept")
        if O.mvar is not None:
            rec.witness("MVAR kept" if I.mvar is not None else "MVAR dropped")
        if O.gdef_info is not None:
            rec.witness("GDEF VarStore kept" if I.gdef_info is not None else "GDEF VarStore dropped")
        if O.fv_bounds:
            rec.witness("FeatureVariations kept" if I.fv_bounds else "FeatureVariations resolved away")
        if "cvar" in fo:
            rec.witness("cvar kept" if "cvar" in fi else "cvar dropped")
        if I.vvar is not None:
            rec.witness("VVAR kept")

    # ------------------------------------------------------------------ one location
    def own_budget(self, O, I, gn, ctx, nlI, optimize, rO, rI):
        """budget of one raw glyf point / phantom / component offset of glyph gn"""
        b = 0.5 + 0.5 * O.gvar_round_weight(gn, ctx)
        if optimize:
            b += 0.5 * I.gvar_iup_weight(gn, nlI)
        return b + O.gvar_lip(gn) * rO + I.gvar_lip(gn) * rI

    def draw_budget(self, O, I, gn, ctx, nlI, optimize, rO, rI, depth=0):
        b = self.own_budget(O, I, gn, ctx, nlI, optimize, rO, rI)
        comps = O.components(gn) if depth < 8 else []
        if comps:
            b += max(sc * self.draw_budget(O, I, c, ctx, nlI, optimize, rO, rI, depth + 1) for c, sc in comps)
        return b

    def compare_at(self, key, O, I, ctx, u, optimize, dhv, fkind, rec, spec):
        oo = orig_obs(key, O, u)
        itags = {a[0] for a in I.axes}
        ui = {t: v for t, v in u.items() if t in itags}
        io_ = I.observe(ui, want_hb_outlines=not O.cubic_glyf)
        nlO, nlI = oo["nloc"], io_["nloc"]
        ctx.at(u, nlO)
        rO = E.F14 * (8.0 if O.avar2 else 1.0 + O.slope)
        rI = E.F14 * (8.0 if O.avar2 else 1.0 + I.slope)
        where = "%s limits=%s at %s" % (key, spec, u)
        if any(v not in (a[1], a[2], a[3]) for a in O.axes for v in [u[a[0]]]):
            rec.witness("location off every master (interior)")

        adv_tol_max = 0
        bop = None
        for gn in O.order:
            a, b = oo["glyphs"][gn], io_["glyphs"][gn]
            # ---- (a) outlines
            if O.is_glyf:
                own = self.own_budget(O, I, gn, ctx, nlI, optimize, rO, rI)
                ra, rb = a["raw"], b["raw"]
                if len(ra) != len(rb):
                    rec.violation("outline:point-count:" + fkind, "%s glyph %r: %d points+phantoms in the original, %d in the instance" % (where, gn, len(ra), len(rb)))
                    continue
                # real points / component offsets, then the phantom points: left.x, right.x
                # (= left + rounded advance: one more rounding), and with vmtx top.y, bottom.y;
                # without vmtx the vertical phantoms are not stored anywhere (not observable)
                has_v = "vmtx" in O.font
                worst, wi = 0.0, None
                for j, (p, q) in enumerate(zip(ra, rb)):
                    k = j - (len(ra) - 4)
                    if k < 0:
                        e = max(abs(p[0] - q[0]), abs(p[1] - q[1]))
                    elif k == 0:
                        e = abs(p[0] - q[0])
                    elif k == 1:
                        e = abs(p[0] - q[0]) - 0.5
                    elif has_v:
                        e = abs(p[1] - q[1]) - (0.5 if k == 3 else 0.0)
                    else:
                        e = 0.0
                    if e > worst:
                        worst, wi = e, j
                if worst > own + 1e-6:
                    i = wi
                    rec.violation("outline:gvar-points:" + fkind, "%s glyph %r: point %d of %d (the last 4 are phantoms) is %s in the original and %s in the instance (fontTools floats): off by %.3f, budget %.3f" % (where, gn, i, len(ra), ra[i], rb[i], worst, own),
                                  observed=rb[i], expected=ra[i])
                toly = self.draw_budget(O, I, gn, ctx, nlI, optimize, rO, rI) + 1e-6
                tolx = toly + E.int_tol(own)
                if O.components(gn):
                    rec.witness("composite glyph")
                for obs_name, k, cls in (("fontTools glyphSet", "ftraw", "glyphset"), ("HarfBuzz", "hbraw", "harfbuzz")):
                    if k not in a or k not in b:
                        continue
                    d = E.stream_abs_diff(a[k], b[k], tolx)
                    if d is None:
                        rec.violation("outline:%s-structure:%s" % (cls, fkind), "%s glyph %r (%s): the drawn point structure differs: %s vs %s points" % (where, gn, obs_name, [len(c) for c in a[k]], [len(c) for c in b[k]]))
                    elif d[0] > tolx or d[1] > toly:
                        rec.violation("outline:%s:%s" % (cls, fkind), "%s glyph %r (%s): drawn coordinates differ by dx=%.3f dy=%.3f (budget %.3f / %.3f)" % (where, gn, obs_name, d[0], d[1], tolx, toly))
            elif O.is_cff2:
                if bop is None:
                    bop = 0.5 + (0.5 * O.cff2_info.max_weight(ctx, all_regions=True) if O.cff2_info else 0.0)
                bg = bop + O.cff2_lip(gn) * rO + I.cff2_lip(gn) * rI + 1e-6
                for obs_name, k in (("fontTools glyphSet", "ftraw"), ("HarfBuzz", "hbraw")):
                    if k not in a or k not in b:
                        continue
                    d = E.cff_stream_diff(a[k], b[k])
                    if d is None:
                        # the rounded moves of a contour need not sum to zero any more: its
                        # last point may miss the start by the accumulated budget
                        n = sum(len(c) for c in a[k]) + 1
                        d = E.cff_stream_diff(a[k], b[k], eps=bg * n)
                        rec.count("CFF2 contour closes differently after rounding: closing points matched with the accumulated budget")
                    if d is None:
                        rec.violation("outline:cff2-structure:" + fkind, "%s glyph %r (%s): the drawn point structure differs: %s vs %s points" % (where, gn, obs_name, [len(c) for c in a[k]], [len(c) for c in b[k]]))
                        continue
                    rel, acc = d
                    if rel > bg:
                        rec.violation("outline:cff2-move:" + fkind, "%s glyph %r (%s): a relative move differs by %.3f, operand budget %.3f" % (where, gn, obs_name, rel, bg))
                    elif acc > bg:
                        rec.violation("outline:cff2-accumulated:" + fkind, "%s glyph %r (%s): an absolute coordinate is off by %.3f x moves written, operand budget %.3f" % (where, gn, obs_name, acc, bg))
            # ---- advances
            badv = self.adv_budget(O, I, gn, "h", ctx, nlI, optimize, rO, rI, dhv)
            if abs(a["ftw"] - b["ftw"]) > badv + 1e-6:
                rec.violation("advance:glyphset:" + fkind, "%s glyph %r: fontTools width %.3f in the original, %.3f in the instance (budget %.3f)" % (where, gn, a["ftw"], b["ftw"], badv), observed=b["ftw"], expected=a["ftw"])
            t = E.int_tol(badv)
            adv_tol_max = max(adv_tol_max, t)
            if abs(a["hbw"] - b["hbw"]) > t:
                rec.violation("advance:harfbuzz:" + fkind, "%s glyph %r: HarfBuzz advance %s in the original, %s in the instance (budget %.3f)" % (where, gn, a["hbw"], b["hbw"], badv), observed=b["hbw"], expected=a["hbw"])
            if "hbv" in a and "hbv" in b:
                bv = self.adv_budget(O, I, gn, "v", ctx, nlI, optimize, rO, rI, {})
                if abs(a["hbv"] - b["hbv"]) > E.int_tol(bv):
                    rec.violation("advance:harfbuzz-vertical:" + fkind, "%s glyph %r: HarfBuzz vertical advance %s in the original, %s in the instance (budget %.3f)" % (where, gn, a["hbv"], b["hbv"], bv))

        # ---- (b) MVAR-driven metrics
        for tag, v in oo["metrics"].items():
            w = io_["metrics"].get(tag)
            if w is None:
                rec.violation("metrics:field-missing", "%s: %s missing in the instance" % (where, tag))
                continue
            bm = 0.0
            if tag in oo["mvar_tags"]:
                vo = oo["mvar_tags"][tag]
                bm = 0.5 + 0.5 * O.mvar_info.item_weight(vo, ctx) + O.mvar_info.item_lip(vo) * rO
                if tag in io_["mvar_tags"] and I.mvar_info:
                    bm += I.mvar_info.item_lip(io_["mvar_tags"][tag]) * rI
            if abs(v - w) > bm + 1e-6:
                rec.violation("metrics:mvar:" + fkind, "%s: %s is %.3f in the original, %.3f in the instance (budget %.3f)" % (where, tag, v, w, bm), observed=w, expected=v)
            if tag in ("hasc", "hdsc", "hlgp") and not O.typo_synced:
                continue
            if tag in oo["mvar_tags"] and not O.mvar_sorted:
                rec.count("MVAR value records of the original not sorted by tag (HarfBuzz cannot look them up): HarfBuzz metric not compared")
                continue
            hv, hw = oo["hbmetrics"].get(tag), io_["hbmetrics"].get(tag)
            if hv is not None and hw is not None and abs(hv - hw) > E.int_tol(bm):
                rec.violation("metrics:harfbuzz:" + fkind, "%s: HarfBuzz metric %s is %s in the original, %s in the instance (budget %.3f)" % (where, tag, hv, hw, bm), observed=hw, expected=hv)

        # ---- (c) positions and (d) substitutions through shaping
        if oo["shape"]:
            near = any(abs(nlO.get(t, 0.0) - bd) <= 2 * rO for t, bds in O.fv_bounds.items() for bd in bds)
            bv = 0.0
            if O.gdef_info is not None:
                bv = 0.5 + 0.5 * O.gdef_info.max_weight(ctx) + O.gdef_info.max_lip() * rO
                if I.gdef_info is not None:
                    bv += I.gdef_info.max_lip() * rI
            tolp = adv_tol_max + max(2, O.n_gpos_lookups) * E.int_tol(bv)
            base = orig_obs(key, O, {a[0]: a[2] for a in O.axes})["shape"] if O.fv_bounds else None
            for text, ra in oo["shape"].items():
                rb = io_["shape"].get(text)
                if rb is None or [x[:2] for x in ra] != [x[:2] for x in rb]:
                    if near:
                        rec.count("location on a FeatureVariations condition boundary: substitution not compared")
                        continue
                    cls = "shaping:glyphs:" + fkind
                    if E.fv_pinned_shape(O.font, ctx.status, ctx.n_d):
                        cls = "shaping:glyphs:feature-variation-record-on-pinned-axes-holds-while-other-records-remain"
                    rec.violation(cls, "%s text %r: original shapes to %s, instance to %s" % (where, text, [x[0] for x in ra], [x[0] for x in (rb or [])]),
                                  observed=[x[0] for x in (rb or [])], expected=[x[0] for x in ra])
                    continue
                if base is not None and [x[0] for x in base[text]] != [x[0] for x in ra]:
                    rec.witness("substitution differs from default at a location")
                for x, y in zip(ra, rb):
                    if any(abs(x[i] - y[i]) > tolp for i in (2, 3, 4, 5)):
                        clsp = "shaping:positions:" + fkind
                        if "GPOS" in O.font and getattr(O.font["GPOS"].table, "FeatureVariations", None) and E.fv_pinned_shape(O.font, ctx.status, ctx.n_d):
                            clsp = "shaping:positions:feature-variation-record-on-pinned-axes-holds-while-other-records-remain"
                        rec.violation(clsp, "%s text %r glyph %s: (xadv, yadv, xoff, yoff) %s in the original, %s in the instance (tolerance %d)" % (where, text, x[0], x[2:], y[2:], tolp), observed=y[2:], expected=x[2:])
                        break
                if O.gdef_info is not None and len(ra) == 2:
                    if ra[1][4] or ra[1][5]:
                        rec.witness("variable mark attachment compared")
                    elif ra[0][2] != oo["glyphs"][ra[0][0]]["hbw"]:
                        rec.witness("variable kerning compared")

    def adv_budget(self, O, I, gn, which, ctx, nlI, optimize, rO, rI, dhv):
        tbl_o = O.hvar if which == "h" else O.vvar
        tbl_i = I.hvar if which == "h" else I.vvar
        info_o = O.hvar_info if which == "h" else O.vvar_info
        info_i = I.hvar_info if which == "h" else I.vvar_info
        mapname = "AdvWidthMap" if which == "h" else "AdvHeightMap"
        if tbl_o is not None:
            def vidx(obs, tbl):
                m = getattr(tbl, mapname)
                return m.mapping[gn] if m else obs.font.getGlyphID(gn)

            vo = vidx(O, tbl_o)
            b = 0.5 + 0.5 * info_o.item_weight(vo, ctx) + info_o.item_lip(vo) * rO + dhv.get(gn, 0.0)
            if tbl_i is not None:
                b += info_i.item_lip(vidx(I, tbl_i)) * rI
            return b
        if O.is_glyf and O.gvar is not None:
            # advance = right phantom - left phantom: one rounding of the difference (hmtx) and
            # two rounded (and IUP-inferred) deltas per tuple
            own = self.own_budget(O, I, gn, ctx, nlI, optimize, rO, rI)
            return 0.5 + 2 * (own - 0.5)
        return 0.0


def units():
    return [Lattice()]
