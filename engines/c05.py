"""C05 - glyph outlines and advances reported are the font's true ones.

Every glyph of every corpus font with glyf / CFF / CFF2 outlines and of generated variable
fonts, at every point of a location lattice, drawn through fontTools' glyph set and through
HarfBuzz (independent implementation); outlines canonicalised by oracles.geom.
"""
from mc import env  # noqa: F401
from mc.kernel import Unit

import io
import itertools

from fontTools.ttLib import TTFont

from oracles import corpus, geom, hbridge, tinyfont

LEVEL = "exploration"
ASSUMPTIONS = [
    "HarfBuzz 12.1 (uharfbuzz 0.52) is the independent meaning of 'true outline/advance'; it quantises normalised coordinates to 2.14, hence a 0.1-unit tolerance under variation",
    "cubic-glyf (dot-cubic.ttf) and VARC glyphs are excluded: this HarfBuzz build does not draw them",
    "hinting instructions are not executed by either side",
]

EXCLUDE = ("dot-cubic", "varc-", "VARC")
# malformed corpus data, outside the property's domain ("font's true outline" is undefined):
# CFF2 charstrings that carry a CFF-style width operand (3 arguments to the first rmoveto)
EXCLUDE_GLYPHS = (("master_cff2_input/TestCFF2_", "dollar"),)
# a face must have the tables every OpenType consumer needs to report metrics; several corpus
# TTX files are deliberately incomplete "sparse masters" (no hhea / hmtx)
REQUIRED = ("head", "hhea", "hmtx", "maxp")

_FONTS = {}  # key -> sfnt bytes
_OPEN = {}


def _sfnt_bytes(data, idx):
    """HarfBuzz reads sfnt only: unwrap WOFF/WOFF2 and TTC members."""
    if data[:4] in (b"wOFF", b"wOF2"):
        f = TTFont(io.BytesIO(data))
        f.flavor = None
        buf = io.BytesIO()
        f.save(buf, reorderTables=None)
        return buf.getvalue()
    return data


def sparse_gvar_font():
    """TrueType VF (wght, wdth) whose gvar tuples are written by hand with EVERY None-mask of the
    points of two shapes: a square (pairs of points share x or y: the 'same coordinate, different
    delta' branch of delta inference) and a two-contour shape; two tuples per glyph, so that one is
    applied on top of the other.  Nothing is optimised away by the library."""
    from fontTools.fontBuilder import FontBuilder
    from fontTools.pens.ttGlyphPen import TTGlyphPen
    from fontTools.ttLib.tables.TupleVariation import TupleVariation

    shapes = {
        "sq": [[(0, 0), (100, 0), (100, 100), (0, 100)]],
        "two": [[(0, 0), (60, 0), (200, 0), (300, 100)], [(20, 20), (40, 20), (30, 60)]],
    }
    names, glyphs, variations = [".notdef"], {}, {}
    pen = TTGlyphPen(None)
    glyphs[".notdef"] = pen.glyph()
    for sname, contours in shapes.items():
        npts = sum(len(c) for c in contours)
        for mask in range(1, 1 << npts):
            if npts > 4 and bin(mask).count("1") not in (1, 2, npts - 1, npts) and mask % 5:
                continue
            gn = "%s%d" % (sname, mask)
            names.append(gn)
            pen = TTGlyphPen(None)
            for c in contours:
                pen.moveTo(c[0])
                for pt in c[1:]:
                    pen.lineTo(pt)
                pen.closePath()
            glyphs[gn] = pen.glyph()
            c1 = [((7 * i + 11) % 40 - 15, (5 * i + 3) % 30 - 10) if mask >> i & 1 else None for i in range(npts)] + [None] * 4
            m2 = ((mask << 1) | (mask >> (npts - 1))) & ((1 << npts) - 1)
            c2 = [((3 * i + 2) % 25 - 8, (9 * i + 4) % 35 - 20) if m2 >> i & 1 else None for i in range(npts)] + [(0, 0), (13, 0), (0, 0), (0, 0)]
            variations[gn] = [TupleVariation({"wght": (0.0, 1.0, 1.0)}, c1), TupleVariation({"wdth": (-1.0, -1.0, 0.0)}, c2),
                              TupleVariation({"wght": (0.0, 1.0, 1.0), "wdth": (-1.0, -1.0, 0.0)}, c1[:npts][::-1] + [None] * 4)]
    fb = FontBuilder(1000, isTTF=True)
    fb.setupGlyphOrder(names)
    fb.setupCharacterMap({0x4E00 + i: n for i, n in enumerate(names[1:])})
    fb.setupGlyf(glyphs)
    fb.setupHorizontalMetrics({n: (600, getattr(glyphs[n], "xMin", 0)) for n in names})
    fb.setupHorizontalHeader(ascent=800, descent=-200)
    fb.setupNameTable({"familyName": "Sparse", "styleName": "Regular"})
    fb.setupOS2()
    fb.setupFvar([("wght", 100, 400, 900, "Weight"), ("wdth", 50, 100, 200, "Width")], [])
    fb.setupGvar(variations)
    fb.setupPost()
    buf = io.BytesIO()
    fb.font.save(buf)
    return buf.getvalue()


def load_fonts():
    if _FONTS:
        return
    _FONTS["tiny:sparse-gvar"] = (sparse_gvar_font(), 0)
    for name, data, idx in corpus.binary_faces():
        if any(x in name for x in EXCLUDE):
            continue
        try:
            f = TTFont(io.BytesIO(data), fontNumber=idx, lazy=True)
        except Exception:
            continue
        if not ("glyf" in f or "CFF " in f or "CFF2" in f) or "VARC" in f or not all(t in f for t in REQUIRED):
            continue
        _FONTS["bin:" + name] = (_sfnt_bytes(data, idx), max(idx, 0))
    for name, data in corpus.compiled_ttx():
        if any(x in name for x in EXCLUDE):
            continue
        f = TTFont(io.BytesIO(data), lazy=True)
        if not ("glyf" in f or "CFF " in f or "CFF2" in f) or "VARC" in f or not all(t in f for t in REQUIRED):
            continue
        _FONTS["ttx:" + name] = (data, 0)
    for pname, spec in tinyfont.pool().items():
        _FONTS["tiny:" + pname] = (tinyfont.build_bytes(spec), 0)
    # composite whose lsb differs from xMin (rasterizers shift the outline by lsb - xMin)
    f = tinyfont.build(tinyfont.pool()["ttf-mixed"])
    adv, _ = f["hmtx"].metrics["comp"]
    f["hmtx"].metrics["comp"] = (adv, 0)
    adv, lsb = f["hmtx"].metrics["b"]
    f["hmtx"].metrics["b"] = (adv, lsb + 13)
    _FONTS["tiny:lsb-shift"] = (tinyfont.to_bytes(f), 0)
    _FONTS["tiny:anchor-points"] = (anchor_point_font(), 0)
    _FONTS["tiny:cff2-private-vsindex"] = (private_vsindex_font(), 0)
    _FONTS["tiny:transformed-components"] = (transformed_component_font(), 0)
    for name, data in t2_operator_fonts():
        _FONTS[name] = (data, 0)


def private_vsindex_font():
    """CFF2 VF whose Private DICT names a default vsindex other than 0 and whose charstrings carry no
    vsindex operator: item variation data #1 is the font's real data, #0 lists the same regions in the
    reverse order (so reading blends against #0 swaps the masters)."""
    import copy

    f = tinyfont.build(tinyfont.pool()["vf-cff2-1axis"])
    f = tinyfont.reload(f)
    top = f["CFF2"].cff.topDictIndex[0]
    vs = top.VarStore.otVarStore
    assert len(vs.VarData) == 1 and len(vs.VarData[0].VarRegionIndex) >= 2
    for g in f.getGlyphOrder():
        top.CharStrings[g].decompile()
        assert "vsindex" not in top.CharStrings[g].program
    real = vs.VarData[0]
    decoy = copy.deepcopy(real)
    decoy.VarRegionIndex = list(reversed(real.VarRegionIndex))
    vs.VarData = [decoy, real]
    vs.VarDataCount = 2
    for fd in top.FDArray:
        fd.Private.vsindex = 1
    data = tinyfont.to_bytes(f)
    back = TTFont(io.BytesIO(data))
    assert back["CFF2"].cff.topDictIndex[0].FDArray[0].Private.vsindex == 1
    return data


def anchor_point_font():
    """Composite whose second component is positioned by point matching (ARGS_ARE_XY_VALUES
    clear): component point 0 is aligned with parent point 2."""
    f = tinyfont.build({"kind": "ttf", "shapes": "mixed", "composite": True})
    comp = f["glyf"]["comp"]
    c = comp.components[1]
    del c.x, c.y
    c.firstPt, c.secondPt = 2, 0
    c.flags &= ~0x0002
    return tinyfont.to_bytes(f)


def transformed_component_font():
    from fontTools.ttLib.tables._g_l_y_f import GlyphComponent, Glyph

    f = tinyfont.build({"kind": "ttf", "shapes": "mixed", "glyphs": ["a", "b", "c", "d", "e", "f"]})
    glyf = f["glyf"]
    order = f.getGlyphOrder()
    variants = [
        ("t_scale", [[0.5, 0], [0, 0.5]], 0),
        ("t_xy", [[1.25, 0], [0, -0.75]], 0),
        ("t_2x2", [[0.75, 0.25], [-0.5, 1.0]], 0),
        ("t_2x2_scaled_offset", [[0.75, 0.25], [-0.5, 1.0]], 0x0800),
        ("t_2x2_unscaled_offset", [[1.5, 0.5], [-0.5, 1.0]], 0x1000),
        ("t_round", [[0.5, 0], [0, 0.5]], 0x0004),
    ]
    for i, (name, t, flags) in enumerate(variants):
        g = Glyph()
        g.numberOfContours = -1
        g.components = []
        for j, base in enumerate(("a", "c")):
            c = GlyphComponent()
            c.glyphName = base
            c.x, c.y = 35 * j + 7 * i, -20 * j + 3
            c.flags = flags
            if j == 1:
                c.transform = t
            g.components.append(c)
        # nested: a composite of a composite
        if i == len(variants) - 1:
            c = GlyphComponent()
            c.glyphName = "t_2x2"
            c.x, c.y = 100, 50
            c.flags = 0
            c.transform = [[0.5, 0], [0, 0.5]]
            g.components.append(c)
        glyf[name] = g
        if name not in order:
            order.append(name)
        f["hmtx"].metrics[name] = (600, 0)
    f.setGlyphOrder(list(glyf.glyphOrder))
    data = tinyfont.to_bytes(f)
    # make lsb consistent with xMin so that no lsb shift is involved here
    f = TTFont(io.BytesIO(data))
    for name, _t, _fl in variants:
        f["hmtx"].metrics[name] = (600, f["glyf"][name].xMin)
    return tinyfont.to_bytes(f)


def t2_programs():
    """One glyph per Type 2 path operator and argument-count form (operands are distinct small
    integers so that every argument position matters), incl. flex variants, multi-contour
    programs, hint operators with masks, and subroutine calls."""
    progs = {}
    vals = [13, -7, 21, 9, -17, 5, 31, -11, 19, 3, -23, 7, 29, -5, 15, 11, -13, 23, 6, -9, 17, 4, -19, 8, 27, -3]

    def take(n, off=0):
        return [vals[(off + i) % len(vals)] for i in range(n)]

    def add(name, body):
        progs[name] = [50, 60, "rmoveto"] + body + ["endchar"]

    for n in (1, 2, 3):
        add("rlineto%d" % n, take(2 * n) + ["rlineto"])
    for n in (1, 2, 3, 4, 5):
        add("hlineto%d" % n, take(n) + ["hlineto"])
        add("vlineto%d" % n, take(n, 3) + ["vlineto"])
    for n in (1, 2):
        add("rrcurveto%d" % n, take(6 * n) + ["rrcurveto"])
    for n in (4, 5, 8, 9):
        add("hhcurveto%d" % n, take(n) + ["hhcurveto"])
        add("vvcurveto%d" % n, take(n, 2) + ["vvcurveto"])
    for n in (4, 5, 8, 9, 12, 13):
        add("hvcurveto%d" % n, take(n) + ["hvcurveto"])
        add("vhcurveto%d" % n, take(n, 5) + ["vhcurveto"])
    add("rcurveline8", take(8) + ["rcurveline"])
    add("rcurveline14", take(14) + ["rcurveline"])
    add("rlinecurve8", take(8) + ["rlinecurve"])
    add("rlinecurve10", take(10) + ["rlinecurve"])
    add("flex", take(12) + [50, "flex"])
    add("hflex", take(7) + ["hflex"])
    add("hflex1", take(9) + ["hflex1"])
    add("flex1_dx", [40, 3, 30, 2, 20, 1, 25, -2, 35, 4, 17, "flex1"])
    add("flex1_dy", [3, 40, 2, 30, 1, 20, -2, 25, 4, 35, 17, "flex1"])
    # every sign combination of (dominant sum, minor sum), and the |dx| == |dy| tie
    add("flex1_dx_minorneg", [40, -3, 30, -2, 20, -1, 25, 2, 35, -14, 17, "flex1"])
    add("flex1_dx_domneg", [-40, 3, -30, 2, -20, 1, -25, -2, -35, 4, -17, "flex1"])
    add("flex1_dx_bothneg", [-40, -3, -30, -2, -20, -1, -25, 2, -35, -4, -17, "flex1"])
    add("flex1_dy_minorneg", [-3, 40, -2, 30, -1, 20, 2, 25, -14, 35, 17, "flex1"])
    add("flex1_dy_domneg", [3, -40, 2, -30, 1, -20, -2, -25, 4, -35, -17, "flex1"])
    add("flex1_dy_bothneg", [-3, -40, -2, -30, -1, -20, 2, -25, -4, -35, -17, "flex1"])
    add("flex1_tie", [10, 20, 20, 10, 30, 30, 10, 5, 5, 10, 17, "flex1"])
    add("flex1_tie_neg", [10, -20, 20, -10, 30, -30, 10, -5, 5, -10, 17, "flex1"])
    add("hflex_neg", [-x for x in take(7)] + ["hflex"])
    add("hflex1_neg", [-x for x in take(9)] + ["hflex1"])
    add("flex_neg", [-x for x in take(12)] + [50, "flex"])
    # all-negated operands for every multi-form operator (sign handling of each argument)
    for n in (4, 5, 8, 9, 12, 13):
        add("hvcurveto%dneg" % n, [-x for x in take(n, 1)] + ["hvcurveto"])
        add("vhcurveto%dneg" % n, [-x for x in take(n, 4)] + ["vhcurveto"])
    for n in (4, 5, 8, 9):
        add("hhcurveto%dneg" % n, [-x for x in take(n, 6)] + ["hhcurveto"])
        add("vvcurveto%dneg" % n, [-x for x in take(n, 7)] + ["vvcurveto"])
    progs["hmoveto"] = [70, "hmoveto", 30, 40, -30, "hlineto", -25, "hmoveto", 10, 20, "rlineto", "endchar"]
    progs["vmoveto"] = [70, "vmoveto", 30, 40, -30, "vlineto", 45, "vmoveto", 10, 20, 5, 5, "rlineto", "endchar"]
    progs["twocontours"] = [10, 10, "rmoveto", 100, 0, 0, 100, -100, 0, "rlineto", 200, 50, "rmoveto", 10, 90, 40, 20, 30, -60, "rrcurveto", "endchar"]
    progs["hinted"] = [20, 30, "hstem", 40, 20, "vstem", 50, 60, "rmoveto"] + take(4) + ["rlineto", "endchar"]
    progs["hintmask"] = [20, 30, 100, 20, "hstemhm", 40, 20, 60, 10, "hintmask", b"\xf0", 50, 60, "rmoveto"] + take(4) + ["rlineto", "hintmask", b"\x50"] + take(2, 7) + ["rlineto", "endchar"]
    progs["width_rmoveto"] = [77, 50, 60, "rmoveto"] + take(4) + ["rlineto", "endchar"]
    progs["width_hmoveto"] = [77, 50, "hmoveto"] + take(4) + ["rlineto", "endchar"]
    progs["width_endchar"] = [77, "endchar"]
    progs["fractional"] = [50.5, 60.25, "rmoveto", 10.5, 20.75, -5.25, 7.5, "rlineto", "endchar"]
    progs["bigints"] = [1131, -1131, "rmoveto", 1132, -1132, 20000, -108, "rlineto", 107, 108, "rlineto", "endchar"]
    return progs


def t2_operator_fonts():
    from fontTools.fontBuilder import FontBuilder
    from fontTools.misc.psCharStrings import T2CharString

    progs = t2_programs()
    names = [".notdef"] + sorted(progs)
    out = []
    fb = FontBuilder(1000, isTTF=False)
    fb.setupGlyphOrder(names)
    fb.setupCharacterMap({0x100 + i: n for i, n in enumerate(names[1:])})
    cs = {".notdef": T2CharString(program=["endchar"])}
    for n, p in progs.items():
        cs[n] = T2CharString(program=list(p))
    fb.setupCFF("T2Ops", {"FullName": "T2 Ops"}, cs, {"defaultWidthX": 500, "nominalWidthX": 400})
    fb.setupHorizontalMetrics({n: (477 if n.startswith("width_") else 500, 0) for n in names})
    fb.setupHorizontalHeader(ascent=800, descent=-200)
    fb.setupNameTable({"familyName": "T2Ops", "styleName": "Regular"})
    fb.setupOS2()
    fb.setupPost()
    out.append(("tiny:t2-operators-cff", tinyfont.to_bytes(fb.font)))
    # the same programs as CFF2 (no widths, no endchar, no hint-less width forms)
    fb = FontBuilder(1000, isTTF=False)
    names2 = [".notdef"] + sorted(n for n in progs if not n.startswith("width_"))
    fb.setupGlyphOrder(names2)
    fb.setupCharacterMap({0x100 + i: n for i, n in enumerate(names2[1:])})
    cs = {".notdef": T2CharString(program=[])}
    for n in names2[1:]:
        cs[n] = T2CharString(program=[t for t in progs[n] if t != "endchar"])
    fb.setupCFF2(cs)
    fb.setupHorizontalMetrics({n: (500, 0) for n in names2})
    fb.setupHorizontalHeader(ascent=800, descent=-200)
    fb.setupNameTable({"familyName": "T2Ops", "styleName": "Regular"})
    fb.setupOS2()
    fb.setupPost()
    out.append(("tiny:t2-operators-cff2", tinyfont.to_bytes(fb.font)))
    return out


def get_open(key):
    o = _OPEN.get(key)
    if o is None:
        data, idx = _FONTS[key]
        font = TTFont(io.BytesIO(data), fontNumber=idx if data[:4] == b"ttcf" else -1)
        hbf = hbridge.HBFont(data, idx)
        if len(_OPEN) > 40:
            _OPEN.clear()
        o = _OPEN[key] = (font, hbf)
    return o


def axis_lattice(font, tier):
    """Per-axis user-space values: min, mid-, default, mid+, max, below min, above max, avar
    knots (mapped back to user space) and knot midpoints."""
    axes = font["fvar"].axes
    per_axis = []
    for a in axes:
        lo, df, hi = a.minValue, a.defaultValue, a.maxValue
        vals = [df, lo, hi, (lo + df) / 2, (df + hi) / 2, lo - (hi - lo) * 0.25 - 1, hi + (hi - lo) * 0.25 + 1]
        if "avar" in font:
            seg = font["avar"].segments.get(a.axisTag, {})
            knots = sorted(seg)
            users = []
            for k in knots:
                u = df + k * (hi - df) if k >= 0 else df + k * (df - lo)
                users.append(u)
            vals += users
            vals += [(users[i] + users[i + 1]) / 2 for i in range(len(users) - 1)]
        seen, out = set(), []
        for v in vals:
            if v not in seen:
                seen.add(v)
                out.append(v)
        per_axis.append((a.axisTag, out))
    return per_axis


def locations(font, tier):
    """Deviation-bounded product over axes: quick = at most 1 axis away from default (plus the
    all-min/all-max corners), thorough = full product for <= 3 axes, deviation 2 beyond."""
    per_axis = axis_lattice(font, tier)
    n = len(per_axis)
    locs = [{}]
    if tier == "quick":
        k = 1
    else:
        k = n if n <= 3 else 2
    for dev in range(1, k + 1):
        for axes_idx in itertools.combinations(range(n), dev):
            for combo in itertools.product(*[per_axis[i][1][1:] for i in axes_idx]):
                locs.append({per_axis[i][0]: v for i, v in zip(axes_idx, combo)})
    if n >= 2:
        locs.append({t: vals[1] for t, vals in per_axis})
        locs.append({t: vals[2] for t, vals in per_axis})
    # dedupe
    out, seen = [], set()
    for l in locs:
        key = tuple(sorted(l.items()))
        if key not in seen:
            seen.add(key)
            out.append(l)
    return out


class Outlines(Unit):
    name = "outlines-vs-harfbuzz"
    rule = ("every glyph of every corpus face (binary + compiled TTX, all container flavours) and of the tinyfont pool (incl. composites with lsb != xMin, transformed/nested components, point-matched components) "
            "x location lattice per axis {default, min, max, mid-, mid+, below-min, above-max, avar knots, knot midpoints} (quick: one axis off default + extreme corners; thorough: full product for <=3 axes): "
            "fontTools glyphSet draw + width vs HarfBuzz draw_glyph + h_advance; distinct = (font, location, glyph) with a non-empty outline")
    chunk = 1
    required_witnesses = ("t2 flex operators", "composite glyph", "cff glyph", "cff2 blended glyph", "gvar glyph", "avar font", "out-of-range location", "HVAR advance", "quadratic implied points")

    def setup(self, tier, seed):
        load_fonts()

    def cases(self, tier, seed):
        for key in sorted(_FONTS):
            font, _ = get_open(key)
            n = len(font.getGlyphOrder())
            locs = locations(font, tier) if "fvar" in font else [{}]
            step = 400 if len(locs) == 1 else max(20, 2000 // len(locs))
            for loc in locs:
                for lo in range(0, n, step):
                    yield [key, loc, lo, min(n, lo + step)]
        _OPEN.clear()

    def bounds(self, tier, seed):
        return {"fonts": len(_FONTS), "tier_location_rule": "deviation<=1" if tier == "quick" else "full product <=3 axes"}

    def check(self, case, rec):
        key, loc, lo, hi = case
        font, hbf = get_open(key)
        varfont = "fvar" in font
        hbf.set_location(loc if varfont else {})
        gs = font.getGlyphSet(location=loc) if loc else font.getGlyphSet()
        order = font.getGlyphOrder()
        tol = 0.1 if loc else 0.01
        if varfont and "avar" in font:
            rec.witness("avar font")
        if loc and varfont:
            for a in font["fvar"].axes:
                v = loc.get(a.axisTag)
                if v is not None and (v < a.minValue or v > a.maxValue):
                    rec.witness("out-of-range location")
        is_cff = "CFF " in font or "CFF2" in font
        for gid in range(lo, hi):
            gn = order[gid]
            if any(pat in key and gn == g for pat, g in EXCLUDE_GLYPHS):
                continue
            try:
                pen = geom.SegPen(gs)
                g = gs[gn]
                g.draw(pen)
                pen._flush(False)
                width = g.width
            except Exception as e:
                rec.violation(self.exc_fkey(case, e), "drawing %s glyph %r at %r: %s: %s" % (key, gn, loc, type(e).__name__, e), case=[key, loc, gid, gid + 1])
                continue
            mine = geom.canon_contours(pen.contours)
            theirs = hbf.outline(gid)
            msg = geom.contours_close(mine, theirs, tol)
            if msg:
                rec.violation("outline-mismatch:" + font_kind(font, gn), "%s glyph %r at %r: %s" % (key, gn, loc, msg), case=[key, loc, gid, gid + 1],
                              observed=[geom._round_contour(c) for c in mine][:6], expected=[geom._round_contour(c) for c in theirs][:6])
            hadv = hbf.h_advance(gid)
            if abs(width - hadv) > (0.5 + tol if loc else 0):
                rec.violation("advance-mismatch:" + font_kind(font, gn), "%s glyph %r at %r: fontTools width %r, HarfBuzz %r" % (key, gn, loc, width, hadv), case=[key, loc, gid, gid + 1])
            rec.evals(1)
            if mine:
                rec.nontrivial([key, sorted(loc.items()), gid])
                if pen.components:
                    rec.witness("composite glyph")
                if gn.startswith(("flex", "hflex")):
                    rec.witness("t2 flex operators")
                if is_cff:
                    rec.witness("cff glyph")
                    if loc and "CFF2" in font:
                        rec.witness("cff2 blended glyph")
                elif loc and "gvar" in font:
                    rec.witness("gvar glyph")
                if any(s[0] == "Q" for c in mine for s in c[1]):
                    rec.witness("quadratic implied points")
            if loc and "HVAR" in font:
                rec.witness("HVAR advance")
        rec.evals(-1)


def font_kind(font, gn):
    if "CFF2" in font:
        return "cff2"
    if "CFF " in font:
        return "cff"
    try:
        return "glyf-composite" if font["glyf"][gn].isComposite() else "glyf"
    except Exception:
        return "glyf"


class ImportedObjectModel(Unit):
    """A font object read from TTX (not from binary) is drawn like its saved and reloaded self."""

    name = "imported-object-model"
    rule = ("every corpus TTX file that is a complete variable font (fvar + gvar or CFF2): the object model produced by importXML is drawn through its glyph set at every location of the lattice "
            "and compared, glyph by glyph (outline and width), with the glyph set of the same font after save and reload (which the main unit compares with HarfBuzz); distinct = (file, location)")
    chunk = 1
    required_witnesses = ("CFF2 object model", "gvar object model")

    def setup(self, tier, seed):
        load_fonts()
        self.files = []
        for key in sorted(_FONTS):
            if not key.startswith("ttx:"):
                continue
            data, _i = _FONTS[key]
            f = TTFont(io.BytesIO(data), lazy=True)
            if "fvar" in f and ("gvar" in f or "CFF2" in f) and len(data) < 60000:
                self.files.append(key)

    def cases(self, tier, seed):
        for key in self.files:
            yield [key]

    def check(self, case, rec):
        import os

        key = case[0]
        path = os.path.join(corpus.TESTS, key[4:])
        obj = TTFont()
        obj.importXML(path)
        data, _i = _FONTS[key]
        ref = TTFont(io.BytesIO(data))
        rec.witness("CFF2 object model" if "CFF2" in ref else "gvar object model")
        order = ref.getGlyphOrder()
        for loc in locations(ref, "quick"):
            if not loc:
                continue
            try:
                gs_a, gs_b = obj.getGlyphSet(location=loc), ref.getGlyphSet(location=loc)
            except Exception as e:
                rec.violation("object-model:glyphset:%s" % type(e).__name__, "%s at %r: %s" % (key, loc, e))
                return
            rec.nontrivial([key, sorted(loc.items())])
            for gn in order:
                pa, pb = geom.SegPen(gs_a), geom.SegPen(gs_b)
                try:
                    gs_a[gn].draw(pa)
                    pa._flush(False)
                    gs_b[gn].draw(pb)
                    pb._flush(False)
                except Exception as e:
                    if any(pat in key and gn == g for pat, g in EXCLUDE_GLYPHS):
                        continue
                    rec.violation("object-model:draw:%s" % type(e).__name__, "%s glyph %r at %r: %s" % (key, gn, loc, e))
                    break
                msg = geom.contours_close(geom.canon_contours(pa.contours), geom.canon_contours(pb.contours), 0.01)
                if msg:
                    rec.violation("object-model:outline:" + font_kind(ref, gn), "%s glyph %r at %r: the font read from TTX draws differently from its saved and reloaded self: %s" % (key, gn, loc, msg))
                    break
                if abs(gs_a[gn].width - gs_b[gn].width) > 1e-6:
                    rec.violation("object-model:width:" + font_kind(ref, gn), "%s glyph %r at %r: width %r vs %r" % (key, gn, loc, gs_a[gn].width, gs_b[gn].width))
                    break
                rec.evals(1)


def units():
    return [Outlines(), ImportedObjectModel()]
