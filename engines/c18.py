"""C18 - merging fonts preserves each input's characters.

All ordered lists of 2..3 (thorough 4) fonts from a pool of generated fonts (TrueType and CFF,
disjoint / overlapping / identical character sets, identical and differing duplicate glyphs,
with and without layout, colliding glyph names) are merged with fontTools.merge.Merger; the
merged font is saved, reloaded and observed with HarfBuzz.
"""
from mc import env  # noqa: F401
from mc.kernel import Unit, h64

import io
import itertools
import os
import shutil
import tempfile

from fontTools.ttLib import TTFont
from fontTools import merge

from oracles import geom, hbridge, tinyfont, corpus

LEVEL = "exploration"
ASSUMPTIONS = [
    "pool of generated fonts with equal units-per-em (plus the two CFF fonts of Tests/merge/data); real-world fonts with other table mixes are not covered",
    "pool fonts declare the same scripts (DFLT only; R: grek only): merging a font whose rules sit under DFLT with one that brings a 'latn' script makes the shaper select 'latn' for the first font's Latin text too - script lists are merged literally, which is outside what is compared here; merging language systems that have required features is a documented TODO of the merger (it asserts)",
    "HarfBuzz 12.1 observes nominal glyphs, outlines, advances and shaping; glyph identity across fonts is judged by outline+advance, since merging renames glyphs",
]

FEATURES = {"kern": True, "liga": True, "calt": True, "mark": True}
TMPROOT = "/dev/shm" if os.path.isdir("/dev/shm") else None
_POOL = {}


def specs():
    S = {}
    S["A"] = {"kind": "ttf", "shapes": "mixed", "glyphs": ["a", "b", "c"], "fea": "languagesystem DFLT dflt; feature liga { sub a b by c; } liga; feature kern { pos a c -35; pos b a 20; } kern;"}
    S["B"] = {"kind": "ttf", "shapes": "mixed", "glyphs": ["x", "y", "z"], "coef": 2, "fea": "languagesystem DFLT dflt; feature kern { pos x y -22; pos [x y] z 14; } kern; feature liga { sub x x by z; } liga;"}
    # same glyph 'a' as A (identical outline and advance) plus a new one
    S["C"] = {"kind": "ttf", "shapes": "mixed", "glyphs": ["a", "d"], "cmap": {ord("a"): "a", ord("d"): "d"}}
    # 'a' with a different outline (coef changes every value) plus 'e'
    S["D"] = {"kind": "ttf", "shapes": "mixed", "glyphs": ["a", "e"], "coef": 5, "fea": "languagesystem DFLT dflt; feature kern { pos a e -18; } kern;"}
    S["E"] = {"kind": "ttf", "shapes": "mixed", "glyphs": ["p", "q"], "coef": 1}
    # glyph NAMES collide with A but the characters are different
    S["H"] = {"kind": "ttf", "shapes": "mixed", "glyphs": ["a", "b"], "coef": 3, "cmap": {ord("u"): "a", ord("v"): "b"}, "fea": "languagesystem DFLT dflt; feature kern { pos a b -27; } kern;"}
    # mark positioning + GDEF, characters disjoint from all others
    S["M"] = {"kind": "ttf", "shapes": "mixed", "glyphs": ["g", "h", "m", "n"], "coef": 4, "cmap": {ord("g"): "g", ord("h"): "h", 0x301: "m", 0x323: "n"},
              "fea": """languagesystem DFLT dflt;
markClass m <anchor 100 600> @TOP; markClass n <anchor 120 -20> @BOT;
table GDEF { GlyphClassDef [g h], , [m n], ; } GDEF;
feature mark { pos base g <anchor 250 700> mark @TOP <anchor 240 0> mark @BOT; pos base h <anchor 260 710> mark @TOP; } mark;
feature kern { pos g h -12; } kern;"""}
    # class kerning + contextual substitution, disjoint characters
    S["K"] = {"kind": "ttf", "shapes": "mixed", "glyphs": ["r", "s", "t", "w"], "coef": 6,
              "fea": "languagesystem DFLT dflt; @L=[r s]; @R=[t w]; feature kern { pos @L @R -44; pos r r 9; } kern; feature calt { sub r' s by t; sub [s t] w' by r; } calt;"}
    # glyph names that look like the merger's own renaming scheme: 'a' and 'a.1' (characters o, i)
    S["N"] = {"kind": "ttf", "shapes": "mixed", "glyphs": ["a", "a.1"], "coef": 7, "cmap": {ord("o"): "a", ord("i"): "a.1"},
              "fea": "languagesystem DFLT dflt; feature kern { pos a a.1 -16; } kern;"}
    # lookups that no feature references, in front of the used ones (GSUB and GPOS)
    S["U"] = {"kind": "ttf", "shapes": "mixed", "glyphs": ["j", "k", "l"], "coef": 8,
              "fea": "languagesystem DFLT dflt; lookup UNUSED { sub j by k; } UNUSED; lookup UNUSEDP { pos k l 9; } UNUSEDP; "
                     "feature liga { sub j k by l; } liga; feature calt { sub k' l by j; } calt; feature kern { pos j l -13; pos l l 6; } kern;"}
    # contextual rules INSIDE extension lookups (GSUB 7 wrapping 6, GPOS 9 wrapping 8): the nested lookup
    # indices sit one level deeper than in a plain contextual lookup
    S["T"] = {"kind": "ttf", "shapes": "mixed", "glyphs": ["P", "Q", "V"], "coef": 10,
              "fea": "languagesystem DFLT dflt; lookup SHIFT useExtension { pos Q <0 0 30 0>; } SHIFT; lookup CTXP useExtension { pos P Q' lookup SHIFT; } CTXP; "
                     "lookup SUBX useExtension { sub Q by V; } SUBX; lookup CTXS useExtension { sub Q' lookup SUBX V; } CTXS; "
                     "feature calt { lookup CTXS; } calt; feature kern { lookup CTXP; pos V V -11; } kern;"}
    # a character outside the BMP (the font carries a format 12 cmap subtable next to format 4)
    S["S"] = {"kind": "ttf", "shapes": "mixed", "glyphs": ["smile", "I"], "coef": 11, "cmap": {0x1F600: "smile", ord("I"): "I"},
              "fea": "languagesystem DFLT dflt; feature kern { pos I smile -21; } kern;"}
    S["F"] = {"kind": "cff", "shapes": "mixed", "glyphs": ["a", "b"], "fea": "languagesystem DFLT dflt; feature kern { pos a b -31; } kern;"}
    S["G"] = {"kind": "cff", "shapes": "mixed", "glyphs": ["m", "n"], "coef": 2, "fea": "languagesystem DFLT dflt; feature kern { pos m n 17; } kern;"}
    return S


def required_feature_font():
    """pool font R: its only language systems have a REQUIRED feature, which is FeatureRecord #0 of
    its feature list (the feature file syntax cannot say 'required': set after the build)"""
    # Greek letters under the script 'grek' only: no other pool font has that script, so no language
    # systems are merged (merging required features is a documented TODO of the merger, it asserts)
    spec = {"kind": "ttf", "shapes": "mixed", "glyphs": ["one", "two", "three"], "coef": 9, "cmap": {0x3B1: "one", 0x3B2: "two", 0x3B3: "three"},
            "fea": "languagesystem grek dflt; feature abcd { sub one by three; } abcd; feature liga { sub two two by one; } liga; feature kern { pos one two -19; } kern;"}
    font = tinyfont.reload(tinyfont.build(spec))
    gsub = font["GSUB"].table
    tags = [fr.FeatureTag for fr in gsub.FeatureList.FeatureRecord]
    assert tags[0] == "abcd", tags
    for sr in gsub.ScriptList.ScriptRecord:
        for ls in [sr.Script.DefaultLangSys] + [r.LangSys for r in sr.Script.LangSysRecord]:
            if ls is not None and 0 in ls.FeatureIndex:
                ls.FeatureIndex.remove(0)
                ls.FeatureCount = len(ls.FeatureIndex)
                ls.ReqFeatureIndex = 0
    return tinyfont.to_bytes(font)


def load_pool():
    if _POOL:
        return
    for k, s in specs().items():
        _POOL[k] = tinyfont.build_bytes(s)
    _POOL["R"] = required_feature_font()
    for n, d in corpus.compiled_ttx():
        if n == "merge/data/CFFFont1.ttx":
            _POOL["X1"] = d
        if n == "merge/data/CFFFont2.ttx":
            _POOL["X2"] = d


_SNAP = {}
# the script the texts of a pool font are shaped under (default: latn, which falls back to DFLT)
SCRIPT_OF = {"R": "grek"}


def font_snapshot(key):
    """per-character observation of an input font alone"""
    if key not in _SNAP:
        data = _POOL[key]
        font = TTFont(io.BytesIO(data), lazy=True)
        hbf = hbridge.HBFont(data)
        cmap = font.getBestCmap() or {}
        chars = {}
        for cp in cmap:
            gid = hbf.nominal(cp)
            chars[cp] = (hbf.outline(gid), hbf.h_advance(gid))
        shapes = {}
        alpha = sorted(cmap)[:4]
        for n in (1, 2, 3):
            for s in itertools.product(alpha, repeat=n):
                text = "".join(chr(c) for c in s)
                shapes[text] = describe(hbf, hbf.shape(text=text, features=FEATURES, script=SCRIPT_OF.get(key)))
        _SNAP[key] = (chars, shapes)
    return _SNAP[key]


def describe(hbf, res):
    """shaping result with glyph IDs replaced by what the glyph looks like"""
    out = []
    for gid, cl, xa, ya, xo, yo in res:
        out.append((repr([geom._round_contour(c) for c in hbf.outline(gid)]), cl, xa, ya, xo, yo))
    return out


class Merge(Unit):
    name = "merge-lists"
    rule = ("all ordered lists of 2..3 (thorough: 4 from the TrueType pool) fonts from the pool {A,B,C,D,E,H,M,K} (TrueType: disjoint, identical-duplicate, different-duplicate, no-layout, colliding glyph names, mark positioning + GDEF, class kerning + contextual substitution) and {F,G,X1,X2} (CFF) merged with Merger().merge; plus N (glyph names 'a', 'a.1': the merger's own renaming scheme), U (unreferenced lookups in front of the used ones), R (a required feature that is FeatureRecord #0) T (contextual rules inside extension lookups, GSUB and GPOS) and S (a character outside the BMP: format 12 cmap) in every pair and in every triple with A; plus every ordered triple merged in two steps, merge(merge(X,Y),Z) (a merged font as input); mixed flavours must raise; "
            "oracle on the saved+reloaded result: every code point of the union maps to a glyph whose outline and advance equal those in the FIRST input supporting it; glyph names unique; for inputs whose character set is disjoint from all others in the list, every string of length <=3 over 4 of its characters shapes to glyphs with the same outlines/advances/offsets as with that input alone; distinct = each list")
    chunk = 4
    required_witnesses = ("duplicate identical glyph", "duplicate different glyph", "glyph name collision", "disjoint shaping compared", "CFF merge", "mixed flavour rejected", "merged font used as an input")

    def setup(self, tier, seed):
        load_pool()

    def cases(self, tier, seed):
        tt = ["A", "B", "C", "D", "E", "H", "M", "K"]
        cff = [k for k in ("F", "G", "X1", "X2") if k in _POOL]
        for n in (2, 3):
            for lst in itertools.permutations(tt, n):
                yield list(lst)
        # the two fonts built to collide with the merger's renaming / lookup pruning: every pair with
        # every other font, and every triple with A (same glyph names) and one more
        for x in ("N", "U", "R", "T", "S"):
            for y in tt + [z for z in ("N", "U", "R", "T", "S") if z != x]:
                yield [x, y]
                yield [y, x]
            for y in [t for t in tt if t != "A"]:
                for lst in itertools.permutations([x, "A", y], 3):
                    yield list(lst)
        # merged fonts as inputs (histories): merge(merge(X, Y), Z) is observed like merge(X, Y, Z)
        nest = ["A", "B", "D", "H", "K", "N", "U", "R", "T", "S"] if tier == "quick" else tt + ["N", "U", "R", "T", "S"]
        for lst in itertools.permutations(nest, 3):
            yield ["nested"] + list(lst)
        for n in (2, 3):
            for lst in itertools.permutations(cff, n):
                if n == 3 and ("X1" in lst or "X2" in lst) and tier == "quick":
                    continue
                yield list(lst)
        for a in ("A", "E"):
            for b in ("F", "G"):
                yield [a, b]
                yield [b, a]
        if tier == "thorough":
            for lst in itertools.permutations(["A", "B", "C", "D", "H", "M"], 4):
                yield list(lst)

    def check(self, case, rec):
        nested = case[0] == "nested"
        keys = case[1:] if nested else case
        kinds = {("cff" if k in ("F", "G", "X1", "X2") else "ttf") for k in keys}
        tmp = tempfile.mkdtemp(prefix="c18", dir=TMPROOT)
        try:
            paths = []
            for i, k in enumerate(keys):
                p = os.path.join(tmp, "%d_%s.%s" % (i, k, "otf" if k in ("F", "G", "X1", "X2") else "ttf"))
                with open(p, "wb") as f:
                    f.write(_POOL[k])
                paths.append(p)
            if nested:
                # first merge the first two, save, and use the result as the first input
                first = merge.Merger().merge(paths[:2])
                p01 = os.path.join(tmp, "m01.ttf")
                first.save(p01)
                paths = [p01] + paths[2:]
                rec.witness("merged font used as an input")
            try:
                merged = merge.Merger().merge(paths)
            except Exception as e:
                if len(kinds) > 1:
                    rec.witness("mixed flavour rejected")
                    rec.nontrivial()
                    return
                raise
            if len(kinds) > 1:
                # merging glyf and CFF outlines cannot produce a valid font
                rec.violation("merge:mixed-flavour-accepted", "merging %s (glyf + CFF) did not raise" % keys)
                return
            buf = io.BytesIO()
            merged.save(buf)
        finally:
            shutil.rmtree(tmp, ignore_errors=True)
        data = buf.getvalue()
        font = TTFont(io.BytesIO(data))
        order = font.getGlyphOrder()
        if len(set(order)) != len(order):
            rec.violation("merge:glyph-names-not-unique", "%s: duplicate glyph names %s" % (keys, [n for n in order if order.count(n) > 1][:5]))
        hbf = hbridge.HBFont(data)
        mcmap = font.getBestCmap() or {}
        snaps = [font_snapshot(k) for k in keys]
        union = {}
        for i, (chars, _shapes) in enumerate(snaps):
            for cp, obs in chars.items():
                if cp not in union:
                    union[cp] = (i, obs)
                else:
                    j, obs0 = union[cp]
                    same = geom.contours_close(obs0[0], obs[0], 0.01) is None and obs0[1] == obs[1]
                    rec.witness("duplicate identical glyph" if same else "duplicate different glyph")
        for cp, (i, (outline, adv)) in sorted(union.items()):
            if cp not in mcmap:
                rec.violation("merge:character-lost", "%s: U+%04X (from input %d %s) is not mapped in the merged font" % (keys, cp, i, keys[i]))
                continue
            gid = hbf.nominal(cp)
            msg = geom.contours_close(outline, hbf.outline(gid), 0.01)
            if msg:
                rec.violation("merge:outline", "%s: U+%04X should look as in input %d (%s): %s" % (keys, cp, i, keys[i], msg))
            if hbf.h_advance(gid) != adv:
                rec.violation("merge:advance", "%s: U+%04X advance %s, in input %d (%s) it is %s" % (keys, cp, hbf.h_advance(gid), i, keys[i], adv))
        # glyph-name collisions between inputs
        names = [set(TTFont(io.BytesIO(_POOL[k]), lazy=True).getGlyphOrder()) - {".notdef"} for k in keys]
        if any(names[i] & names[j] for i in range(len(keys)) for j in range(i + 1, len(keys))):
            rec.witness("glyph name collision")
        if "cff" in kinds:
            rec.witness("CFF merge")
        # shaping of inputs with a character set disjoint from all the others
        for i, k in enumerate(keys):
            mine = set(snaps[i][0])
            if any(mine & set(snaps[j][0]) for j in range(len(keys)) if j != i):
                continue
            for text, exp in snaps[i][1].items():
                got = describe(hbf, hbf.shape(text=text, features=FEATURES, script=SCRIPT_OF.get(k)))
                if got != exp:
                    rec.violation("merge:shaping", "%s: text %r shapes differently than with input %d (%s) alone:\n merged: %s\n alone : %s" % (
                        keys, text, i, k, [(g[0][:40],) + g[1:] for g in got], [(g[0][:40],) + g[1:] for g in exp]))
                    break
            rec.witness("disjoint shaping compared")
        rec.nontrivial()


def units():
    return [Merge()]
