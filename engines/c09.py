"""C09 - variation arithmetic is exact.

Bounded exhaustive exploration against exact `fractions.Fraction` reference models written
from the OpenType variation specification (oracles/c09_ref.py):

E1  models-*     VariationModel on master-location lattices (1..3 axes): masters are
                 recovered, deltas+supports evaluated by the reference tent product agree with
                 getMasterScalars weighting on a location lattice, sub-models for None patterns.
    normalize    normalizeValue / piecewiseLinearMap on lattices.
E2  solver       rebaseTent: every tent x limit triple x lattice point.
E3  store-histories / multistore-histories
                 history exploration of OnlineVarStoreBuilder -> finish -> optimize /
                 subset_varidxes / prune_regions, all evaluated through VarStoreInstancer.
E4  iup          iup_delta / iup_delta_optimize / TupleVariation.optimize on small contours,
                 brute force over all 2^n explicit-point subsets.

Implementation floats are compared with |err| <= 1e-9 * scale (IEEE rounding only; a wrong
region or weight is off by >= 1e-2 on these lattices).
"""
from mc import env  # noqa: F401
from mc.kernel import Unit

import itertools
import math
from fractions import Fraction as F

from oracles import c09_ref as R

from fontTools.varLib import models as M
from fontTools.varLib.models import VariationModel
from fontTools.varLib.instancer import solver, NormalizedAxisTripleAndDistances
from fontTools.varLib import varStore as VS
from fontTools.varLib.varStore import OnlineVarStoreBuilder, VarStoreInstancer
from fontTools.varLib import multiVarStore as MVS
from fontTools.varLib import iup as IUP
from fontTools.varLib.builder import buildVarRegion
from fontTools.ttLib.tables import otTables as ot
from fontTools.ttLib.tables.otBase import OTTableWriter, OTTableReader
from fontTools.ttLib.tables.TupleVariation import TupleVariation
from fontTools.misc.vector import Vector

LEVEL = "model_checking"
ASSUMPTIONS = [
    "lattice denominators <= 8 (16 for the solver in the thorough tier); master coordinates on the half lattice; more than 3 axes are not enumerated; 3-axis sets hold <= 3 non-default masters",
    "implementation floats are compared with |err| <= 1e-9*scale against exact Fractions; results that differ by less are considered equal",
    "VariationModel with extrapolate=True is only judged inside the bounding ranges of the masters (the specification defines no extrapolation); a particular tie-breaking of the box splitting is not required, only that masters are recovered",
    "rebaseTent: tents with a jump strictly inside [-1,1] are outside the property's quantifier ('continuous over the axis range'): they are not judged at the jump point itself (there the solution is known to differ: counted in the evidence) "
    "nor inside the documented 1/16384 nudge ramp next to the new default; everywhere else they are judged, under the class key solver:value:tent-with-jump-away-from-the-jump",
    "renormalizeValue is compared with the fvar derivation inside the new range only (outside, rebaseTent relies on linear continuation, which the solver unit checks through the tent identity)",
    "store histories: setSupports precedes the first store operation and finish() is the last builder operation (the builder is not used again after finish); integer deltas; 2 axes; depth bound as stated; "
    "optimize(quantization=q) is allowed q/2 per delta; VarStore objects are re-built by replaying the history, never deep-copied",
    "IUP: integer coordinates and deltas from the stated alphabets, one or two contours plus the four phantom points; optimality of iup_delta_optimize and the docstring's claim that the forced set is 'precise' "
    "are counted, not required (with tolerance > 0 brute force finds forced points that are not necessary; only the size of the result suffers)",
    "python's fractions/itertools are trusted; oracles/c09_ref.py is the specification transcription (OTVar region scalar, fvar normalisation, avar segment map, gvar inferred deltas)",
]

EPS = 1e-9
PRIMES = [101, 103, 107, 109, 113, 127, 131, 137, 139, 149, 151, 157, 163, 167, 173, 179, 181, 191, 193, 197,
          199, 211, 223, 227, 229, 233, 239, 241, 251, 257]


def close(a, b, scale=1.0):
    return abs(a - b) <= EPS * max(1.0, abs(b), scale)


# =========================================================================== E1 models
AX = ["a", "b", "c"]


def lattice_points(naxes, vals):
    pts = [p for p in itertools.product(vals, repeat=naxes) if any(p)]
    pts.sort(key=lambda p: (sum(1 for v in p if v), tuple(abs(v) for v in p), p))
    return pts


def loc_dict(pt, axes, den, conv):
    return {ax: conv(v, den) for ax, v in zip(axes, pt) if v}


def _flt(v, den):
    return v / den




class RefRegions:
    """Reference evaluation of a list of regions at lattice locations given as
    {axis: integer numerator over `den`}; per-(region, axis, coordinate) memo of the
    specification's axis scalar (exact Fractions; 0 and 1 kept as ints)."""

    def __init__(self, supports, den):
        self.den = den
        self.regions = [[(ax, tuple(R.fr(x) for x in tri)) for ax, tri in sorted(sup.items())] for sup in supports]
        self._memo = {}

    def scalar(self, k, g):
        s = 1
        memo = self._memo
        for ax, tri in self.regions[k]:
            v = g.get(ax, 0)
            key = (k, ax, v)
            t = memo.get(key)
            if t is None:
                t = R.axis_scalar(F(v, self.den), *tri)
                if t == 0 or t == 1:
                    t = int(t)
                memo[key] = t
            if not t:
                return 0
            s = s * t
        return s

    def value(self, g, deltas):
        tot = 0
        for k, d in enumerate(deltas):
            if d:
                s = self.scalar(k, g)
                if s:
                    tot += d * s
        return tot


def check_model(model, flocs, glocs, den, values, rec, tag, eval_locs):
    """Core oracle for one VariationModel.  flocs/glocs: master locations in the caller's
    order as float dicts / integer-numerator dicts over `den`; values: master values in the
    same order; eval_locs: list of (float loc, integer loc).  Returns False when a violation
    was recorded."""
    ok = True
    n = len(values)
    scale = float(max(abs(v) for v in values))
    # -- the model's own ordering must be a permutation of the input
    order = list(model.reverseMapping)
    if sorted(order) != list(range(n)) or [model.mapping[j] for j in order] != list(range(n)):
        rec.violation("models:mapping", "%s mapping/reverseMapping are not inverse permutations" % tag)
        return False
    mlocs = [glocs[j] for j in order]
    for i, l in enumerate(model.locations):
        if l != flocs[order[i]]:
            rec.violation("models:locations", "%s model.locations[%d] is not the mapped input location" % (tag, i))
            return False
    if len(model.supports) != n:
        rec.violation("models:supports-count", "%s %d supports for %d masters" % (tag, len(model.supports), n))
        return False
    ref = RefRegions(model.supports, den)
    mvals = [values[j] for j in order]
    # -- exact: reference deltas by forward substitution, then evaluate at every master
    rdeltas = []
    for i in range(n):
        d = mvals[i]
        for j in range(i):
            s = ref.scalar(j, mlocs[i])
            if s:
                d -= rdeltas[j] * s
        rdeltas.append(d)
    for i in range(n):
        got = ref.value(mlocs[i], rdeltas)
        if got != mvals[i]:
            rec.violation(
                "models:supports-not-interpolating",
                "%s regions %s: deltas+regions evaluated by the specification give %s at master %s/%d, master value is %s"
                % (tag, model.supports, got, dict(mlocs[i]), den, mvals[i]),
            )
            ok = False
            break
    # -- implementation deltas against the exact ones
    deltas = model.getDeltas(list(values))
    if len(deltas) != n or any(not close(float(a), float(b), scale) for a, b in zip(deltas, rdeltas)):
        rec.violation("models:getDeltas", "%s getDeltas=%s exact=%s" % (tag, deltas, [str(x) for x in rdeltas]))
        ok = False
    # -- masters are recovered
    for j in range(n):
        floc = flocs[j]
        got = model.interpolateFromMasters(floc, list(values))
        if got is None or not close(got, values[j], scale):
            rec.violation(
                "models:master-not-recovered",
                "%s interpolateFromMasters(%s) = %r, master value %r" % (tag, floc, got, values[j]),
            )
            ok = False
            break
        got = model.interpolateFromMastersAndScalars(list(values), model.getScalars(floc))
        if got is None or not close(got, values[j], scale):
            rec.violation("models:interpolateFromMastersAndScalars", "%s at master %s: %r, master value %r" % (tag, floc, got, values[j]))
            ok = False
            break
    # -- lattice: reference tent product of deltas+supports == master-scalar weighting
    ne = 0
    for floc, qloc in eval_locs:
        ne += 1
        exp = float(ref.value(qloc, rdeltas))
        ms = model.getMasterScalars(floc)
        g1 = model.interpolateFromValuesAndScalars(values, ms)  # == interpolateFromMasters(floc, values)
        g2 = model.interpolateFromDeltas(floc, deltas)
        bad = None
        if g1 is None or not close(g1, exp, scale):
            bad = ("models:masterScalars-vs-regions", "interpolateFromMasters", g1)
        elif g2 is None or not close(g2, exp, scale):
            bad = ("models:interpolateFromDeltas", "interpolateFromDeltas", g2)
        elif not close(sum(ms), 1.0):
            bad = ("models:masterScalars-sum", "sum(getMasterScalars)", sum(ms))
        if bad:
            rec.violation(bad[0], "%s at %s: %s = %r, deltas+regions by the specification give %r (supports %s)"
                          % (tag, floc, bad[1], bad[2], exp, model.supports))
            ok = False
            break
    rec.evals(ne)
    return ok


class ModelsUnit(Unit):
    """One case = one master-location set x axisOrder x extrapolate flag.
    case = [points (half units), axisOrder index, extrapolate, eval denominator, prime offset, eval lower bound (den units)]"""

    naxes = 1
    chunk = 24
    perms = [None]

    def families(self, tier):
        """-> list of (coordinate values in half units, set size, eval denominator, perm indices, extrapolate too, positive octant only)"""
        raise NotImplementedError

    def cases(self, tier, seed):
        off = (seed * 7) % len(PRIMES)
        for vals, size, den, pis, xtra, positive in self.families(tier):
            pts = lattice_points(self.naxes, vals)
            for comb in itertools.combinations(range(len(pts)), size):
                sel = [list(pts[i]) for i in comb]
                for pi in pis:
                    yield [sel, pi, 0, den, off, 0 if positive else -den]
                if xtra:
                    yield [sel, 0, 1, den, off, -den]

    def bounds(self, tier, seed):
        return {"axes": self.naxes, "axisOrders": self.perms, "prime_offset": (seed * 7) % len(PRIMES),
                "families(coordinate values, set size, eval denominator, axisOrder indices, extrapolate, positive octant only)":
                    [[[v / 2 for v in f[0]]] + list(f[1:]) for f in self.families(tier)]}

    def check(self, case, rec):
        sel, pi, extrap, den, off, lo_eval = case
        naxes = self.naxes
        axes = AX[:naxes]
        perm = self.perms[pi]
        pts = [tuple(p) for p in sel]
        # the default master is deliberately not first in the caller's order
        pts.insert(len(pts) // 2, (0,) * naxes)
        n = len(pts)
        values = [PRIMES[(off + 7 * i) % len(PRIMES)] for i in range(n)]
        flocs = [loc_dict(p, axes, 2, _flt) for p in pts]
        glocs = [{ax: v * den // 2 for ax, v in zip(axes, p) if v} for p in pts]
        tag = "axisOrder=%s extrapolate=%d" % (perm, extrap)
        try:
            model = VariationModel([dict(l) for l in flocs], axisOrder=None if perm is None else list(perm), extrapolate=bool(extrap))
        except AssertionError as e:
            # getMasterLocationsSortKeyFunc asserts distinct on-axis values: cannot happen for distinct points
            rec.violation("models:constructor-assert", "VariationModel(%s) raised AssertionError %s" % (flocs, e))
            return
        rec.nontrivial()
        # ---- witnesses from the input shape / the supports produced
        if any(sum(1 for v in p if v) >= 2 for p in pts):
            rec.witness("off-axis master")
        if any(sum(1 for v in p if v) == 1 and 1 in [abs(v) for v in p] for p in pts):
            rec.witness("intermediate on-axis master")
        shrunk = 0
        for sup in model.supports:
            k = sum(1 for ax, (lo, pk, hi) in sup.items() if (lo, hi) not in ((0, 1), (-1, 0)))
            shrunk = max(shrunk, k)
        if not extrap:
            if shrunk >= 1:
                rec.witness("box split: support narrower than the default box")
            if shrunk >= 2:
                rec.witness("box split on two axes of one support")
            if shrunk >= 3:
                rec.witness("box split on three axes of one support")
        else:
            rec.witness("extrapolate model")
        # ---- evaluation lattice
        rng = range(lo_eval, den + 1)
        if extrap:
            # the specification defines no extrapolation: stay inside the master bounding ranges
            lo = [min(p[a] for p in pts) for a in range(naxes)]
            hi = [max(p[a] for p in pts) for a in range(naxes)]
            grid = [g for g in itertools.product(rng, repeat=naxes)
                    if all(lo[a] * den <= 2 * g[a] <= hi[a] * den for a in range(naxes))]
        else:
            grid = list(itertools.product(rng, repeat=naxes))
            if lo_eval == 0:
                grid.append((-den,) * naxes)
                grid.append((-den // 2,) + (den // 2,) * (naxes - 1))
        eval_locs = [(loc_dict(g, axes, den, _flt), {ax: v for ax, v in zip(axes, g) if v}) for g in grid]
        if not check_model(model, flocs, glocs, den, values, rec, tag, eval_locs):
            return
        # ---- sub-models for every None pattern that keeps the default master
        if extrap or pi != 0:
            return
        d0 = pts.index((0,) * naxes)
        others = [i for i in range(n) if i != d0]
        for r in range(1, len(others) + 1):
            for drop in itertools.combinations(others, r):
                items = [None if i in drop else values[i] for i in range(n)]
                keep = [i for i in range(n) if i not in drop]
                deltas, supports = model.getDeltasAndSupports(items)
                sub, subitems = model.getSubModel(items)
                rec.witness("sub-model for a None pattern")
                if subitems != [values[i] for i in keep] or len(deltas) != len(keep) or supports is not sub.supports:
                    rec.violation("models:submodel-items", "pattern %s: sub-model items %r" % (items, subitems))
                    return
                if model.getSubModel(items)[0] is not sub:
                    rec.violation("models:submodel-cache", "getSubModel is documented as cached")
                    return
                sub_eval = [(flocs[i], glocs[i]) for i in keep]
                if not check_model(sub, [flocs[i] for i in keep], [glocs[i] for i in keep], den, subitems, rec, "sub-model %s of %s" % (items, tag), sub_eval):
                    return
                if [float(x) for x in deltas] != [float(x) for x in sub.getDeltas(subitems)]:
                    rec.violation("models:getDeltasAndSupports", "pattern %s deltas differ from the sub-model's" % items)
                    return


MODEL_ORACLE = ("master values distinct primes; oracle: exact forward-substituted deltas evaluated with the specification's tent product return each master exactly; "
                "getDeltas, interpolateFromMasters (getMasterScalars weighting), interpolateFromDeltas (getScalars) agree with that reference at every lattice location, "
                "interpolateFromMastersAndScalars at the masters; master scalars sum to 1; sub-model for every None pattern keeping the default; distinct = each (set,order,flag)")


class Models1(ModelsUnit):
    name = "models-1axis"
    naxes = 1
    chunk = 4
    perms = [None, ["a"]]
    rule = "1 axis: every subset of {-1,-1/2,1/2,1} plus the origin as master locations x axisOrder {None,[a]} x extrapolate {no,yes}, evaluated on the eighth lattice (17 locations); " + MODEL_ORACLE
    required_witnesses = ("intermediate on-axis master", "box split: support narrower than the default box", "sub-model for a None pattern", "extrapolate model")

    def families(self, tier):
        return [([-2, -1, 1, 2], k, 8, [0, 1], k > 0, False) for k in range(0, 5)]


class Models2(ModelsUnit):
    name = "models-2axes"
    naxes = 2
    chunk = 40
    perms = [["a", "b"], ["b", "a"], None]
    rule = ("2 axes: every set of <=3 (quick; <=4 thorough) non-origin points of {-1,-1/2,0,1/2,1}^2 plus the origin, evaluated on the eighth lattice (289 locations), "
            "and every set of 4 (5 thorough) points evaluated on the quarter lattice (81); x axisOrder {[a,b],[b,a]} (None too for one point; quick: only [a,b] for 4 points); extrapolate for sizes <=2; " + MODEL_ORACLE)
    required_witnesses = ("off-axis master", "intermediate on-axis master", "box split: support narrower than the default box",
                          "sub-model for a None pattern", "extrapolate model")

    def families(self, tier):
        v = [-2, -1, 0, 1, 2]
        fam = [(v, 1, 8, [0, 1, 2], True, False), (v, 2, 8, [0, 1], True, False), (v, 3, 8, [0, 1], False, False)]
        if tier == "quick":
            fam.append((v, 4, 4, [0], False, False))
        else:
            fam.append((v, 4, 8, [0, 1], False, False))
            fam.append((v, 5, 4, [0, 1], False, False))
        return fam


class Models3(ModelsUnit):
    name = "models-3axes"
    naxes = 3
    chunk = 30
    perms = [list(p) for p in itertools.permutations(["a", "b", "c"])]
    rule = ("3 axes: (i) every set of <=3 non-origin points of {-1,0,1}^3 plus the origin: 1 point on the quarter lattice (729 locations) x 6 axisOrders, 2 points on the half lattice (125; thorough quarter) x 6 axisOrders, "
            "3 points on the half lattice x axisOrders {abc, cba} (thorough: all 6); (ii) every set of <=2 (3 thorough) points of the positive octant {0,1/2,1}^3 on the quarter lattice of [0,1]^3 (+2 negative locations) "
            "x axisOrders {abc, cba}; " + MODEL_ORACLE)
    required_witnesses = ("off-axis master", "box split: support narrower than the default box", "sub-model for a None pattern")

    def families(self, tier):
        c = [-2, 0, 2]
        o = [0, 1, 2]
        allp = list(range(6))
        if tier == "quick":
            return [(c, 1, 4, allp, False, False), (c, 2, 2, allp, False, False), (c, 3, 2, [0, 5], False, False),
                    (o, 1, 4, [0, 5], False, True), (o, 2, 4, [0, 5], False, True)]
        return [(c, 1, 4, allp, False, False), (c, 2, 4, allp, False, False), (c, 3, 2, allp, False, False),
                (o, 1, 4, [0, 5], False, True), (o, 2, 4, [0, 5], False, True), (o, 3, 4, [0, 5], False, True)]


class Normalize(Unit):
    name = "normalize"
    chunk = 8
    rule = ("normalizeValue: every triple lower<=default<=upper over {-2,-1,0,1,3} x every v on the half lattice of [-3,4] x extrapolate {no,yes (non-degenerate side only)} against the fvar formula; "
            "normalizeLocation on two axes; piecewiseLinearMap: every map with <=3 keys from {-1,-1/2,0,1/2,1} and values from the same set x every v on the eighth lattice of [-5/4,5/4] against the avar segment formula; distinct = each (triple|map)")
    required_witnesses = ("degenerate side (lower==default or default==upper)", "clamped value", "map extended beyond its keys")

    VALS = [-2, -1, 0, 1, 3]
    KEYS = [-2, -1, 0, 1, 2]  # half units

    def cases(self, tier, seed):
        for tri in itertools.combinations_with_replacement(self.VALS, 3):
            yield ["nv", list(tri)]
        for k in range(0, 4):
            for keys in itertools.combinations(self.KEYS, k):
                yield ["plm", list(keys)]

    def check(self, case, rec):
        if case[0] == "nv":
            lo, de, up = case[1]
            rec.nontrivial()
            if lo == de or de == up:
                rec.witness("degenerate side (lower==default or default==upper)")
            n = 0
            for h in range(-6, 9):
                v = F(h, 2)
                for extrap in (False, True):
                    n += 1
                    got = M.normalizeValue(float(v), (lo, de, up), extrapolate=extrap)
                    if not extrap:
                        exp = R.normalize_value(v, F(lo), F(de), F(up))
                        if v < lo or v > up:
                            rec.witness("clamped value")
                    else:
                        if lo == up:
                            exp = F(0)
                        elif (v < de and lo == de) or (v > de and up == de):
                            continue  # no such side on the axis: not defined by the specification
                        else:
                            exp = R.normalize_value(v, F(lo), F(de), F(up), clamp=False)
                    if not close(got, float(exp)):
                        rec.violation("normalizeValue", "normalizeValue(%s, %s, extrapolate=%s) = %r expected %s" % (v, (lo, de, up), extrap, got, exp))
                # two-axis normalizeLocation: the other axis is missing from the location -> default -> 0
                got = M.normalizeLocation({"x": float(v)}, {"x": (lo, de, up), "y": (lo, de, up)})
                exp = R.normalize_value(v, F(lo), F(de), F(up))
                if set(got) != {"x", "y"} or not close(got["x"], float(exp)) or got["y"] != 0:
                    rec.violation("normalizeLocation", "normalizeLocation({x:%s}) over %s = %r" % (v, (lo, de, up), got))
            rec.evals(n)
            return
        keys = case[1]
        n = 0
        for vals in itertools.product(self.KEYS, repeat=len(keys)):
            mp = {F(k, 2): F(x, 2) for k, x in zip(keys, vals)}
            fmp = {float(k): float(x) for k, x in mp.items()}
            rec.nontrivial_n(1)
            for e in range(-10, 11):
                v = F(e, 8)
                n += 1
                got = M.piecewiseLinearMap(float(v), fmp)
                exp = R.piecewise_linear(v, mp)
                if mp and (v < min(mp) or v > max(mp)):
                    rec.witness("map extended beyond its keys")
                if not close(got, float(exp)):
                    rec.violation("piecewiseLinearMap", "piecewiseLinearMap(%s, %s) = %r expected %s" % (v, fmp, got, exp))
        rec.evals(n)


# =========================================================================== E2 solver
SOLVER_D = 32768  # every solver point is an integer multiple of 1/32768 (= EPSILON/2)
_LIMIT_TABLE = {}


def limit_table(den):
    """All (limit triple, distances) with their points: (numerator over 32768, float old
    coordinate, float new coordinate by the implementation's renormalizeValue, side) where
    side = +1/-1 for the point half an EPSILON above/below the new default, else 0."""
    tab = _LIMIT_TABLE.get(den)
    if tab is not None:
        return tab
    tab = []
    q = range(-4, 5)
    step = SOLVER_D // den
    for amin in q:
        for adef in q:
            for amax in q:
                if not amin <= adef <= amax:
                    continue
                dists = [(1, 1)]
                if amin < 0 < amax and adef != 0:
                    dists += [(2, 1), (1, 3)]
                for dn, dp in dists:
                    limit = NormalizedAxisTripleAndDistances(amin / 4, adef / 4, amax / 4, dn, dp)
                    kmin, kdef, kmax = (x * SOLVER_D // 4 for x in (amin, adef, amax))
                    ks = [(k, 0) for k in range(kmin, kmax + 1, step)]
                    for sgn in (1, -1):
                        ks.append((kdef + 2 * sgn, 0))  # default +- EPSILON
                        ks.append((kdef + sgn, sgn))  # default +- EPSILON/2
                    pts = []
                    for k, side in ks:
                        if kmin <= k <= kmax:
                            fv = k / SOLVER_D
                            pts.append((k, fv, limit.renormalizeValue(fv), side))
                    tab.append((amin, adef, amax, dn, dp, limit, pts))
    _LIMIT_TABLE[den] = tab
    return tab


class Renormalize(Unit):
    name = "renormalize"
    chunk = 16
    rule = ("NormalizedAxisTripleAndDistances.renormalizeValue: every limit triple min<=default<=max on the quarter lattice of [-1,1] x distances {(1,1),(2,1),(1,3),(3,2)} x every old coordinate of the new range [min,max] on the sixteenth lattice "
            "(outside the new range the specification defines nothing: instances are clamped): equals the fvar derivation (user space is piecewise linear in old normalised space with the two distances; normalise against the new (min,default,max)); distinct = each (limit, distances)")
    required_witnesses = ("old default strictly inside one side of the new range (distances matter)",)

    def cases(self, tier, seed):
        q = range(-4, 5)
        for amin in q:
            for adef in q:
                for amax in q:
                    if amin <= adef <= amax:
                        for dn, dp in ((1, 1), (2, 1), (1, 3), (3, 2)):
                            yield [amin, adef, amax, dn, dp]

    def check(self, case, rec):
        amin, adef, amax, dn, dp = case
        limit = NormalizedAxisTripleAndDistances(amin / 4, adef / 4, amax / 4, dn, dp)
        qmin, qdef, qmax = F(amin, 4), F(adef, 4), F(amax, 4)
        rec.nontrivial()
        if (amin < 0 < adef) or (adef < 0 < amax):
            rec.witness("old default strictly inside one side of the new range (distances matter)")
        n = 0
        for k in range(amin * 4, amax * 4 + 1):
            v = F(k, 16)
            exp = R.renormalize(v, qmin, qdef, qmax, F(dn), F(dp))
            n += 1
            got = limit.renormalizeValue(float(v))
            if not close(got, float(exp)):
                rec.violation("renormalizeValue", "%r.renormalizeValue(%s) = %r, fvar derivation gives %s" % (limit, v, got, exp))
                return
        rec.evals(n)


class Solver(Unit):
    name = "solver"
    chunk = 6
    rule = ("rebaseTent: every tent lower<=peak<=upper on the quarter lattice of [-2,2] with peak!=0 and not straddling 0 (one case each) x every limit triple min<=default<=max on the quarter lattice of [-1,1] "
            "x distance pairs {(1,1)} plus {(2,1),(1,3)} when the old default lies strictly inside the new range x every point of [min,max] on the eighth lattice (sixteenth: thorough) plus default+-1/16384 and default+-1/32768: "
            "sum(scalar * specification_tent(renormalised point)) == tent(point) (exact Fraction tent; the new tents are read with the OpenType rules: peak 0, reversed or zero-straddling tents count as 1). "
            "Tents with a jump strictly inside [-1,1] (outside the property's 'continuous over the axis range') are not judged at the jump itself, and in the documented EPSILON-nudge configuration not inside the open 1/16384 ramp "
            "(there: value between 0 and 1); everywhere else they are judged under a separate class key; distinct = each (tent, limit, distances)")
    required_witnesses = ("tent dropped (no overlap)", "gain (always-on) deltaset", "two or more tents", "three or more tents", "mirrored (peak below new default)",
                          "documented EPSILON nudge configuration", "pinned axis (min==max)", "asymmetric distances", "tent peak outside new range",
                          "tent with a jump inside the axis", "continuous tent judged")

    def cases(self, tier, seed):
        q = range(-8, 9)
        for lo in q:
            for pk in q:
                for up in q:
                    if lo <= pk <= up and pk != 0 and not (lo < 0 < up):
                        yield [lo, pk, up, 8 if tier == "quick" else 16]

    def bounds(self, tier, seed):
        return {"tent_lattice": "quarters of [-2,2]", "limit_lattice": "quarters of [-1,1]", "point_denominator": 8 if tier == "quick" else 16,
                "distances": [[1, 1], [2, 1], [1, 3]]}

    def check(self, case, rec):
        lo, pk, up, den = case
        tq = (F(lo, 4), F(pk, 4), F(up, 4))
        tf = (lo / 4, pk / 4, up / 4)
        # a jump strictly inside the old axis range [-1,1]: the property quantifies over tents
        # "continuous over the axis range" only
        jump = (lo == pk and pk > -4) or (pk == up and pk < 4)
        rec.witness("tent with a jump inside the axis" if jump else "continuous tent judged")
        kpk = pk * SOLVER_D // 4
        expected = {}
        n = 0
        for amin, adef, amax, dn, dp, limit, pts in limit_table(den):
            solver.rebaseTent.cache_clear()
            sols = solver.rebaseTent(tf, limit)
            rec.nontrivial_n(1)
            n += len(pts)
            # ---- witnesses (input shape / output shape)
            ntents = sum(1 for s, t in sols if t is not None)
            if not sols:
                rec.witness("tent dropped (no overlap)")
            if ntents < len(sols):
                rec.witness("gain (always-on) deltaset")
            if ntents >= 2:
                rec.witness("two or more tents")
            if ntents >= 3:
                rec.witness("three or more tents")
            if pk < adef:
                rec.witness("mirrored (peak below new default)")
            if amin == amax:
                rec.witness("pinned axis (min==max)")
            if dn != dp:
                rec.witness("asymmetric distances")
            if pk < amin or pk > amax:
                rec.witness("tent peak outside new range")
            # the documented nudge: "A tent's peak cannot fall on axis default. Nudge it." - it has an effect
            # exactly for a one-sided tent peaking at the new default with room on its open side
            nudge_above = pk == adef and up == pk and adef < amax
            nudge_below = pk == adef and lo == pk and amin < adef
            if nudge_above or nudge_below:
                rec.witness("documented EPSILON nudge configuration")
            for k, fv, nv, side in pts:
                exp = expected.get(k)
                if exp is None:
                    exp = expected[k] = float(R.axis_scalar(F(k, SOLVER_D), *tq))
                got = 0.0
                for s, t in sols:
                    got += s if t is None else s * R.axis_scalar(nv, t[0], t[1], t[2])
                if (side > 0 and nudge_above) or (side < 0 and nudge_below):
                    # inside the nudged ramp the value moves between the two one-sided limits (1 and 0)
                    if not (-EPS <= got <= 1 + EPS):
                        rec.violation("solver:nudge-ramp-out-of-hull", "rebaseTent(%s, %s) = %s at %r (inside the nudged interval): %r" % (tf, tuple(limit), sols, fv, got))
                        return
                    continue
                if not close(got, exp):
                    if jump and k == kpk:
                        rec.count("tent with a jump: solution differs from the tent at the jump point itself (not judged)")
                        continue
                    rec.violation("solver:value" + (":tent-with-jump-away-from-the-jump" if jump else ""),
                                  "rebaseTent(%s, %s) = %s: at old coordinate %r (new %r) the solution gives %r, the tent gives %r"
                                  % (tf, tuple(limit), sols, fv, nv, got, exp), observed=got, expected=exp)
                    return
        rec.evals(n)


# =========================================================================== E3 stores
SAXES = ["wght", "wdth"]


class _Axis:
    def __init__(self, tag):
        self.axisTag = tag


FVAR = [_Axis(t) for t in SAXES]


class _Font(dict):
    lazy = False


REGIONS = [
    {"wght": (0.0, 0.5, 1.0)},
    {"wght": (0.5, 1.0, 1.0)},
    {"wdth": (-1.0, -1.0, 0.0)},
    {"wght": (0.0, 1.0, 1.0), "wdth": (0.0, 1.0, 1.0)},
    {"wdth": (0.0, 0.5, 1.0)},  # only ever inserted as an unused region (prune)
]
# support lists (region ids; -1 is the empty base-master support that setSupports drops)
SUPPORTS = [[0, 1], [1, 2, 3], [-1, 1, 0], [-1, 0, 1]]
VECTORS = [
    (0, 0, 0),
    (1, -1, 2),
    (127, -128, 0),
    (128, 5, -129),
    (32767, -32768, 300),
    (32768, 0, -70000),
]
MANY = [[1, 3], [0, 4], [1, 1]]
# evaluation lattice: quarters of [0,1] x {-1,0,1} plus interior points (negative wght: every region is 0)
SLOCS = [(F(a, 4), F(b)) for a in range(0, 5) for b in (-1, 0, 1)] + [(F(-1, 2), F(1, 2)), (F(7, 8), F(3, 4)), (F(5, 8), F(-1, 4)), (F(1, 4), F(1, 2)), (F(3, 4), F(-1, 2))]
SLOCS_F = [{"wght": float(a), "wdth": float(b)} for a, b in SLOCS]
_REGION_AT = [[R.region_scalar({"wght": a, "wdth": b}, {ax: tuple(F(x) for x in tri) for ax, tri in reg.items()}) for a, b in SLOCS] for reg in REGIONS]
# subset_varidxes variants (the bulk of the post-operations) are evaluated at 8 locations that tell all regions apart
SLOCS_SMALL = [SLOCS.index(x) for x in [(F(1, 4), F(0)), (F(1, 2), F(0)), (F(3, 4), F(1)), (F(1), F(-1)), (F(1), F(1)), (F(7, 8), F(3, 4)), (F(5, 8), F(-1, 4)), (F(0), F(-1))]]
_EXPECT = {}


def expected_values(rids, deltas):
    key = (rids, deltas)
    e = _EXPECT.get(key)
    if e is None:
        e = _EXPECT[key] = [
            (float(sum(d * _REGION_AT[r][li] for r, d in zip(rids, deltas))), float(sum(_REGION_AT[r][li] for r in rids)))
            for li in range(len(SLOCS))
        ]
    return e


def store_ops(tier):
    ns = 3 if tier == "quick" else 4
    nm = 2 if tier == "quick" else 3
    ops = [["ss", k] for k in range(ns)] + [["sd", k] for k in range(len(VECTORS))] + [["sdb", 1]] + [["sdm", k] for k in range(nm)]
    return ops


def run_history(hist):
    """Replay a history on a fresh real builder next to the boring model (a list of
    obligations: returned index -> (region ids, delta vector))."""
    b = OnlineVarStoreBuilder(list(SAXES))
    cur = None
    obl = []
    for kind, k in hist:
        if kind == "ss":
            sup = [dict(REGIONS[r]) if r >= 0 else {} for r in SUPPORTS[k]]
            b.setSupports(sup)
            cur = tuple(r for r in SUPPORTS[k] if r >= 0)
        elif kind == "sd":
            vec = VECTORS[k][: len(cur)]
            idx = b.storeDeltas(list(vec))
            obl.append((idx, cur, vec))
        elif kind == "sdb":
            vec = VECTORS[k][: len(cur)]
            idx = b.storeDeltas([999] + list(vec))  # documented form: leading base-master delta is dropped
            obl.append((idx, cur, vec))
        elif kind == "sdm":
            vecs = [VECTORS[j][: len(cur)] for j in MANY[k]]
            idx = b.storeDeltasMany([list(v) for v in vecs])
            for i, v in enumerate(vecs):
                obl.append((idx + i, cur, v))
    return b, obl, cur


def epochs_with_store(hist):
    """Number of setSupports epochs in which at least one item was stored."""
    n, has = 0, False
    for o in hist:
        if o[0] == "ss":
            n += has
            has = False
        else:
            has = True
    return n + has


def store_state_key(st, cur):
    """Canonical state of a builder, read from the store it hands out (finish(optimize=False)
    only recomputes counts) plus the current support list of the model.  Two histories with
    equal keys have equal futures: region list, VarData columns and rows, and the supports
    in force are all a builder's behaviour depends on (its caches are functions of the rows)."""
    regs = tuple(tuple((a.StartCoord, a.PeakCoord, a.EndCoord) for a in r.VarRegionAxis) for r in st.VarRegionList.Region)
    datas = tuple((tuple(d.VarRegionIndex), tuple(tuple(i) for i in d.Item)) for d in st.VarData)
    return [regs, datas, cur]


def store_sanity(store, rec, tag):
    """Derived fields an OpenType reader relies on (independent recomputation)."""
    rl = store.VarRegionList
    if rl.RegionCount != len(rl.Region) or store.VarDataCount != len(store.VarData):
        rec.violation("store:counts", "%s: RegionCount/VarDataCount do not match the lists" % tag)
        return False
    for d in store.VarData:
        if d.ItemCount != len(d.Item) or d.VarRegionCount != len(d.VarRegionIndex):
            rec.violation("store:counts", "%s: ItemCount/VarRegionCount do not match" % tag)
            return False
        if any(not 0 <= r < len(rl.Region) for r in d.VarRegionIndex) or len(set(d.VarRegionIndex)) != len(d.VarRegionIndex):
            rec.violation("store:region-index", "%s: VarRegionIndex %s out of range or repeated (RegionCount %d)" % (tag, list(d.VarRegionIndex), len(rl.Region)))
            return False
        longw = bool(d.NumShorts & 0x8000)
        wc = d.NumShorts & 0x7FFF
        big, small = ((1 << 31), (1 << 15)) if longw else ((1 << 15), (1 << 7))
        for item in d.Item:
            if len(item) != len(d.VarRegionIndex):
                rec.violation("store:row-width", "%s: row %s for %d regions" % (tag, item, len(d.VarRegionIndex)))
                return False
            for j, v in enumerate(item):
                lim = big if j < wc else small
                if not -lim <= v < lim:
                    rec.violation("store:NumShorts", "%s: value %d in column %d does not fit (NumShorts=0x%04X)" % (tag, v, j, d.NumShorts))
                    return False
    return True


def verify_store(store, obl, idxmap, rec, tag, fkey, q=0, only=None, locs=None):
    """Every obligation evaluates, through VarStoreInstancer (one instancer moved over all
    lattice locations), to the stored vector's value.  q: quantization (0 = exact)."""
    if not store_sanity(store, rec, tag):
        return False
    todo = {}
    for idx, rids, vec in obl:
        if only is not None and idx not in only:
            continue
        if idxmap is None:
            new = idx
        else:
            if idx not in idxmap:
                rec.violation(fkey + ":map-misses-index", "%s: returned map has no entry for index 0x%X" % (tag, idx))
                return False
            new = idxmap[idx]
        todo.setdefault((new, rids, vec), idx)
    if not todo:
        return True
    inst = VarStoreInstancer(store, FVAR, {})
    n = 0
    for li in (range(len(SLOCS_F)) if locs is None else locs):
        floc = SLOCS_F[li]
        inst.setLocation(floc)
        for (new, rids, vec), idx in todo.items():
            n += 1
            got = inst[new]
            exp, ssum = expected_values(rids, vec)[li]
            tol = EPS * max(1.0, abs(exp)) + (q / 2.0) * ssum
            if abs(got - exp) > tol:
                rec.violation(fkey, "%s: index 0x%X (now 0x%X) storing %s on regions %s evaluates to %r at %s, expected %r"
                              % (tag, idx, new, vec, rids, got, floc, exp))
                return False
    rec.evals(n)
    return True


def roundtrip(store):
    font = _Font()
    w = OTTableWriter()
    store.compile(w, font)
    data = w.getAllData()
    st2 = ot.VarStore()
    st2.decompile(OTTableReader(data), font)
    return st2


class StoreHistories(Unit):
    name = "store-histories"
    chunk = 12
    rule = ("history exploration of OnlineVarStoreBuilder over 2 axes: every operation sequence of length <=4 (quick; <=5 thorough) that starts with setSupports, alphabet = setSupports(S1=[R0,R1] | S2=[R1,R2,R3] | S3=[base,R1,R0] (base support dropped, same regions as S1 permuted) [thorough: S4=[base,R0,R1], the VarData of S1 again]) | storeDeltas(6 vectors: zero, byte, byte extremes, word, word extremes, long) | storeDeltas(with leading base delta) | storeDeltasMany(2 [3] lists); "
            "then finish(optimize in {False,True}) followed by each of: nothing | compile+decompile | optimize(use_NO_VARIATION_INDEX in {True,False}) (+compile/decompile) | optimize(quantization=2) | "
            "subset_varidxes(every subset of the returned indices x retainFirstMap x advIdxes) | insert an unused region at 3 positions + prune_regions. "
            "Oracle: a list model of (returned index -> regions, vector); every index, through the returned maps, evaluates via VarStoreInstancer to the exact Fraction value of its vector at 20 lattice locations (8 for the subset variants) "
            "(quantization: within q/2 * sum of scalars); derived counts and NumShorts recomputed; state = canonical (regions, VarData rows, current supports)")
    required_witnesses = ("existing VarData reused after setSupports", "region shared between VarData", "delta cache hit (same index returned twice)", "long words", "word deltas",
                          "zero row mapped to NO_VARIATION_INDEX", "optimize merged or re-sorted rows", "subset dropped a VarData", "subset renumbered a kept index",
                          "retainFirstMap zeroed an unused row", "advIdxes moved a row first", "prune_regions removed a region", "columns reordered by finish(optimize=True)")

    def setup(self, tier, seed):
        self.ops = store_ops(tier)

    def cases(self, tier, seed):
        depth = 4 if tier == "quick" else 5
        ops = store_ops(tier)
        firsts = [o for o in ops if o[0] == "ss"]
        for n in range(1, depth + 1):
            for first in firsts:
                for rest in itertools.product(ops, repeat=n - 1):
                    yield [first] + [list(o) for o in rest]

    def bounds(self, tier, seed):
        return {"depth": 4 if tier == "quick" else 5, "alphabet": store_ops(tier), "locations": len(SLOCS), "quantization": 2}

    def check(self, hist, rec):
        b, obl, cur = run_history(hist)
        st0 = b.finish(optimize=False)
        rec.trace(1)
        rec.transition(1)  # the edge extending the parent history by its last operation
        skey = store_state_key(st0, cur)
        rec.state(skey)
        idxs = sorted({o[0] for o in obl})
        # -- witnesses from the observable structure
        keys = [tuple(d.VarRegionIndex) for d in st0.VarData]
        if epochs_with_store(hist) > len(keys):
            rec.witness("existing VarData reused after setSupports")
        if len(keys) >= 2 and set(keys[0]) & set(keys[1]):
            rec.witness("region shared between VarData")
        if len(idxs) < len({(o[0], o[2]) for o in obl}) or len(obl) > len({(o[0]) for o in obl}):
            rec.witness("delta cache hit (same index returned twice)")
        if obl:
            rec.nontrivial()
        for fin in (False, True):
            def fresh():
                return run_history(hist)[0].finish(optimize=fin)

            tag0 = "finish(optimize=%s)" % fin
            store = fresh() if fin else st0
            rec.transition(1)
            if fin and [tuple(d.VarRegionIndex) for d in store.VarData] != keys:
                rec.witness("columns reordered by finish(optimize=True)")
            for d in store.VarData:
                if d.NumShorts & 0x8000:
                    rec.witness("long words")
                elif d.NumShorts:
                    rec.witness("word deltas")
            if not verify_store(store, obl, None, rec, tag0, "store:finish"):
                return
            rec.outcome(skey[:2] + [fin])
            if not verify_store(roundtrip(store), obl, None, rec, tag0 + " compiled+decompiled", "store:compile"):
                return
            rec.transition(1)
            # ---- optimize
            for use_no in (True, False):
                store = fresh()
                m = store.optimize(use_NO_VARIATION_INDEX=use_no)
                rec.transition(1)
                tag = tag0 + " optimize(use_NO_VARIATION_INDEX=%s)" % use_no
                if not verify_store(store, obl, m, rec, tag, "store:optimize"):
                    return
                if any(m.get(i) == VS.NO_VARIATION_INDEX for i in idxs):
                    rec.witness("zero row mapped to NO_VARIATION_INDEX")
                if any(m.get(i) != i for i in idxs):
                    rec.witness("optimize merged or re-sorted rows")
                if not verify_store(roundtrip(store), obl, m, rec, tag + " compiled+decompiled", "store:optimize-compile"):
                    return
            store = fresh()
            m = store.optimize(quantization=2)
            rec.transition(1)
            if not verify_store(store, obl, m, rec, tag0 + " optimize(quantization=2)", "store:optimize-quantized", q=2):
                return
            # ---- subset_varidxes: every subset of the returned indices
            for r in range(0, len(idxs) + 1):
                for sub in itertools.combinations(idxs, r):
                    sset = set(sub)
                    major0 = sorted(i for i in sset if i >> 16 == 0)
                    variants = [(False, ()), (True, ())]
                    if len(major0) >= 2:
                        variants.append((False, (major0[-1],)))
                    for retain, adv in variants:
                        store = fresh()
                        n0 = len(store.VarData)
                        rows0 = [list(x) for x in store.VarData[0].Item] if store.VarData else []
                        m = store.subset_varidxes(set(sset), optimize=fin, retainFirstMap=retain, advIdxes=set(adv))
                        rec.transition(1)
                        tag = tag0 + " subset_varidxes(%s, retainFirstMap=%s, advIdxes=%s)" % (sorted(sset), retain, list(adv))
                        if not verify_store(store, obl, m, rec, tag, "store:subset", only=sset, locs=SLOCS_SMALL):
                            return
                        if len(store.VarData) < n0:
                            rec.witness("subset dropped a VarData")
                        if any(m[i] != i for i in sset):
                            rec.witness("subset renumbered a kept index")
                        if retain:
                            # documented: "major 0 mappings are retained. Deltas for unused indices are zeroed"
                            if any(m[i] != i for i in major0):
                                rec.violation("store:subset-retainFirstMap", "%s: a major-0 index was renumbered: %s" % (tag, {i: m[i] for i in major0}))
                                return
                            if major0 and store.VarData and len(store.VarData[0].Item) == len(rows0):
                                for mi, row in enumerate(store.VarData[0].Item):
                                    if mi not in sset and any(rows0[mi]):
                                        if any(row):
                                            rec.violation("store:subset-retainFirstMap", "%s: unused row %d not zeroed" % (tag, mi))
                                            return
                                        rec.witness("retainFirstMap zeroed an unused row")
                        if adv:
                            if m[adv[0]] != 0:
                                rec.violation("store:subset-advIdxes", "%s: advance index 0x%X not listed first (now 0x%X)" % (tag, adv[0], m[adv[0]]))
                                return
                            rec.witness("advIdxes moved a row first")
            # ---- unused region inserted, then prune_regions
            nreg = len(fresh().VarRegionList.Region)
            for pos in sorted({0, nreg // 2, nreg}):
                store = fresh()
                rl = store.VarRegionList
                rl.Region.insert(pos, buildVarRegion(dict(REGIONS[4]), SAXES))
                rl.RegionCount = len(rl.Region)
                for d in store.VarData:
                    d.VarRegionIndex = [r + 1 if r >= pos else r for r in d.VarRegionIndex]
                tag = tag0 + " unused region inserted at %d" % pos
                if not verify_store(store, obl, None, rec, tag, "harness:insert-region"):
                    return
                nused = len({r for d in store.VarData for r in d.VarRegionIndex})
                store.prune_regions()
                rec.transition(1)
                if not verify_store(store, obl, None, rec, tag + " + prune_regions", "store:prune_regions"):
                    return
                if len(store.VarRegionList.Region) != nused:
                    rec.violation("store:prune_regions-kept-unused", "%s: %d regions after pruning, %d are used" % (tag, len(store.VarRegionList.Region), nused))
                    return
                rec.witness("prune_regions removed a region")


# ----------------------------------------------------------------- multi var store
MREGIONS = [{"wght": (0.0, 0.5, 1.0)}, {"wght": (0.5, 1.0, 1.0)}, {"wght": (0.0, 1.0, 1.0), "wdth": (-1.0, -1.0, 0.0)}]
MSUPPORTS = [[0, 1], [-1, 1, 0], [2, 1]]
MVECS = [(0, 0), (1, -2), (300, 7), (-70000, 5)]
MLOCS = [(F(a, 4), F(b, 2)) for a in range(0, 5) for b in range(-2, 3)]
_MREGION_AT = [[R.region_scalar({"wght": a, "wdth": b}, {ax: tuple(F(x) for x in tri) for ax, tri in reg.items()}) for a, b in MLOCS] for reg in MREGIONS]


def multi_ops():
    # a stored item is one 2-vector per region; items are built from 2 vector indices (cycled over the regions)
    return [["ss", k] for k in range(len(MSUPPORTS))] + [["sd", [i, j]] for i in range(len(MVECS)) for j in range(len(MVECS)) if (i, j) in
            ((0, 0), (1, 1), (1, 2), (2, 1), (3, 0), (0, 3), (2, 3))]


def run_multi(hist):
    b = MVS.OnlineMultiVarStoreBuilder(list(SAXES))
    cur = None
    obl = []
    for kind, k in hist:
        if kind == "ss":
            b.setSupports([dict(MREGIONS[r]) if r >= 0 else {} for r in MSUPPORTS[k]])
            cur = tuple(r for r in MSUPPORTS[k] if r >= 0)
        else:
            vecs = tuple(MVECS[k[i % 2]] for i in range(len(cur)))
            idx = b.storeDeltas([Vector(v) for v in vecs])
            obl.append((idx, cur, vecs))
    return b, obl, cur


def multi_epochs_with_store(hist, obl):
    """Epochs in which at least one not-all-zero item was stored (all-zero items are not stored)."""
    n, has, k = 0, False, 0
    for o in hist:
        if o[0] == "ss":
            n += has
            has = False
        else:
            if obl[k][0] != MVS.NO_VARIATION_INDEX:
                has = True
            k += 1
    return n + has


def verify_multi(store, obl, idxmap, rec, tag, fkey, only=None):
    if store.MultiVarDataCount != len(store.MultiVarData) or store.SparseVarRegionList.RegionCount != len(store.SparseVarRegionList.Region):
        rec.violation("multistore:counts", "%s: counts do not match the lists" % tag)
        return False
    inst = MVS.MultiVarStoreInstancer(store, FVAR, {})
    n = 0
    for li, (a, bb) in enumerate(MLOCS):
        inst.setLocation({"wght": float(a), "wdth": float(bb)})
        for idx, rids, vecs in obl:
            if only is not None and idx not in only:
                continue
            new = idx if idxmap is None else idxmap.get(idx)
            if new is None:
                rec.violation(fkey + ":map-misses-index", "%s: no entry for 0x%X" % (tag, idx))
                return False
            n += 1
            got = list(inst[new])
            exp = [float(sum(v[c] * _MREGION_AT[r][li] for r, v in zip(rids, vecs))) for c in range(2)]
            if new == MVS.NO_VARIATION_INDEX:
                ok = got == [] and not any(any(v) for v in vecs)
            else:
                ok = len(got) == 2 and all(close(g, e) for g, e in zip(got, exp))
            if not ok:
                rec.violation(fkey, "%s: index 0x%X (now 0x%X) storing %s on regions %s evaluates to %r at (%s,%s), expected %r" % (tag, idx, new, vecs, rids, got, a, bb, exp))
                return False
    rec.evals(n)
    return True


class MultiStoreHistories(Unit):
    name = "multistore-histories"
    chunk = 16
    rule = ("history exploration of OnlineMultiVarStoreBuilder (2-vectors per region): every operation sequence of length <=4 (5 thorough) starting with setSupports, alphabet = setSupports([R0,R1] | [base,R1,R0] | [R2,R1]) | "
            "storeDeltas(7 items over zero/byte/word/long 2-vectors); then finish() followed by nothing | subset_varidxes(every subset of the returned indices) (which prunes regions). Oracle: every returned index evaluates through "
            "MultiVarStoreInstancer, via the returned map, to the exact value of its vectors at 25 lattice locations; all-zero items return NO_VARIATION_INDEX (empty vector)")
    required_witnesses = ("all-zero item -> NO_VARIATION_INDEX", "existing MultiVarData reused", "subset dropped a MultiVarData", "subset pruned a region")

    def cases(self, tier, seed):
        depth = 4 if tier == "quick" else 5
        ops = multi_ops()
        firsts = [o for o in ops if o[0] == "ss"]
        for n in range(1, depth + 1):
            for first in firsts:
                for rest in itertools.product(ops, repeat=n - 1):
                    yield [first] + [list(o) for o in rest]

    def bounds(self, tier, seed):
        return {"depth": 4 if tier == "quick" else 5, "alphabet": multi_ops(), "locations": len(MLOCS)}

    def check(self, hist, rec):
        b, obl, cur = run_multi(hist)
        st = b.finish()  # only recomputes the counts
        rec.trace(1)
        rec.transition(1)
        rec.state([
            tuple(tuple((a.AxisIndex, a.StartCoord, a.PeakCoord, a.EndCoord) for a in r.SparseVarRegionAxis) for r in st.SparseVarRegionList.Region),
            tuple((tuple(d.VarRegionIndex), tuple(tuple(i) for i in d.Item)) for d in st.MultiVarData),
            cur,
        ])
        if obl:
            rec.nontrivial()
        if any(i == MVS.NO_VARIATION_INDEX for i, _, _ in obl):
            rec.witness("all-zero item -> NO_VARIATION_INDEX")
        if multi_epochs_with_store(hist, obl) > len(st.MultiVarData):
            rec.witness("existing MultiVarData reused")
        store = st
        rec.transition(1)
        if not verify_multi(store, obl, None, rec, "finish()", "multistore:finish"):
            return
        idxs = sorted({o[0] for o in obl if o[0] != MVS.NO_VARIATION_INDEX})
        for r in range(0, len(idxs) + 1):
            for sub in itertools.combinations(idxs, r):
                store = run_multi(hist)[0].finish()
                n0, r0 = len(store.MultiVarData), len(store.SparseVarRegionList.Region)
                m = store.subset_varidxes(set(sub) | {MVS.NO_VARIATION_INDEX})
                rec.transition(1)
                tag = "finish() subset_varidxes(%s)" % list(sub)
                if not verify_multi(store, obl, m, rec, tag, "multistore:subset", only=set(sub) | {MVS.NO_VARIATION_INDEX}):
                    return
                if len(store.MultiVarData) < n0:
                    rec.witness("subset dropped a MultiVarData")
                if len(store.SparseVarRegionList.Region) < r0:
                    rec.witness("subset pruned a region")
                    used = {x for d in store.MultiVarData for x in d.VarRegionIndex}
                    if used != set(range(len(store.SparseVarRegionList.Region))):
                        rec.violation("multistore:prune_regions", "%s: regions %d, used %s" % (tag, len(store.SparseVarRegionList.Region), sorted(used)))
                        return


# =========================================================================== E4 IUP
IUP_POINTS = [(0, 0), (10, 0), (10, 10), (5, 5), (0, 10), (20, 5)]
IUP_DELTAS = [(0, 0), (2, 2), (4, 4), (1, 0), (-3, 2), (3, 3)]
# small deltas (of the order of the tolerance): no point is forced, the optimiser takes its
# circular dynamic-programming branch
IUP_DELTAS_SMALL = [(0, 0), (1, 0), (0, -1), (1, -2), (2, 0), (-1, 1)]
IUP_TOLS = [0, 0.5, 1]
PHANTOM_C = [(0, 0), (30, 0), (0, 0), (0, 0)]
PHANTOM_D = [(0, 0), (1, 0), (0, 0), (0, 0)]


class Iup(Unit):
    name = "iup"
    chunk = 2
    rule = ("IUP: outlines of n points over a 6-point coordinate alphabet (incl. repeated, collinear, equal-x/equal-y points) x every delta vector over a 6-delta alphabet, as one contour and/or split in two contours, + 4 phantom points; "
            "families (n, coordinate atoms, delta atoms, contours): quick (1,6,6,one) (2,6,6,both) (3,6,6,one) (3,6,4,two) (4,4,3,one) and, over a second alphabet of 6 small deltas of the order of the tolerance, (3,6,4,one) (4,5,4,one); thorough (1,6,6,one) (2,6,6,both) (3,6,6,both) (4,6,4,one) (4,4,4,two) (5,4,3,one), small deltas (3,6,6,both) (4,6,4,one) (5,4,3,one); x tolerance {0,0.5,1}. Oracle: exact Fraction IUP from the gvar specification. For all 2^n explicit-point subsets iup_delta == reference; "
            "iup_delta_optimize never changes an explicit delta, its result re-inferred by the reference is within tolerance (Euclidean) of every original delta and it raises no AssertionError (forced set inside the solution); "
            "non-minimal results and forced points that brute force shows unnecessary are counted only; TupleVariation.optimize (quick: tolerance 0.5 for n<=3; thorough: all) keeps the optimised form only if its compiled size is smaller and never changes values; distinct = each (coords, contours, deltas, tolerance)")
    required_witnesses = ("IUP dropped at least one delta", "optimizer kept every delta", "forced set non-empty", "forced set empty with deltas kept (circular DP)",
                          "interpolated (strictly between) inferred delta", "tolerance made a difference", "TupleVariation.optimize kept the unoptimised form although deltas could be dropped",
                          "TupleVariation.optimize adopted the optimised form", "two contours")

    def spec(self, tier):
        # (n, number of coordinate atoms, number of delta atoms, "single" contour | "split" in two | "both")
        if tier == "quick":
            return [(1, 6, 6, "single"), (2, 6, 6, "both"), (3, 6, 6, "single"), (3, 6, 4, "split"), (4, 4, 3, "single"), (3, 6, 104, "single"), (4, 5, 104, "single")]
        return [(1, 6, 6, "single"), (2, 6, 6, "both"), (3, 6, 6, "both"), (4, 6, 4, "single"), (4, 4, 4, "split"), (5, 4, 3, "single"), (3, 6, 106, "both"), (4, 6, 104, "single"), (5, 4, 103, "single")]

    def cases(self, tier, seed):
        for n, nc, nd, which in self.spec(tier):
            tv = 2 if tier != "quick" else (1 if n <= 3 else 0)
            ends_list = [[n - 1]] if which in ("single", "both") else []
            if which in ("split", "both"):
                ends_list += [[k - 1, n - 1] for k in range(1, n)]
            for cs in itertools.product(range(nc), repeat=n):
                for ends in ends_list:
                    yield [list(cs), ends, nd, -1, tv]

    def bounds(self, tier, seed):
        return {"families(n, coord atoms, delta atoms, contours)": self.spec(tier), "points": IUP_POINTS, "deltas": IUP_DELTAS, "small_deltas": IUP_DELTAS_SMALL, "tolerances": IUP_TOLS,
                "phantom": [PHANTOM_C, PHANTOM_D]}

    def check(self, case, rec):
        cs, ends, nd, d0, tvmode = case
        # TupleVariation.optimize: 2 = every tolerance, 1 = its default tolerance 0.5 only, 0 = not in this case
        tv_tols = None if tvmode == 2 else (0.5,) if tvmode == 1 else ()
        n = len(cs)
        coords = [IUP_POINTS[i] for i in cs] + PHANTOM_C
        if len(ends) > 1:
            rec.witness("two contours")
        starts = [0] + [e + 1 for e in ends[:-1]]
        spans = list(zip(starts, [e + 1 for e in ends]))
        forced_fn = getattr(IUP, "_iup_contour_bound_forced_set", None)
        masks = list(range(1 << n))
        nev = 0
        dalpha = IUP_DELTAS
        if nd >= 100:  # delta atoms 100+k: the first k atoms of the small-delta alphabet
            dalpha, nd = IUP_DELTAS_SMALL, nd - 100
        first = range(nd) if d0 < 0 else [d0]
        for dhead in first:
            for dtail in itertools.product(range(nd), repeat=n - 1):
                ds = (dhead,) + dtail
                deltas = [dalpha[i] for i in ds] + PHANTOM_D
                # ---- all 2^n subsets: implementation vs exact reference (phantoms explicit)
                inferred = []
                for mask in masks:
                    masked = [deltas[i] if (mask >> i) & 1 else None for i in range(n)] + PHANTOM_D
                    ref = R.iup_outline(masked, coords, ends)
                    got = IUP.iup_delta(list(masked), list(coords), list(ends))
                    nev += 1
                    if len(got) != n + 4 or any(g != r and not (close(g[0], float(r[0])) and close(g[1], float(r[1]))) for g, r in zip(got, ref)):
                        rec.violation("iup:iup_delta", "iup_delta(%s, %s, %s) = %s, gvar specification gives %s" % (masked, coords, ends, list(got), [(str(a), str(b)) for a, b in ref]))
                        return
                    inferred.append(ref)
                    if mask and any(r[0].denominator != 1 or r[1].denominator != 1 for r in ref[:n]):
                        rec.witness("interpolated (strictly between) inferred delta")
                err2 = [[R.dist2(inferred[mask][i], deltas[i]) for i in range(n)] for mask in masks]
                results = []
                for tol in IUP_TOLS:
                    rec.nontrivial_n(1)
                    t2 = F(tol) ** 2
                    valid = [all(e <= t2 for e in err2[mask]) for mask in masks]
                    opt = IUP.iup_delta_optimize(list(deltas), list(coords), list(ends), tolerance=tol)
                    nev += 1
                    if len(opt) != n + 4 or any(o is not None and tuple(o) != tuple(d) for o, d in zip(opt, deltas)):
                        rec.violation("iup:optimize-changed-explicit-delta", "iup_delta_optimize(%s, %s, %s, %s) = %s" % (deltas, coords, ends, tol, opt))
                        return
                    full = R.iup_outline(list(opt), coords, ends)
                    lim = (F(tol) + F(1, 10**9)) ** 2
                    for i in range(n + 4):
                        if R.dist2(full[i], deltas[i]) > lim:
                            rec.violation("iup:optimize-out-of-tolerance", "iup_delta_optimize(%s, %s, %s, tolerance=%s) = %s: point %d is inferred as (%s,%s), original delta %s"
                                          % (deltas, coords, ends, tol, opt, i, full[i][0], full[i][1], deltas[i]))
                            return
                    omask = sum(1 << i for i in range(n) if opt[i] is not None)
                    results.append(omask)
                    if omask != (1 << n) - 1:
                        rec.witness("IUP dropped at least one delta")
                    else:
                        rec.witness("optimizer kept every delta")
                    best = min(bin(m).count("1") for m in masks if valid[m])
                    if bin(omask).count("1") > best:
                        rec.count("optimizer result larger than the brute-force minimum")
                    # ---- forced set (documented as precise) against brute force, per contour
                    if forced_fn is not None:
                        any_forced = False
                        for a, b in spans:
                            forced = forced_fn(deltas[a:b], coords[a:b], tol)
                            if forced:
                                any_forced = True
                            fmask = sum(1 << (a + i) for i in forced)
                            if any(valid[m] and (m & fmask) != fmask for m in masks):
                                # the docstring calls the forced set "precise"; when it is not, only optimality
                                # suffers (values stay within tolerance), which the property does not promise
                                rec.count("forced set contains a point that brute force shows is not necessary (tolerance %s)" % tol)
                        if any_forced:
                            rec.witness("forced set non-empty")
                        elif omask and len(spans) == 1 and len(set(deltas[:n])) > 1:
                            rec.witness("forced set empty with deltas kept (circular DP)")
                    # ---- TupleVariation.optimize
                    if tv_tols is not None and tol not in tv_tols:
                        continue
                    var = TupleVariation({"wght": (0.0, 1.0, 1.0)}, list(deltas))
                    size0 = sum(len(x) for x in var.compile(["wght"]))
                    var.optimize(list(coords), list(ends), tolerance=tol)
                    nev += 1
                    after = list(var.coordinates)
                    if any(o is not None and tuple(o) != tuple(d) for o, d in zip(after, deltas)):
                        rec.violation("iup:TupleVariation.optimize-changed-delta", "deltas %s coords %s tolerance %s -> %s" % (deltas, coords, tol, after))
                        return
                    if None in after:
                        size1 = sum(len(x) for x in TupleVariation({"wght": (0.0, 1.0, 1.0)}, list(after)).compile(["wght"]))
                        if size1 >= size0:
                            rec.violation("iup:TupleVariation.optimize-not-smaller", "deltas %s coords %s tolerance %s: optimised form kept with %d bytes >= %d" % (deltas, coords, tol, size1, size0))
                            return
                        full = R.iup_outline(after, coords, ends)
                        if any(R.dist2(full[i], deltas[i]) > lim for i in range(n + 4)):
                            rec.violation("iup:TupleVariation.optimize-out-of-tolerance", "deltas %s coords %s tolerance %s -> %s" % (deltas, coords, tol, after))
                            return
                        rec.witness("TupleVariation.optimize adopted the optimised form")
                    elif None in opt:
                        rec.witness("TupleVariation.optimize kept the unoptimised form although deltas could be dropped")
                if len(set(results)) > 1:
                    rec.witness("tolerance made a difference")
        rec.evals(nev)


# =========================================================================== model histories
class ModelHistories(Unit):
    """One VariationModel object used several times: sparse master lists (sub-models are cached by
    their None-pattern) interleaved with reorderMasters (which changes what a position means)."""

    name = "model-histories"
    rule = ("one VariationModel object per history: master-location sets of 3..4 locations on {-1, -1/2, 1/2, 1} (1 axis) and 4 locations on {0, 1}^2 (2 axes) x histories "
            "[sparse(P1)?, reorderMasters(m), sparse(P2)] for every None-pattern P1, P2 with one missing non-default master and EVERY permutation m of the masters (the default may move): "
            "after each sparse call the returned (deltas, supports) interpolate every present master exactly (Fraction reference evaluating the tent products), and equal those of a fresh model built on the reordered locations; "
            "states = (locations, permutation, patterns), transitions = calls on the model; distinct = each history")
    chunk = 16
    required_witnesses = ("reorder between two sparse calls with the same pattern", "default master moved by the reorder")

    SETS = [
        [{}, {"wght": 1.0}, {"wght": 0.5}],
        [{}, {"wght": 1.0}, {"wght": -1.0}, {"wght": 0.5}],
        [{}, {"wght": 0.5}, {"wght": 1.0}, {"wght": -0.5}],
        [{}, {"wght": 1.0}, {"wdth": 1.0}, {"wght": 1.0, "wdth": 1.0}],
        [{}, {"wght": 1.0}, {"wght": 0.5, "wdth": 1.0}, {"wght": 1.0, "wdth": 1.0}],
    ]

    def cases(self, tier, seed):
        for si, locs in enumerate(self.SETS):
            n = len(locs)
            for m in itertools.permutations(range(n)):
                for p1 in [None] + list(range(1, n)):
                    for p2 in range(n):
                        yield [si, list(m), p1, p2]

    @staticmethod
    def exact(rec, locs, present, values, deltas, supports, what):
        """sum_i delta_i * scalar(support_i, loc_k) == value_k at every present master"""
        for k, loc in enumerate(locs):
            if not present[k]:
                continue
            tot = F(0)
            for d, sup in zip(deltas, supports):
                sc = F(1)
                for ax, (lo, pk, hi) in sup.items():
                    sc *= R.axis_scalar(F(loc.get(ax, 0)).limit_denominator(64), F(lo).limit_denominator(64), F(pk).limit_denominator(64), F(hi).limit_denominator(64))
                tot += F(d).limit_denominator(1 << 20) * sc
            if abs(tot - values[k]) > F(1, 10 ** 6):
                rec.violation("model-history:master-not-recovered:" + what, "locations %s values %s: interpolating the returned deltas at master %d (%s) gives %s" % (locs, values, k, loc, float(tot)))
                return False
        return True

    def check(self, case, rec):
        si, m, p1, p2 = case
        locs = [dict(l) for l in self.SETS[si]]
        n = len(locs)
        values = [F(100 + 37 * k * k + 11 * k) for k in range(n)]
        model = VariationModel(locs)
        rec.state([si, "new"])
        if p1 is not None:
            sparse = [None if k == p1 else float(values[k]) for k in range(n)]
            deltas, supports = model.getDeltasAndSupports(sparse)
            rec.transition()
            self.exact(rec, locs, [k != p1 for k in range(n)], values, deltas, supports, "first-sparse")
        new_values = model.reorderMasters([float(v) for v in values], m)
        rec.transition()
        new_locs = [locs[i] for i in m]
        if [F(v) for v in new_values] != [values[i] for i in m]:
            rec.violation("model-history:reorder-return", "reorderMasters(%s) returned %s" % (m, new_values))
            return
        nv = [values[i] for i in m]
        # the default master cannot be the missing one
        dflt = [k for k, l in enumerate(new_locs) if not any(l.values())][0]
        if p2 == dflt:
            return
        if dflt != 0:
            rec.witness("default master moved by the reorder")
        if p1 is not None and p1 == p2 and m != list(range(n)):
            rec.witness("reorder between two sparse calls with the same pattern")
        sparse2 = [None if k == p2 else float(nv[k]) for k in range(n)]
        deltas, supports = model.getDeltasAndSupports(sparse2)
        rec.transition()
        rec.state([si, m, p1, p2])
        ok = self.exact(rec, new_locs, [k != p2 for k in range(n)], nv, deltas, supports, "sparse-after-reorder")
        fresh = VariationModel(new_locs)
        d2, s2 = fresh.getDeltasAndSupports(sparse2)
        if ok and (list(deltas) != list(d2) or list(supports) != list(s2)):
            rec.violation("model-history:differs-from-fresh-model", "history %s: deltas %s supports %s, a fresh model on the reordered locations gives %s %s" % (case, deltas, supports, d2, s2))
        # full lists as well
        full = model.getDeltas([float(v) for v in nv])
        rec.transition()
        if list(full) != list(fresh.getDeltas([float(v) for v in nv])):
            rec.violation("model-history:full-differs-from-fresh-model", "history %s: full-master deltas differ from a fresh model" % (case,))
        rec.nontrivial()
        rec.trace()


class SupportScalar(Unit):
    name = "support-scalar"
    chunk = 16
    rule = ("supportScalar(location, support): EVERY (start, peak, end) triple over the quarter lattice of [-1, 1] - well formed or not (start > peak, peak > end, regions that straddle zero with a non-zero peak, "
            "peak 0) - x every coordinate on the eighth lattice of [-5/4, 5/4], on one axis and as the second axis of a two-axis support, ot=True: equals the per-axis rule of the OpenType variations "
            "overview (exact rationals); distinct = each triple")
    required_witnesses = ("well-formed tent", "region straddling zero with a non-zero peak is ignored", "out-of-order region is ignored", "peak 0")

    def cases(self, tier, seed):
        q = [F(i, 4) for i in range(-4, 5)]
        for start in q:
            for peak in q:
                for end in q:
                    yield [str(start), str(peak), str(end)]

    def check(self, case, rec):
        start, peak, end = (F(x) for x in case)
        rec.nontrivial()
        if start > peak or peak > end:
            rec.witness("out-of-order region is ignored")
        elif start < 0 and end > 0 and peak != 0:
            rec.witness("region straddling zero with a non-zero peak is ignored")
        elif peak == 0:
            rec.witness("peak 0")
        else:
            rec.witness("well-formed tent")
        n = 0
        for h in range(-10, 11):
            v = F(h, 8)
            n += 1
            exp = R.axis_scalar(v, start, peak, end)
            got = M.supportScalar({"wght": float(v)}, {"wght": (float(start), float(peak), float(end))})
            if abs(float(exp) - got) > 1e-12:
                rec.violation("supportScalar:one-axis", "supportScalar(wght=%s, (%s, %s, %s)) = %r, the specification gives %s" % (v, start, peak, end, got, exp))
            # as the second axis next to a plain tent at its peak / half way
            for other, oexp in ((F(1), F(1)), (F(1, 2), F(1, 2))):
                got2 = M.supportScalar({"wdth": float(other), "wght": float(v)}, {"wdth": (0.0, 1.0, 1.0), "wght": (float(start), float(peak), float(end))})
                if abs(float(exp * oexp) - got2) > 1e-12:
                    rec.violation("supportScalar:two-axes", "supportScalar(wdth=%s, wght=%s, wght region (%s, %s, %s)) = %r, the specification gives %s" % (other, v, start, peak, end, got2, exp * oexp))
        rec.evals(3 * n - 1)


def units():
    return [Models1(), Models2(), Models3(), Normalize(), Renormalize(), Solver(), StoreHistories(), MultiStoreHistories(), Iup(), ModelHistories(), SupportScalar()]
