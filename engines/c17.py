"""C17 - renumbering glyphs or rescaling the em changes nothing else.

reorder: every permutation of the glyph order for small generated fonts, generators of the
permutation group (adjacent transpositions, (1 k) swaps, rotation, reversal) for corpus fonts;
scale: a set of new units-per-em values on every font with outlines.
Oracle: a by-glyph-NAME snapshot taken with HarfBuzz (outlines, advances, nominal glyphs,
variation lattice, shaping of all short strings) before vs after.
"""
from mc import env  # noqa: F401
from mc.kernel import Unit, h64

import io
import itertools

from fontTools.ttLib import TTFont
from fontTools.ttLib.reorderGlyphs import reorderGlyphs
from fontTools.ttLib.scaleUpem import scale_upem

from oracles import corpus, geom, hbridge, tinyfont

LEVEL = "exploration"
ASSUMPTIONS = [
    "HarfBuzz 12.1 is the observer of outlines / advances / nominal glyphs / shaping, by glyph name through the font's own glyph order",
    "shaping alphabet: the first 6 mapped characters (plus characters of glyphs named in GSUB/GPOS coverage when mapped); strings up to length 2 (quick) / 3 (thorough)",
    "scaling tolerance: 0.5 unit per rounded quantity that is summed (coordinate + component offset + one per active variation tuple); a table that is not scaled at all is off by the full factor and is detected for every factor != 1",
]

_FONTS = {}
FEATURES = {"kern": True, "liga": True, "calt": True, "mark": True, "mkmk": True, "ccmp": True}
UPEMS = (16, 500, 1000, 1024, 2000, 2048, 2500, 16384)


def to_sfnt(data, idx):
    f = TTFont(io.BytesIO(data), fontNumber=idx)
    f.flavor = None
    b = io.BytesIO()
    f.save(b)
    return b.getvalue()


def load_fonts():
    if _FONTS:
        return
    for pname, spec in sorted(tinyfont.pool().items()):
        _FONTS["tiny:" + pname] = tinyfont.build_bytes(spec)
    _FONTS["tiny:vmtx-kern-post3"] = tinyfont.build_bytes({"kind": "ttf", "shapes": "mixed", "vmtx": True, "post3": False, "composite": True,
                                                           "kern": [["a", "b", -30], ["c", "a", 25]], "fea": tinyfont.FEA_BASIC, "glyphs": ["a", "b", "c", "d", "e", "f"]})
    # anchor arrays that START with a NULL anchor: a base / ligature component / mark that only takes the
    # second mark class, so the record is [NULL, Anchor]
    spec = dict(tinyfont.pool()["ttf-mark"])
    spec["fea"] = tinyfont.FEA_MARK.replace("  pos base b <anchor 260 710> mark @TOP;\n",
                                            "  pos base b <anchor 260 710> mark @TOP;\n  pos base c <anchor 270 -35> mark @BOT;\n"
                                            "  pos ligature d <anchor NULL> mark @TOP <anchor 205 -45> mark @BOT ligComponent <anchor 410 690> mark @TOP;\n").replace(
        "feature mkmk { pos mark m <anchor 100 900> mark @TOP; } mkmk;", "feature mkmk { pos mark m <anchor 100 900> mark @TOP; pos mark n <anchor 130 -250> mark @BOT; } mkmk;").replace(
        "GlyphClassDef [a b c d e], , [m n], ;", "GlyphClassDef [a b c e], [d], [m n], ;")
    assert spec["fea"] != tinyfont.FEA_MARK
    _FONTS["tiny:ttf-mark-null-first"] = tinyfont.build_bytes(spec)
    # a variable font with vertical metrics: varLib builds a VVAR (no advance-height map: the
    # delta sets are indexed by glyph ID)
    _FONTS["tiny:vf-vmtx-1axis"] = tinyfont.build_bytes({"kind": "ttf", "shapes": "mixed", "glyphs": ["a", "b", "c", "d", "e"], "vmtx": True, "fea": tinyfont.FEA_VAR,
                                                         "axes": [["wght", 100, 400, 900]], "masters": [{"wght": 400}, {"wght": 100}, {"wght": 900}]})
    for name, data, idx in corpus.binary_faces():
        try:
            f = TTFont(io.BytesIO(data), fontNumber=idx, lazy=True)
        except Exception:
            continue
        if not ("glyf" in f or "CFF " in f or "CFF2" in f) or "VARC" in f or "dot-cubic" in name:
            continue
        if not all(t in f for t in ("head", "hhea", "hmtx", "maxp")) or len(data) > 120000:
            continue
        _FONTS["bin:" + name] = to_sfnt(data, idx)
    for name, data in corpus.compiled_ttx():
        f = TTFont(io.BytesIO(data), lazy=True)
        if not ("glyf" in f or "CFF " in f or "CFF2" in f) or "VARC" in f:
            continue
        if not all(t in f for t in ("head", "hhea", "hmtx", "maxp", "cmap")) or len(data) > 60000:
            continue
        if "master_cff2_input/TestCFF2_" in name or "sbix" in name:
            continue
        _FONTS["ttx:" + name] = data
    derive_fonts()


def derive_fonts():
    """variants of corpus fonts that put a rarely used representation in place: HVAR / VVAR
    without an advance mapping (delta sets indexed by glyph ID)"""
    nh = 0
    for key in sorted((k for k in _FONTS if not k.startswith("derived:")), key=lambda k: (len(_FONTS[k]), k)):
        f = TTFont(io.BytesIO(_FONTS[key]), lazy=True)
        for tag, attr in (("HVAR", "AdvWidthMap"), ("VVAR", "AdvHeightMap")):
            if tag not in f or len(_FONTS[key]) > 30000 or (tag == "HVAR" and nh >= 4):
                continue
            g = TTFont(io.BytesIO(_FONTS[key]))
            t = g[tag].table
            m = getattr(t, attr, None)
            if m is None:
                continue
            # make the mapping implicit: one VarData whose item i belongs to glyph i
            from fontTools.varLib import varStore
            from fontTools.varLib.builder import buildVarData

            order = g.getGlyphOrder()
            store = t.VarStore
            nreg = len(store.VarRegionList.Region)
            rows = []
            for gn in order:
                vi = m.mapping[gn]
                vd = store.VarData[vi >> 16]
                row = [0] * nreg
                if (vi & 0xFFFF) < len(vd.Item):
                    for ri, d in zip(vd.VarRegionIndex, vd.Item[vi & 0xFFFF]):
                        row[ri] = d
                rows.append(row)
            store.VarData = [buildVarData(list(range(nreg)), rows, optimize=False)]
            store.VarDataCount = 1
            setattr(t, attr, None)
            nh += tag == "HVAR"
            for other in ("LsbMap", "RsbMap", "TsbMap", "BsbMap", "VOrgMap"):
                if getattr(t, other, None) is not None:
                    setattr(t, other, None)
            b = io.BytesIO()
            g.save(b)
            _FONTS["derived:%s-implicit-%s" % (key.split("/")[-1], attr)] = b.getvalue()


def var_locations(font):
    if "fvar" not in font:
        return [{}]
    locs = [{}]
    for a in font["fvar"].axes:
        locs.append({a.axisTag: a.minValue})
        locs.append({a.axisTag: a.maxValue})
    if len(font["fvar"].axes) > 1:
        locs.append({a.axisTag: a.maxValue for a in font["fvar"].axes})
    return locs


def alphabet(font, n=6):
    cmap = font.getBestCmap() or {}
    cps = sorted(cmap)
    out = cps[:n]
    # ... plus up to two characters of combining marks (GDEF class 3) beyond those: mark attachment
    # is only observable in strings that contain the marks
    try:
        classes = font["GDEF"].table.GlyphClassDef.classDefs if "GDEF" in font and font["GDEF"].table.GlyphClassDef else {}
    except Exception:
        classes = {}
    extra = [cp for cp in cps[n:] if classes.get(cmap[cp]) == 3][:2]
    return out + extra


def snapshot(data, strlen, order=None):
    """by-name observation of a font through HarfBuzz.  `order` is the in-memory glyph order
    the transformation was asked to produce: fonts without stored glyph names (post format 3,
    duplicate names) get names synthesised from glyph IDs on reload, which says nothing about
    identity, so names are always taken from the order the caller holds."""
    font = TTFont(io.BytesIO(data), lazy=True)
    if order is None:
        order = font.getGlyphOrder()
    hbf = hbridge.HBFont(data)
    snap = {"upem": hbf.upem, "tables": sorted(font.keys()), "glyphs": {}, "cmap": {}, "shape": {}}
    cmap = font.getBestCmap() or {}
    for cp in cmap:
        gid = hbf.nominal(cp)
        snap["cmap"][cp] = order[gid] if gid is not None and gid < len(order) else None
    locs = var_locations(font)
    for li, loc in enumerate(locs):
        hbf.set_location(loc)
        for gid, gn in enumerate(order):
            raw = hbf.raw_outline(gid)
            snap["glyphs"][(li, gn)] = (geom.canon_contours(raw), hbf.h_advance(gid), raw)
            if "vmtx" in font:
                snap.setdefault("vadv", {})[(li, gn)] = hbf.v_advance(gid)
    hbf.set_location({})
    alpha = alphabet(font)
    if "GSUB" in font or "GPOS" in font or "kern" in font:
        for n in range(1, strlen + 1):
            for s in itertools.product(alpha, repeat=n):
                text = "".join(chr(c) for c in s)
                res = hbf.shape(text=text, features=FEATURES)
                snap["shape"][text] = [(order[g] if g < len(order) else g, cl, xa, ya, xo, yo) for g, cl, xa, ya, xo, yo in res]
    snap["ntuples"] = {}
    if "gvar" in font:
        font2 = TTFont(io.BytesIO(data))
        gv = font2["gvar"]
        for gn in font2.getGlyphOrder():
            snap["ntuples"][gn] = len(gv.variations.get(gn, []))
            if any(c is None for v in gv.variations.get(gn, []) for c in v.coordinates):
                snap.setdefault("inferred", set()).add(gn)
    snap["cff"] = "CFF " in font or "CFF2" in font
    if "CFF " in font:
        # the matrix as STORED in the file (rawDict holds only what the bytes say; the attribute
        # would fall back to a default that lives in the library)
        td = TTFont(io.BytesIO(data))["CFF "].cff.topDictIndex[0]
        snap["fontmatrix_stored"] = list(td.rawDict["FontMatrix"]) if "FontMatrix" in td.rawDict else None
    # a component transform multiplies the rounding error of the component's own points
    snap["compscale"] = 1.0
    if "glyf" in font:
        font3 = TTFont(io.BytesIO(data))
        glyf = font3["glyf"]
        smax = 1.0
        for gn in font3.getGlyphOrder():
            g = glyf[gn]
            if g.isComposite():
                for c in g.components:
                    if hasattr(c, "transform"):
                        (xx, xy), (yx, yy) = c.transform
                        smax = max(smax, abs(xx) + abs(yx), abs(xy) + abs(yy))
        snap["compscale"] = smax * smax  # allow one level of nesting
        # composite depth: every level of nesting adds one independently rounded offset
        depth = {}

        def depth_of(gn, seen=()):
            if gn not in depth:
                g = glyf[gn]
                depth[gn] = 0 if (not g.isComposite() or gn in seen) else 1 + max([depth_of(c.glyphName, seen + (gn,)) for c in g.components] or [0])
            return depth[gn]

        snap["compdepth"] = {gn: depth_of(gn) for gn in font3.getGlyphOrder()}

        def flat(gn, seen=()):
            g = glyf[gn]
            out = set()
            if g.isComposite() and gn not in seen:
                for c in g.components:
                    out.add(c.glyphName)
                    out |= flat(c.glyphName, seen + (gn,))
            return out

        snap["compnames"] = {gn: sorted(flat(gn)) for gn in font3.getGlyphOrder() if glyf[gn].isComposite()}
        # HarfBuzz (like fontTools' glyph set) draws a glyf outline shifted by lsb - xMin; the two
        # numbers are stored - and therefore rounded by a scaling - independently
        snap["hshift"] = {}
        hm = font3["hmtx"].metrics
        for gn in font3.getGlyphOrder():
            g = glyf[gn]
            snap["hshift"][gn] = (hm[gn][1] - g.xMin) if g.numberOfContours != 0 and hasattr(g, "xMin") else 0
            snap.setdefault("lsb", {})[gn] = hm[gn][1]
    snap["nvar"] = 0
    if "fvar" in font:
        # upper bound on delta sets that can be active for advances (HVAR regions / gvar tuples)
        snap["nvar"] = max([1] + list(snap["ntuples"].values()))
        font2 = TTFont(io.BytesIO(data))
        if "HVAR" in font:
            snap["nvar"] = max(snap["nvar"], len(font2["HVAR"].table.VarStore.VarRegionList.Region))
        if "VVAR" in font:
            snap["nvvar"] = len(font2["VVAR"].table.VarStore.VarRegionList.Region)
        if "CFF2" in font:
            vs = getattr(font2["CFF2"].cff.topDictIndex[0], "VarStore", None)
            if vs is not None:
                snap["nvar"] = max(snap["nvar"], len(vs.otVarStore.VarRegionList.Region))
    return snap


def compare(a, b, factor, rec, what, key):
    """a = before, b = after; factor = scale."""
    scaled = factor != 1
    if a["tables"] != b["tables"]:
        rec.violation(what + ":tables", "%s: table set changed %s -> %s" % (key, a["tables"], b["tables"]))
    if a["cmap"] != b["cmap"]:
        diff = [(hex(c), a["cmap"][c], b["cmap"].get(c)) for c in a["cmap"] if a["cmap"][c] != b["cmap"].get(c)][:5]
        rec.violation(what + ":cmap", "%s: character map changed: %s" % (key, diff))
    if set(a["glyphs"]) != set(b["glyphs"]):
        rec.violation(what + ":glyph-names", "%s: glyph names changed" % key)
        return
    for (li, gn), (oa, adva, rawa) in a["glyphs"].items():
        ob, advb, rawb = b["glyphs"][(li, gn)]
        nt = a["ntuples"].get(gn, 0) if li else 0
        tol = (1.0 + 0.5 * nt + (0.5 if li else 0)) if scaled else (0.01 if not li else 0.1)
        if not scaled:
            msg = geom.contours_close(oa, ob, tol)
            if msg:
                rec.violation(what + ":outline", "%s glyph %r (location #%d): %s" % (key, gn, li, msg), observed=[geom._round_contour(c) for c in ob][:4], expected=[geom._round_contour(c) for c in oa][:4])
        else:
            # scaling keeps the drawing structure: compare the raw pen streams point by point
            # (canonicalisation would drop segments that collapse to zero length at small ems)
            if a.get("cff"):
                tol = 1.0 + (0.5 * a.get("nvar", 0) if li else 0)
            else:
                cs_ = a.get("compscale", 1.0)
                # transformed components: rounding of the component's points is multiplied by
                # the transform; the composite's xMin is rounded separately from its lsb, which
                # shifts the whole outline (lsb - xMin) by up to one more unit
                tol = 0.5 + 0.5 * cs_ * (1 + (nt if li else 0)) + (1.0 if cs_ > 1 else 0)
                # a composite of composites: one more rounded offset per further level
                tol += 0.5 * cs_ * max(0, a.get("compdepth", {}).get(gn, 0) - 1)
            if li and factor <= 0.125 and (gn in a.get("inferred", ()) or any(c in a.get("inferred", ()) for c in a.get("compnames", {}).get(gn, ()))):
                # heavy down-scaling makes distinct coordinates coincide; deltas that gvar leaves to
                # be inferred (IUP) are interpolated over those collapsed coordinates, which is not
                # a rounding of the scaled inferred delta: not judged away from the default location
                rec.count("IUP-inferred deltas at upem/8 or smaller: variation locations not judged")
                tol = float("inf")
            sha = shb = 0
            if not a.get("cff") and "hshift" in a and "hshift" in b:
                if li == 0:
                    # default location: take the (exactly known) shift out on both sides, so that the
                    # points are compared with the point budget alone; the side bearing itself must
                    # be the rounded scaled one
                    sha, shb = a["hshift"].get(gn, 0), b["hshift"].get(gn, 0)
                    if abs(a["lsb"][gn] * factor - b["lsb"][gn]) > 0.5 + 1e-9:
                        rec.violation(what + ":lsb", "%s glyph %r: left side bearing %s -> %s (factor %s)" % (key, gn, a["lsb"][gn], b["lsb"][gn], factor))
                else:
                    # elsewhere the shift varies with the phantom points: lsb' is rounded once more
                    # (0.5 [+0.5 per tuple]) and xMin' carries the point budget again
                    tol += tol + 0.5
            worst, drift_ok, struct = raw_compare(rawa, rawb, factor, per_move=0.5 * (1 + (a.get("nvar", 0) if li else 0)), shift_a=sha, shift_b=shb)
            if tol == float("inf"):
                pass
            elif struct and factor <= 0.125:
                # heavy down-scaling of CFF: moves that round to zero are dropped by the
                # rasteriser, the point structure collapses; compare the extents instead
                rec.count("collapsed outline at small em: extents compared")
                ba, bb = extents(rawa), extents(rawb)
                npts = sum(len(g) - 1 for c in rawa for g in c[2]) + len(rawa)
                if (ba is None) != (bb is None) or (ba and max(abs(x * factor - y) for x, y in zip(ba, bb)) > 0.5 * npts + 0.5):
                    rec.violation(what + ":outline", "%s glyph %r (location #%d): extents %s -> %s (factor %s)" % (key, gn, li, ba, bb, factor))
            elif struct:
                rec.violation(what + ":outline-structure", "%s glyph %r (location #%d): %s" % (key, gn, li, struct))
            elif worst > tol:
                cls = what + ":outline"
                if a.get("cff") and drift_ok:
                    # CFF charstrings store relative moves; scale_upem rounds every move on
                    # its own, so the error accumulates along the path (0.5 per move written)
                    cls = what + ":outline:cff-accumulated-rounding"
                rec.violation(cls, "%s glyph %r (location #%d): a coordinate is off by %.2f units from old*factor (budget %.1f)" % (key, gn, li, worst, tol))
        atol = (0.5 + 0.5 * (a.get("nvar", 1) if li else 0)) + 1e-6 if scaled else (1 if li else 0)
        if abs(adva * factor - advb) > atol:
            rec.violation(what + ":advance", "%s glyph %r (location #%d): advance %s -> %s (factor %s)" % (key, gn, li, adva, advb, factor))
        if "vadv" in a and "vadv" in b:
            va, vb = a["vadv"][(li, gn)], b["vadv"][(li, gn)]
            vtol = atol
            if scaled and "VVAR" in a["tables"] and li:
                vtol = 0.5 + 0.5 * a.get("nvvar", a.get("nvar", 1)) + 1e-6
            if abs(va * factor - vb) > vtol:
                rec.violation(what + ":vertical-advance", "%s glyph %r (location #%d): vertical advance %s -> %s (factor %s)" % (key, gn, li, va, vb, factor))
            elif li and va != a["vadv"][(0, gn)]:
                rec.witness("vertical advance varies (VVAR)")
    if set(a["shape"]) != set(b["shape"]):
        rec.violation(what + ":shape-domain", "%s: shaped string set changed" % key)
        return
    for text, ra in a["shape"].items():
        rb = b["shape"][text]
        if [x[:2] for x in ra] != [x[:2] for x in rb]:
            rec.violation(what + ":shape-glyphs", "%s text %r: %s -> %s" % (key, text, [x[0] for x in ra], [x[0] for x in rb]))
            continue
        for x, y in zip(ra, rb):
            for i in (2, 3, 4, 5):
                tol = 2.0 if scaled else 0
                if abs(x[i] * factor - y[i]) > tol + 1e-6:
                    rec.violation(what + ":shape-positions", "%s text %r glyph %s: position field %d %s -> %s (factor %s)" % (key, text, x[0], i, x[i], y[i], factor))
                    break


def is_range_overflow(e):
    import struct

    msg = str(e)
    if isinstance(e, (struct.error, OverflowError)):
        return True
    if isinstance(e, ValueError) and "does not fit in format" in msg:
        return True
    if isinstance(e, AssertionError) and e.args and isinstance(e.args[0], tuple) and e.args[0] and isinstance(e.args[0][0], (int, float)) and abs(e.args[0][0]) >= 32768:
        return True
    return False


def has_dup_names(data):
    f = TTFont(io.BytesIO(data))
    if "post" in f and getattr(f["post"], "formatType", 0) == 3.0 and "CFF " not in f:
        return True
    order = f.getGlyphOrder()
    return any("#" in n or n.rsplit(".", 1)[-1].isdigit() for n in order)


def extents(raw):
    pts = [p for c in raw for g in c[2] for p in g[1:]]
    if not pts:
        return None
    return (min(p[0] for p in pts), min(p[1] for p in pts), max(p[0] for p in pts), max(p[1] for p in pts))


def point_stream(start, segs):
    pts = [tuple(start)] + [tuple(p) for g in segs for p in g[2:]]
    while len(pts) > 1 and pts[-1] == pts[0]:
        pts.pop()  # explicit or implied return to the start point
    return pts


def raw_compare(ra, rb, k, per_move=0.5, shift_a=0, shift_b=0):
    """ra, rb: raw contours [(closed, start, segs)].  Returns (worst absolute coordinate error
    against ra*k, whether every error stays within the cumulative rounding budget of
    `per_move` per coordinate written so far, structural mismatch message or None).
    A contour whose last point coincided with its start may get one extra point (and the
    reverse) when rounding moves the last point off the start: that point is compared with the
    start."""
    if len(ra) != len(rb):
        return 0, False, "contour count %d -> %d" % (len(ra), len(rb))
    worst = 0.0
    drift_ok = True
    n = 0
    for (ca, sa, ga), (cb, sb, gb) in zip(ra, rb):
        pa, pb = point_stream(sa, ga), point_stream(sb, gb)
        if len(pb) == len(pa) + 1:
            pa = pa + [pa[0]]
        elif len(pa) == len(pb) + 1:
            pb = pb + [pb[0]]
        if len(pa) != len(pb):
            return worst, False, "contour point count %d -> %d" % (len(pa), len(pb))
        n += 1
        for p, q in zip(pa, pb):
            e = max(abs((p[0] - shift_a) * k - (q[0] - shift_b)), abs(p[1] * k - q[1]))
            worst = max(worst, e)
            if e > per_move * n + 0.5:
                drift_ok = False
            n += 1
    return worst, drift_ok, None


def scale_contours(can, k):
    return [(c, tuple((s[0],) + tuple((p[0] * k, p[1] * k) for p in s[1:]) for s in segs)) for c, segs in can]


def perms_for(order, tier, seed):
    """permutations of the non-.notdef glyphs (first glyph stays first)"""
    rest = order[1:]
    n = len(rest)
    if n <= (5 if tier == "quick" else 6):
        for p in itertools.permutations(range(n)):
            if list(p) != list(range(n)):
                yield ["perm", list(p)]
        return
    yield ["rot", 1]
    yield ["rev"]
    yield ["rot", n // 2]
    ks = range(n - 1) if tier == "thorough" else [(i * 7 + seed) % (n - 1) for i in range(6)]
    for i in sorted(set(ks)):
        yield ["swap", i, i + 1]
    ks = range(1, n) if tier == "thorough" else [(i * 11 + seed) % (n - 1) + 1 for i in range(4)]
    for k in sorted(set(ks)):
        yield ["swap", 0, k]


def apply_perm(order, p):
    rest = list(order[1:])
    n = len(rest)
    if p[0] == "perm":
        rest = [rest[i] for i in p[1]]
    elif p[0] == "rot":
        k = p[1] % n
        rest = rest[k:] + rest[:k]
    elif p[0] == "rev":
        rest = rest[::-1]
    else:
        i, j = p[1], p[2]
        rest[i], rest[j] = rest[j], rest[i]
    return [order[0]] + rest


_SNAP = {}


def base_snapshot(key, strlen):
    k = (key, strlen)
    if k not in _SNAP:
        if len(_SNAP) > 30:
            _SNAP.clear()
        _SNAP[k] = snapshot(_FONTS[key], strlen)
    return _SNAP[k]


class Reorder(Unit):
    name = "reorder-glyphs"
    rule = ("reorderGlyphs(font, order): EVERY permutation of the non-.notdef glyphs for fonts with <=5 (thorough 6) of them (generated pool: glyf, CFF, CFF2, kern, vmtx, GSUB single/ligature/context, GPOS pair/class/mark/mkmk, GDEF, gvar/HVAR/MVAR); for larger corpus fonts the generators rotation by 1 and n/2, reversal, adjacent transpositions and (1 k) swaps (all in thorough, 10 rotating with the seed in quick); "
            "the first two permutations of every font also on a lazily loaded font and on a font object that was fully decoded and saved once before (also with the caller permuting the list returned by getGlyphOrder() in place); fonts include variants with HVAR/VVAR delta sets indexed by glyph ID (no advance map); font saved and reloaded; oracle: by glyph name, HarfBuzz outline + horizontal and vertical advance at {default, each axis min/max, all-max}, nominal glyph per code point, shaping of all strings of length <=2 (thorough 3) over 6 characters identical; distinct = (font, permutation)")
    chunk = 8
    required_witnesses = ("GSUB font", "GPOS font", "CFF font", "gvar font", "kern table", "full permutation group", "lazily loaded font", "vertical advance varies (VVAR)", "font saved once before the reordering", "glyph order list permuted in place")

    def setup(self, tier, seed):
        load_fonts()

    def cases(self, tier, seed):
        for key in sorted(_FONTS):
            aots = corpus.is_aots(key)
            if aots and tier == "quick" and (h64(key) + seed) % 6:
                continue
            order = TTFont(io.BytesIO(_FONTS[key]), lazy=True).getGlyphOrder()
            if len(order) < 3:
                continue
            for i, p in enumerate(perms_for(order, tier, seed)):
                yield [key, p, None]
                if i < 2:
                    # the same permutation on a lazily loaded font (tables and OpenType sub-tables
                    # decoded on demand)
                    yield [key, p, True]
                    # ... and on a font object that was saved once before (whatever a compile caches -
                    # glyph-name to glyph-ID maps, packed glyph data - is then in place)
                    yield [key, p, "saved-before"]
                    # ... and with the caller permuting the very list getGlyphOrder() returned, in place
                    yield [key, p, "saved-before-aliased"]

    def check(self, case, rec):
        key, p = case[:2]
        lazy = case[2] if len(case) > 2 else None
        strlen = 2
        before = base_snapshot(key, strlen)
        aliased = lazy == "saved-before-aliased"
        saved_before = lazy == "saved-before" or aliased
        font = TTFont(io.BytesIO(_FONTS[key]), lazy=None if saved_before else lazy)
        if saved_before:
            # decoded first: an undecoded table is copied, not compiled, and fills no cache
            font.ensureDecompiled()
            font.save(io.BytesIO())
            rec.witness("font saved once before the reordering")
        elif lazy:
            rec.witness("lazily loaded font")
        order = font.getGlyphOrder()
        if len(set(order)) != len(order):
            return
        new_order = apply_perm(order, p)
        if aliased:
            live = font.getGlyphOrder()
            live[:] = new_order
            rec.witness("glyph order list permuted in place")
            reorderGlyphs(font, live)
        else:
            reorderGlyphs(font, new_order)
        buf = io.BytesIO()
        font.save(buf)
        data = buf.getvalue()
        saved_order = TTFont(io.BytesIO(data), lazy=True).getGlyphOrder()
        if saved_order != new_order and len(set(order)) == len(order) and TTFont(io.BytesIO(_FONTS[key]), lazy=True).getGlyphOrder() == order and not any(n.startswith("glyph0") for n in order) and not has_dup_names(_FONTS[key]):
            rec.violation("reorder:glyph-order", "%s %s: saved font has glyph order %s, requested %s" % (key, p, saved_order[:8], new_order[:8]))
        after = snapshot(data, strlen, order=new_order)
        prefix = "reorder"
        if aliased:
            src = TTFont(io.BytesIO(_FONTS[key]), lazy=True)
            implicit = ("HVAR" in src and getattr(src["HVAR"].table, "AdvWidthMap", None) is None) or ("VVAR" in src and getattr(src["VVAR"].table, "AdvHeightMap", None) is None)
            prefix = "reorder-aliased[implicit-advance-map]" if implicit else "reorder-aliased"
        compare(before, after, 1, rec, prefix, "%s %s" % (key, p))
        rec.nontrivial()
        if "GSUB" in font:
            rec.witness("GSUB font")
        if "GPOS" in font:
            rec.witness("GPOS font")
        if "CFF " in font or "CFF2" in font:
            rec.witness("CFF font")
        if "gvar" in font:
            rec.witness("gvar font")
        if "kern" in font:
            rec.witness("kern table")
        if p[0] == "perm":
            rec.witness("full permutation group")


MATH_DESIGN_UNIT_FIELDS = ("DelimitedSubFormulaMinHeight", "DisplayOperatorMinHeight", "MinConnectorOverlap", "AdvanceMeasurement",
                           "StartConnectorLength", "EndConnectorLength", "FullAdvance")


def math_quantities(font):
    """{path: value} of every design-unit quantity of the MATH table: MathValueRecord.Value everywhere plus
    the plain 16-bit fields the specification gives in design units (percentages are not)"""
    out = {}

    def walk(obj, path):
        if isinstance(obj, (list, tuple)):
            for i, x in enumerate(obj):
                walk(x, "%s[%d]" % (path, i))
            return
        if not hasattr(obj, "__dict__"):
            return
        if hasattr(obj, "ensureDecompiled"):
            obj.ensureDecompiled()
        for k, v in sorted(vars(obj).items()):
            if k.startswith("_") or k in ("reader", "font"):
                continue
            if isinstance(v, int) and not isinstance(v, bool):
                if (type(obj).__name__ == "MathValueRecord" and k == "Value") or k in MATH_DESIGN_UNIT_FIELDS:
                    out["%s/%s" % (path, k)] = v
            else:
                walk(v, "%s/%s" % (path, k))

    walk(font["MATH"].table, "MATH")
    return out


class Scale(Unit):
    name = "scale-upem"
    rule = ("scale_upem(font, new) for new in {16, 500, 1000, 1024, 2000, 2048, 2500, 16384} (integer and non-integer ratios, up and down) on every corpus/generated font with glyf/CFF/CFF2 outlines (AOTS family: a rotating sixth in quick), the smallest and largest value also on a lazily loaded font; font saved and reloaded; "
            "oracle: unitsPerEm is the new value; by glyph name every HarfBuzz outline coordinate, advance and shaping advance/offset equals old*factor within the rounding budget; table set, cmap, glyph names and shaped glyph sequences unchanged; every design-unit quantity of a MATH table (value records and the plain height / overlap / connector / advance fields) equals old*factor within half a unit; distinct = (font, upem)")
    chunk = 4
    required_witnesses = ("GPOS font", "CFF font", "gvar font", "kern table", "non-integer ratio", "downscale", "lazily loaded font", "CFF FontMatrix follows the em", "MATH table")

    def setup(self, tier, seed):
        load_fonts()

    def cases(self, tier, seed):
        for key in sorted(_FONTS):
            aots = corpus.is_aots(key)
            if aots and (h64(key) + seed) % (6 if tier == "quick" else 2):
                continue
            ups = UPEMS
            if tier == "quick" and not key.startswith("tiny:"):
                ups = [UPEMS[(h64(key) + seed + i * 3) % len(UPEMS)] for i in range(3)]
            for i, u in enumerate(sorted(set(ups))):
                yield [key, u, None]
                if i in (0, len(set(ups)) - 1):
                    yield [key, u, True]

    def check(self, case, rec):
        key, new = case[:2]
        lazy = case[2] if len(case) > 2 else None
        before = base_snapshot(key, 2)
        old = before["upem"]
        if new == old:
            return
        font = TTFont(io.BytesIO(_FONTS[key]), lazy=lazy)
        if lazy:
            rec.witness("lazily loaded font")
        try:
            scale_upem(font, new)
            buf = io.BytesIO()
            font.save(buf)
        except Exception as e:
            if new > old and is_range_overflow(e):
                # the scaled value does not fit its 16-bit field: not representable, outside
                # the property's domain (only possible when scaling up)
                rec.count("upscale overflows a 16-bit field")
                return
            raise
        data = buf.getvalue()
        after = snapshot(data, 2, order=font.getGlyphOrder())
        if after["upem"] != new:
            rec.violation("scale:upem", "%s: unitsPerEm is %s after scale_upem(%s)" % (key, after["upem"], new))
        compare(before, after, new / old, rec, "scale", "%s upem %s->%s" % (key, old, new))
        if "MATH" in font:
            # MATH: every quantity the specification gives in design units (HarfBuzz' shaping does not
            # look at them; read from the files)
            mb = math_quantities(TTFont(io.BytesIO(_FONTS[key])))
            ma = math_quantities(TTFont(io.BytesIO(data)))
            rec.witness("MATH table")
            if sorted(mb) != sorted(ma):
                rec.violation("scale:math:structure", "%s upem %s->%s: MATH table has other fields after scaling" % (key, old, new))
            else:
                bad = [(k, mb[k], ma[k]) for k in sorted(mb) if abs(ma[k] - mb[k] * new / old) > 0.5 + 1e-9]
                for k, b, a in bad[:3]:
                    rec.violation("scale:math:" + k.split("/")[-1], "%s upem %s->%s: MATH %s is %d, was %d (factor %.4f)" % (key, old, new, k, a, b, new / old))
        if "CFF " in font:
            # the CFF FontMatrix maps glyph units to the em: it has to follow the units-per-em, and it has
            # to be written into the file whenever it is not the specification's default
            dflt = [0.001, 0, 0, 0.001, 0, 0]
            was = before.get("fontmatrix_stored") or dflt
            want = [v * old / new for v in was]
            got = after.get("fontmatrix_stored") or dflt
            if any(abs(a - b) > 1e-9 + 1e-6 * abs(b) for a, b in zip(got, want)):
                rec.violation("scale:cff-fontmatrix", "%s upem %s->%s: FontMatrix stored in the result %s, expected %s" % (key, old, new, after.get("fontmatrix_stored"), want))
            else:
                rec.witness("CFF FontMatrix follows the em")
            # nothing may leak into the library: a font loaded afterwards still sees the default matrix
            fresh = TTFont(io.BytesIO(_FONTS[key]))["CFF "].cff.topDictIndex[0]
            if "FontMatrix" not in fresh.rawDict and list(fresh.FontMatrix) != dflt:
                rec.violation("scale:state-leak:default-FontMatrix", "%s: after scale_upem a freshly loaded font reports the default FontMatrix %s" % (key, list(fresh.FontMatrix)))
        rec.nontrivial()
        if "GPOS" in font:
            rec.witness("GPOS font")
        if "CFF " in font or "CFF2" in font:
            rec.witness("CFF font")
        if "gvar" in font:
            rec.witness("gvar font")
        if "kern" in font:
            rec.witness("kern table")
        if (new / old) != int(new / old) and (old / new) != int(old / new):
            rec.witness("non-integer ratio")
        if new < old:
            rec.witness("downscale")


def units():
    return [Reorder(), Scale()]
