"""C10 - a built variable font reproduces each of its masters.

Enumerated: designspaces = master-location sets on user-space lattices (1 axis: every subset of
{min, 1/4, mid, 3/4, max} containing the default; 2 axes: every subset of bounded size of the 3x3
lattice containing the default; 3 axes: default + corners + at most one (thorough: two) further lattice points)
x default at an end / in the middle x axis map {none, lin (knots at min/default/max: 2 when the
default is at an end), bent (+1 knot off the line)} x outline kind {TrueType -> gvar, CFF -> CFF2}
x content {outlines, composites, pair+class kerning, kerning with differing pair sets, mark
anchors, OS/2-hhea-post metrics (MVAR), sparse glyph master, sparse layout master}
x IUP optimisation on/off x source order (default master first / not first); every family has a
probe glyph whose deltas are almost, but not within 0.5, inferable (IUP must keep them); plus
every corpus designspace bound to its TTX masters (compiled, as the test-suite hands them over).

Oracle: varLib.build result saved and reopened; at every master's location - user coordinates
obtained from the source's design location through the inverse axis map of oracles.c10_ref,
handed to HarfBuzz, which applies fvar + avar - outlines, advances, shaped kerning and mark
offsets (all pairs of the alphabet) and the MVAR-varied metrics equal the static master's within
the budget stated in oracles/c10_observe.py; HVAR is also evaluated exactly (Fractions).
fvar min/default/max equal the designspace's; fvar normalisation + avar segment map, evaluated
from the table contents by the reference, equals the designspace map at every knot and midpoint.
The default master is reproduced exactly.

Why the budget is 0.5 and not 0.5 per delta set: VariationModel.getDeltas computes delta_i =
round(master_i - sum_j w_ij * delta_j) with the *rounded* deltas of earlier masters, and every
later region is 0 at master i, so the interpolated value at master i is master_i + (rounding of
delta_i).  Additional half units come only from values that are sums of separately varied
quantities (component offset + component points, left phantom point, IUP-inferred deltas).
"""
from mc import env  # noqa: F401
from mc.kernel import Unit

import io
import itertools
from fractions import Fraction as F

from fontTools import varLib
from fontTools.ttLib import TTFont

from oracles import c10_masters as cm
from oracles import c10_observe as ob
from oracles import c10_ref as ref
from oracles import dscorpus, geom, tinyfont

LEVEL = "exploration"
ASSUMPTIONS = [
    "HarfBuzz 12.1 (uharfbuzz 0.52) is the observer of outlines, advances, shaping and MVAR deltas; it rounds advance and GPOS deltas to integers after summing, so k separately varied components may differ by k units on an exact rounding tie",
    "fontTools' table readers (TTFont decompile of fvar/avar/gvar/HVAR/hmtx/OS-2/hhea/post of the saved font and of the static masters) are trusted as readers; what is under test is varLib's construction of those tables",
    "hhea ascender/descender/lineGap have no MVAR tag and cannot vary: only the MVAR-tagged OS/2, hhea caret, vhea and post fields are compared",
    "generated lattices normalise exactly on the 2.14 grid in user and design space (asserted), so the quantisation budget is exactly 0 there; corpus designspaces use the computed bound",
    "corpus designspaces with <rules> are not compared by shaping (feature variations substitute glyphs at some master locations by design); avar2 <mappings> designspaces are evaluated at the post-avar normalised location",
    "sparse masters: an empty glyph in a non-default master stands for a missing glyph (varLib's documented reading), advance 0xFFFF and post underline -0x8000 are 'missing' sentinels: such values are not compared at that master",
    "VERIF_SEED only picks the coefficient that perturbs every generated coordinate/metric value",
]

COEFS = (0, 3, 7, 11)
CONTENTS = ("outl", "comp", "kern", "kernx", "mark", "mvar", "sparseg", "sparsee", "sparsel")
OPT_OFF_CONTENTS = ("outl", "comp", "sparseg")

_MASTERS = {}


REQUIRED = ("head", "hhea", "hmtx", "maxp")


class Master:
    def __init__(self, data, label, hint_limit=None, tt=None):
        """tt: in-memory TTFont of a sparse master that is not a complete font (observed through
        its tables); else data = sfnt bytes (observed through HarfBuzz)."""
        self.data = data
        self.label = label
        self.view = ob.FontView(data, tt=tt)
        t = self.view.tt
        self.complete = tt is None
        self.loadable = self.view.kind is not None and "hmtx" in t
        self.names = list(self.view.order)
        self.texts = []
        if self.complete and self.view.cmap:
            if hint_limit:
                cps = ob.pair_glyph_hints(t, hint_limit)
            else:
                cps = sorted(self.view.cmap)
            marks = self.view.marks()
            mcps = [c for c in cps if self.view.cmap[c] in marks]
            self.texts = ob.texts_for(cps, mcps)
        self.obs = None
        if self.loadable:
            self.obs = ob.observe(self.view, self.names, self.texts) if self.complete else ob.observe_tables(t, self.names)


def gen_master(fam, idx, sparse):
    key = (fam["kind"], fam["content"], fam["coef"], fam["naxes"], tuple(fam["dflt"]), tuple(idx), bool(sparse))
    m = _MASTERS.get(key)
    if m is None:
        if len(_MASTERS) > 400:
            _MASTERS.clear()
        m = _MASTERS[key] = Master(cm.static_master(fam, tuple(idx), sparse=sparse), "master@%s%s" % (list(idx), " (sparse)" if sparse else ""))
    return m


# ----------------------------------------------------------------------------- the oracle
def axis_slope(a):
    """Largest slope of the designspace map of one axis in normalised (user -> design) space."""
    tri = (F(a["min"]), F(a["default"]), F(a["max"]))
    knots = sorted({F(u) for u, _d in a["map"]} | set(tri))
    slope, narrow = F(1), False
    for u0, u1 in zip(knots, knots[1:]):
        n0, n1 = ref.normalize(u0, *tri), ref.normalize(u1, *tri)
        if n1 - n0 < F(1, 1024):
            narrow = narrow or n1 != n0
            continue
        slope = max(slope, (ref.ds_user_to_norm(a, u1) - ref.ds_user_to_norm(a, u0)) / (n1 - n0))
    return slope, narrow, knots


def check_axes(vf, axes, viol, rec, avar2, cls):
    fa = vf.axes()
    if [t for t, _ in fa] != [a["tag"] for a in axes]:
        viol("fvar:axes:" + cls, "fvar axes %s, designspace axes %s" % ([t for t, _ in fa], [a["tag"] for a in axes]))
        return False
    segs = vf.avar_segments()
    ok = True
    for a, (tag, triple) in zip(axes, fa):
        want = (F(a["min"]), F(a["default"]), F(a["max"]))
        if any(abs(x - y) > F(1, 1 << 17) for x, y in zip(triple, want)):
            viol("fvar:axis-range:" + cls, "axis %s: fvar (min, default, max) = %s, designspace %s" % (tag, [float(x) for x in triple], [float(x) for x in want]))
            ok = False
            continue
        if avar2:
            continue
        seg = segs.get(tag, {})
        slope, narrow, knots = axis_slope(a)
        if narrow:
            rec.count("axis map with knots closer than 2^-10: avar comparison skipped")
            continue
        pts = knots + [(u0 + u1) / 2 for u0, u1 in zip(knots, knots[1:])]
        tol = (slope + 1) * ref.Q14 * F(5, 4) + ref.Q14
        nontriv = False
        for u in pts:
            got = ref.font_user_to_norm(triple, seg, u)
            exp = ref.ds_user_to_norm(a, u)
            if exp != ref.normalize(u, *want):
                nontriv = True
            if abs(got - exp) > tol:
                viol("avar:user-to-normalised:" + cls, "axis %s: user value %s normalises to %.6f through the font's fvar+avar, to %.6f through the designspace map (tolerance %.6f); avar segment %s"
                     % (tag, float(u), float(got), float(exp), float(tol), sorted((float(k), float(v)) for k, v in seg.items())))
                ok = False
                break
        rec.evals(len(pts))
        if nontriv:
            rec.witness("axis map bends the normalised scale (avar needed)")
            if len(seg) > 3:
                rec.witness("avar segment with an extra knot built")
    return ok


def glyph_budget(vf, m, g, loc, opt, depth=0):
    """(rounding budget, delta magnitude) of glyph g of the variable font at `loc`."""
    if vf.kind != "glyf":
        return None
    tuples = vf.gvar_tuples(g)
    own, mag = 0.0, 0.0
    if tuples:
        own = 0.5
        if opt:
            own += 0.5 * float(sum(ref.region_scalar(loc, r) for r, _m in tuples))
        mag = float(sum(mg for _r, mg in tuples))
    if vf.lsb_shift(g) or (g in m.view.gid and m.view.lsb_shift(g)):
        own *= 2
    sub, submag = 0.0, 0.0
    if depth < 8:
        for c in vf.components(g):
            b, mg = glyph_budget(vf, m, c, loc, opt, depth + 1)
            sub, submag = max(sub, b), max(submag, mg)
    return own + sub, mag + submag


def raw_streams_close(ra, rb, tol):
    """Point-by-point comparison of two raw pen recordings of the same glyph structure."""
    if len(ra) != len(rb):
        return "contour count %d vs %d" % (len(ra), len(rb))
    for (ca, sa, ga), (cb, sb, gb) in zip(ra, rb):
        pa = [tuple(sa)] + [tuple(p) for g in ga for p in g[2:]]
        pb = [tuple(sb)] + [tuple(p) for g in gb for p in g[2:]]
        while len(pa) > 1 and pa[-1] == pa[0]:
            pa.pop()
        while len(pb) > 1 and pb[-1] == pb[0]:
            pb.pop()
        if len(pa) == len(pb) + 1:
            pb = pb + [pb[0]]
        elif len(pb) == len(pa) + 1:
            pa = pa + [pa[0]]
        if len(pa) != len(pb):
            return "contour point count %d vs %d" % (len(pa), len(pb))
        for p, q in zip(pa, pb):
            if abs(p[0] - q[0]) > tol or abs(p[1] - q[1]) > tol:
                return "point %s vs %s (tolerance %.3f)" % (p, q, tol)
    return None


def check_vf(vfdata, axes, masters, rec, opt, cls, where, rules=False, avar2=False, require_exact=False):
    """masters: [(Master, [design coordinate per axis], is_default)]."""
    def viol(fkey, msg):
        rec.violation(fkey, where + ": " + msg)

    vf = ob.FontView(vfdata)
    if "fvar" not in vf.tt:
        viol("fvar:missing:" + cls, "the built font has no fvar")
        return
    axes_ok = check_axes(vf, axes, viol, rec, avar2, cls)
    if not axes_ok and not avar2:
        rec.count("master comparison skipped: fvar/avar wrong")
        return
    naxes = len(axes)
    enum = ob._metric_enum()
    # exact normalised design location of every master
    xs = [[ref.ds_design_to_norm(a, d) for a, d in zip(axes, design)] for _m, design, _d in masters]
    inexact_axis = [any(ref.q14(x[i]) != x[i] for x in xs) for i in range(naxes)]
    wmin = []
    for i in range(naxes):
        vals = sorted({F(-1), F(0), F(1)} | {ref.q14(x[i]) for x in xs})
        wmin.append(min(b - a for a, b in zip(vals, vals[1:])))
    default_obs = None
    for (m, _design, is_def) in masters:
        if is_def:
            default_obs = m.obs
    hv = vf.hvar()
    iup_seen = False
    if vf.kind == "glyf" and "gvar" in vf.tt:
        for g in vf.order:
            for tv in vf.tt["gvar"].variations.get(g, []):
                if None in tv.coordinates:
                    iup_seen = True
        if iup_seen:
            rec.witness("IUP-optimised tuple (inferred deltas) in gvar")
    nontrivial = False
    for (m, design, is_def), x in zip(masters, xs):
        if not m.loadable:
            rec.count("master without outlines or hmtx: skipped")
            continue
        # ---- location
        if avar2:
            vf.hb.set_normalized([float(v) for v in x])
            rec.count("avar2 designspace: location set post-avar")
        else:
            user = [ref.pl_backward(a["map"], d) for a, d in zip(axes, design)]
            if any(u is None for u in user):
                rec.count("master design location outside the axis map: skipped")
                continue
            vf.hb.set_location({a["tag"]: float(u) for a, u in zip(axes, user)})
        got = list(vf.hb.font.get_var_coords_normalized())
        got += [0] * (naxes - len(got))
        xp = [F(v) / 16384 if isinstance(v, int) else F(v) for v in got]
        E = [abs(p - q) for p, q in zip(xp, x)]
        bad_loc = False
        if not avar2:
            for a, e, p, q in zip(axes, E, xp, x):
                slope, narrow, _k = axis_slope(a)
                tolA = (slope + 1) * ref.Q14 * F(5, 4) + ref.Q14
                if e > tolA and not narrow:
                    viol("avar:master-location:" + cls, "%s: axis %s: HarfBuzz normalises the master's user location to %.6f, the designspace puts the master at %.6f" % (m.label, a["tag"], float(p), float(q)))
                    bad_loc = True
        if bad_loc:
            continue
        exact = not any(E) and not any(inexact_axis)
        efactor = 0.0 if exact else float(sum((e + (F(1, 32768) if ia else 0)) * F(101, 100) / w for e, ia, w in zip(E, inexact_axis, wmin)))
        if exact:
            rec.witness("master location exactly on the 2.14 grid")
        elif require_exact:
            raise AssertionError("engine self-check: a generated lattice position does not normalise exactly on the 2.14 grid: %s vs %s" % ([float(v) for v in xp], [float(v) for v in x]))
        else:
            rec.witness("master location off the 2.14 grid (quantisation budget applies)")
        names = [n for n in m.names if n in vf.gid]
        vobs = ob.observe(vf, names, m.texts if not rules else [])
        rec.evals(len(names) + len(m.texts))
        lbl = m.label
        # ---- outlines and advances
        qh = vf.store_magnitude("HVAR") * efactor
        for n in names:
            mc, madv, mnpts, mraw = m.obs["glyphs"][n]
            vc, vadv, vnpts, vraw = vobs["glyphs"][n]
            dflt_has = default_obs is not None and n in default_obs["glyphs"] and bool(default_obs["glyphs"][n][0])
            skip_outline = False
            if not is_def and not mc and dflt_has:
                skip_outline = True  # sparse master: empty glyph = missing glyph
                rec.witness("sparse master: empty glyph treated as missing")
            if not skip_outline:
                if is_def:
                    tol = 1e-6
                elif vf.kind == "glyf":
                    b, mag = glyph_budget(vf, m, n, xp, opt)
                    tol = b + mag * efactor + ob.EPS
                else:
                    mag = vf.cff2_delta_sum(n) if vf.kind == "cff2" and not exact else 0.0
                    tol = 0.0101 * max(vnpts, 1) + mag * efactor + ob.EPS
                msg = geom.contours_close(vc, mc, tol)
                if msg and geom.contours_close(ob.merge_axis_lines(vc), ob.merge_axis_lines(mc), tol) is None:
                    rec.count("outline equal after joining collinear axis-parallel lines")
                    msg = None
                if msg:
                    msg2 = raw_streams_close(vraw, mraw, tol)
                    if msg2:
                        kindkey = vf.kind + ("-composite" if vf.components(n) else "")
                        viol("outline:%s:%s%s" % (kindkey, cls, ":default-master" if is_def else ""),
                             "%s glyph %r: variable font at the master's location draws a different outline (budget %.3f): %s / %s" % (lbl, n, tol, msg, msg2))
                if default_obs is not None and not is_def and mc and n in default_obs["glyphs"] and geom.contours_close(mc, default_obs["glyphs"][n][0], 2.0):
                    nontrivial = True
                    if vf.kind == "glyf":
                        rec.witness("composite glyph varies" if vf.components(n) else "gvar glyph varies")
                    else:
                        rec.witness("cff2 blended glyph varies")
            if m.complete and "vmtx" in m.view.tt and "vmtx" in vf.tt:
                va, vb = vf.hb.v_advance(vf.gid[n]), m.view.hb.v_advance(m.view.gid[n])
                if abs(va - vb) > (0 if is_def else int(1 + vf.store_magnitude("VVAR") * efactor)):
                    viol("advance:vertical:%s%s" % (cls, ":default-master" if is_def else ""), "%s glyph %r: vertical advance %s at the master's location, master has %s" % (lbl, n, va, vb))
                if default_obs is not None and not is_def and "VVAR" in vf.tt:
                    rec.witness("vertical advances compared (VVAR)")
            if "hmtx" not in m.view.tt:
                continue
            m_adv_tt = m.view.tt["hmtx"].metrics[n][0]
            if m_adv_tt == 0xFFFF and not is_def:
                rec.witness("sparse master: advance sentinel")
                continue
            ktol = 0 if is_def else int(1 + qh)
            if abs(vadv - madv) > ktol:
                viol("advance:harfbuzz:%s%s" % (cls, ":default-master" if is_def else ""), "%s glyph %r: advance %s at the master's location, master has %s" % (lbl, n, vadv, madv))
            elif vadv != madv:
                rec.count("HarfBuzz integer rounding tie (advance off by one)")
            if hv is not None:
                store, amap = hv
                base = vf.tt["hmtx"].metrics[n][0]
                varidx = amap[n] if amap is not None else vf.gid[n]
                val = base + store.delta(varidx, xp)
                tolh = 0 if is_def else 0.5 + qh + 1e-9
                if abs(val - m_adv_tt) > tolh:
                    viol("advance:hvar-exact:%s%s" % (cls, ":default-master" if is_def else ""), "%s glyph %r: hmtx %s + HVAR delta %.4f = %.4f at the master's location, master has %s (budget %.4f)" % (lbl, n, base, float(val - base), float(val), m_adv_tt, tolh))
                if default_obs is not None and not is_def and n in default_obs["glyphs"] and abs(default_obs["glyphs"][n][1] - madv) > 2:
                    rec.witness("HVAR advance varies")
        # ---- shaping
        if m.texts and not rules:
            if "GPOS" in vf.tt and "GPOS" not in m.view.tt:
                rec.witness("sparse master: no layout tables (shaping not compared there)")
            else:
                out = []
                qg = vf.store_magnitude("GDEF") * efactor
                notes = []
                ob.compare_shape(vobs["shape"], m.obs["shape"], lbl, out, 0 if is_def else int(1 + qg), ds=default_obs["shape"] if default_obs else None, notes=notes)
                for nt in notes[:1]:
                    rec.count(nt, len(notes))
                for fkey, msg in out[:6]:
                    viol("%s:%s%s" % (fkey, cls, ":default-master" if is_def else ""), msg)
                if default_obs is not None and not is_def:
                    note_layout_variation(m.obs["shape"], default_obs["shape"], vobs["shape"], rec)
        elif rules:
            rec.count("designspace with <rules>: shaping not compared")
        # ---- font-wide metrics through MVAR
        qm = vf.store_magnitude("MVAR") * efactor
        for tag, (table, field) in sorted(ob.MVAR_TAGS.items()):
            if table not in m.view.tt or table not in vf.tt:
                continue
            mt, vt = m.view.tt[table], vf.tt[table]
            if not hasattr(mt, field) or not hasattr(vt, field):
                continue
            mval = getattr(mt, field)
            if tag in ("unds", "undo") and mval == -0x8000:
                continue
            delta = vf.hb.font.get_metric_variation(enum[ob._tagint(tag)])
            val = getattr(vt, field) + delta
            tolm = 1e-6 if is_def else 0.5 + qm + ob.EPS
            if abs(val - mval) > tolm:
                viol("mvar:%s:%s%s" % (tag, cls, ":default-master" if is_def else ""), "%s: %s.%s = %s + MVAR delta %.4f = %.4f at the master's location, master has %s" % (lbl, table, field, getattr(vt, field), delta, val, mval))
            if not is_def and abs(delta) > 2:
                rec.witness("MVAR metric varies")
            rec.evals(1)
        if is_def:
            rec.witness("default master compared exactly")
    vf.hb.set_location({})
    if nontrivial:
        rec.nontrivial()


def note_layout_variation(mshape, dshape, vshape, rec):
    """Witnesses: the master's kerning / mark offsets differ from the default master's."""
    for t, row in mshape.items():
        d = dshape.get(t)
        if d is None or len(d) != len(row):
            continue
        for x, y in zip(row, d):
            if x[8]:
                if abs(x[5] - y[5]) > 4 or abs(x[6] - y[6]) > 4:
                    rec.witness("mark offset varies")
            elif x[2] and abs(x[2] - y[2]) > 2:
                rec.witness("kerning varies")
            elif (x[2] != 0) != (y[2] != 0):
                rec.witness("kerning pair present in some masters only")
    for t, row in vshape.items():
        b = mshape.get(t)
        if b and any(p[2] != q[2] or p[5] != q[5] or p[6] != q[6] for p, q in zip(row, b)):
            rec.count("HarfBuzz integer rounding tie (GPOS value off by one)")
            break


# ----------------------------------------------------------------------------- enumeration
def is_intermediate(idx, dflt):
    return any(i not in (0, 4) and i != d for i, d in zip(idx, dflt))


def sparse_index(midx, dflt):
    cand = [i for i, idx in enumerate(midx) if i and is_intermediate(idx, dflt)]
    if cand:
        return cand[0]
    return len(midx) - 1 if len(midx) > 1 else None


ROT_CONTENTS = ("outl", "kern", "sparseg")


def variants(naxes, dflt, midx, coef, contents=CONTENTS, maps=("none", "lin", "bent"), kinds=("ttf", "cff")):
    """Case descriptors (dicts) of one master set.  "rot": the designspace lists its sources
    rotated by that many places (the default master is then not the first source)."""
    for mapk in maps:
        for kind in kinds:
            for content in contents:
                if content in ("comp", "sparsee") and kind == "cff":
                    continue
                sp = None
                if content in ("sparseg", "sparsee", "sparsel"):
                    sp = sparse_index(midx, dflt)
                    if sp is None:
                        continue
                base = {"n": naxes, "d": list(dflt), "m": [list(i) for i in midx], "map": mapk, "kind": kind, "content": content, "opt": True, "sp": sp, "coef": coef, "rot": 0}
                yield base
                if kind == "ttf" and content in OPT_OFF_CONTENTS and mapk == "none":
                    yield dict(base, opt=False)
                if len(midx) > 1 and content in ROT_CONTENTS and mapk == "lin":
                    yield dict(base, rot=1)
                    if len(midx) > 2:
                        yield dict(base, rot=len(midx) - 1)
                if mapk == "bent" and content in ("outl", "mvar"):
                    # a second map shape: two extra knots, the first of them on the normalised diagonal
                    yield dict(base, map="bent2")


class Generated(Unit):
    chunk = 12
    naxes = 1

    def bounds(self, tier, seed):
        return {"coef": COEFS[seed % len(COEFS)], "axes": self.naxes, "contents": list(CONTENTS), "maps": ["none", "lin", "bent"], "kinds": ["ttf", "cff"]}

    def setup(self, tier, seed):
        self.coef = COEFS[seed % len(COEFS)]

    def setup_replay(self):
        pass

    def check(self, case, rec):
        naxes, dflt, midx, mapk, kind, content, opt, sp, coef, rot = (case[k] for k in ("n", "d", "m", "map", "kind", "content", "opt", "sp", "coef", "rot"))
        fam = dict(naxes=naxes, dflt=dflt, map=mapk, kind=kind, content=content, coef=coef)
        axes = cm.fam_axes(fam)
        entries = [(idx, gen_master(fam, idx, sparse=(i == sp))) for i, idx in enumerate(midx)]
        entries = entries[rot:] + entries[:rot]
        fonts = [TTFont(io.BytesIO(m.data)) for _idx, m in entries]
        ds = cm.designspace(fam, [tuple(idx) for idx, _m in entries], fonts, axes)
        vf, _model, _ = varLib.build(ds, optimize=opt)
        data = tinyfont.to_bytes(vf)
        masters = [(m, [ax["design"][i] for ax, i in zip(axes, idx)], list(idx) == list(dflt)) for idx, m in entries]
        where = "%d-axis %s/%s map=%s default=%s masters=%s (source order rotated by %d) optimize=%s coef=%d" % (naxes, kind, content, mapk, dflt, midx, rot, opt, coef)
        check_vf(data, axes, masters, rec, opt, "%s/%s" % (kind, content), where, require_exact=True)
        # shape witnesses of the input
        others = [idx for idx in midx if list(idx) != list(dflt)]
        if not others:
            rec.witness("single master (no variation)")
        if any(is_intermediate(i, dflt) for i in others):
            rec.witness("intermediate master")
        if others and all(all(i in (0, 4) for i in idx) for idx in midx):
            rec.witness("corner-only master set")
        if naxes >= 2:
            if any(sum(1 for i, d in zip(idx, dflt) if i != d) >= 2 for idx in others):
                rec.witness("off-axis master")
            if others and all(sum(1 for i, d in zip(idx, dflt) if i != d) == 1 for idx in others):
                rec.witness("on-axis-only master set")
        if not opt:
            rec.witness("optimize=False build")
        if rot:
            rec.witness("default master is not the first source")
        if sp is not None:
            rec.witness("sparse %s master" % ("glyph" if content in ("sparseg", "sparsee") else "layout"))
            if content == "sparsee":
                rec.witness("sparse master with empty glyphs (composite among them)")
        rec.witness("default %s" % ("at an end" if all(d in (0, 4) for d in dflt) else "in the middle" if all(d == 2 for d in dflt) else "mixed end/middle"))


COMMON_WITNESSES = (
    "intermediate master", "default master compared exactly", "master location exactly on the 2.14 grid",
    "axis map bends the normalised scale (avar needed)", "avar segment with an extra knot built",
    "gvar glyph varies", "composite glyph varies", "cff2 blended glyph varies", "HVAR advance varies",
    "kerning varies", "kerning pair present in some masters only", "mark offset varies", "MVAR metric varies",
    "sparse glyph master", "sparse layout master", "sparse master: no layout tables (shaping not compared there)",
    "IUP-optimised tuple (inferred deltas) in gvar", "optimize=False build", "default at an end", "default in the middle",
    "default master is not the first source", "sparse master with empty glyphs (composite among them)",
)


class OneAxis(Generated):
    name = "generated-1axis"
    naxes = 1
    rule = ("1 axis, 5 user positions {min,1/4,mid,3/4,max}: EVERY subset containing the default x default at {min, mid} (thorough: + max, and all four value coefficients) x map {none, lin, bent; bent2 = two knots, one on the normalised diagonal, for outl/mvar} x {ttf, cff} x 9 contents (+ optimize=False for glyph contents, + rotated source order for outl/kern/sparseg); "
            "oracle: VF at each master's user location (HarfBuzz: fvar+avar+gvar/CFF2/HVAR/GPOS/MVAR) == static master within the derived budget, default master exact, fvar/avar == designspace maps at knots and midpoints; distinct = designspace with a varying non-default master")
    required_witnesses = COMMON_WITNESSES + ("single master (no variation)",)

    def cases(self, tier, seed):
        coefs = (self.coef,) if tier == "quick" else COEFS
        for coef in coefs:
            for d in ((0, 2) if tier == "quick" else (0, 2, 4)):
                rest = [i for i in range(5) if i != d]
                for r in range(0, 5):
                    for sub in itertools.combinations(rest, r):
                        midx = [(d,)] + [(i,) for i in sub]
                        yield from variants(1, (d,), midx, coef)


class TwoAxes(Generated):
    name = "generated-2axis"
    naxes = 2
    chunk = 24
    rule = ("2 axes, 3x3 user lattice {min,mid,max}^2: EVERY subset of size <=4 (thorough <=6) containing the default (corner-only, on-axis-only, intermediate and off-axis masters) x default at {(min,min), (mid,mid), (min,mid)} (thorough: + (max,max), (mid,min)) "
            "x map x kind x content as generated-1axis; same oracle")
    required_witnesses = COMMON_WITNESSES + ("off-axis master", "on-axis-only master set", "corner-only master set", "default mixed end/middle")

    def cases(self, tier, seed):
        lattice = [(i, j) for i in (0, 2, 4) for j in (0, 2, 4)]
        dfl = [(0, 0), (2, 2), (0, 2)] + ([(4, 4), (2, 0)] if tier == "thorough" else [])
        size = 4 if tier == "quick" else 6
        for d in dfl:
            rest = [p for p in lattice if p != d]
            for r in range(0, size):
                for sub in itertools.combinations(rest, r):
                    midx = [d] + list(sub)
                    yield from variants(2, d, midx, self.coef)


class ThreeAxes(Generated):
    name = "generated-3axis"
    naxes = 3
    chunk = 6
    rule = ("3 axes, 3x3x3 user lattice: default at (min,min,min) or (mid,mid,mid) + the 8 corners + at most ONE (thorough: TWO) further lattice points (every choice) x map x kind x content as generated-1axis; same oracle")
    required_witnesses = tuple(w for w in COMMON_WITNESSES if w not in ("default in the middle",)) + ("off-axis master",)

    def cases(self, tier, seed):
        lattice = list(itertools.product((0, 2, 4), repeat=3))
        corners = [p for p in lattice if all(i in (0, 4) for i in p)]
        for d in ((0, 0, 0), (2, 2, 2)):
            base = [d] + [c for c in corners if c != d]
            extra = [p for p in lattice if p not in base]
            sets = [base] + [base + [e] for e in extra]
            if tier == "thorough":
                sets += [base + [e, f] for e, f in itertools.combinations(extra, 2)]
            for midx in sets:
                yield from variants(3, d, midx, self.coef)


# ----------------------------------------------------------------------------- corpus
_CORPUS = {}


class Corpus(Unit):
    name = "corpus-designspaces"
    chunk = 1
    rule = ("every designspace of Tests/varLib/data bound to its TTX masters (all master_* bindings) x optimize {True, False}: varLib.build, saved and reopened; every TTX master compiled and compared with the VF at that master's location "
            "(glyphs the master has; outlines, advances, HVAR exact, shaping of all pairs over <=24 characters preferring GPOS-covered glyphs, MVAR metrics) within the budget incl. the computed 2.14 quantisation bound; fvar/avar vs designspace maps; distinct = (designspace binding, optimize)")
    required_witnesses = ("default master compared exactly", "master location off the 2.14 grid (quantisation budget applies)", "gvar glyph varies", "cff2 blended glyph varies",
                          "kerning varies", "avar segment with an extra knot built", "sparse master: empty glyph treated as missing", "HVAR advance varies",
                          "vertical advances compared (VVAR)", "incomplete sparse master observed through its tables", "kerning pair present in some masters only", "MVAR metric varies")

    def setup(self, tier, seed):
        if not _CORPUS:
            for name, path, mapping in dscorpus.corpus_designspaces():
                _CORPUS[name] = (path, mapping)

    def cases(self, tier, seed):
        for name in sorted(_CORPUS):
            yield [name, True]
            yield [name, False]

    def bounds(self, tier, seed):
        return {"designspaces": len(_CORPUS)}

    def check(self, case, rec):
        name, opt = case
        path, mapping = _CORPUS[name]
        ds = dscorpus.load(path, mapping)
        axes = []
        for a in ds.axes:
            if not hasattr(a, "minimum"):
                rec.count("discrete axis: designspace skipped")
                return
            axes.append(dict(tag=a.tag, name=a.name, min=a.minimum, default=a.default, max=a.maximum, map=[(F(u), F(d)) for u, d in a.map]))
        masters = []
        for s in ds.sources:
            design = []
            for a in axes:
                v = s.location.get(a["name"])
                if isinstance(v, tuple):
                    v = v[0]
                design.append(F(v) if v is not None else ref.pl_forward(a["map"], a["default"]))
            tt = TTFont()
            tt.importXML(s.path)
            if all(t in tt for t in REQUIRED):
                # as the test-suite does: masters are compiled and handed over as binary fonts
                buf = io.BytesIO()
                tt.save(buf)
                data = buf.getvalue()
                s.font = TTFont(io.BytesIO(data))
                masters.append([Master(data, "master %s" % s.filename, hint_limit=24), design, False])
            else:
                # sparse master that is not a complete font: varLib reads the TTX itself, the
                # oracle reads the master's tables (no HarfBuzz, no shaping)
                rec.witness("incomplete sparse master observed through its tables")
                masters.append([Master(None, "master %s" % s.filename, tt=tt), design, False])
        for m in masters:
            x = [ref.ds_design_to_norm(a, d) for a, d in zip(axes, m[1])]
            m[2] = not any(x)
        vf, _model, _ = varLib.build(ds, optimize=opt)
        data = tinyfont.to_bytes(vf)
        check_vf(data, axes, [tuple(m) for m in masters], rec, opt, name.split("~")[0], "%s optimize=%s" % (name, opt), rules=bool(ds.rules), avar2=bool(ds.axisMappings))
        if not opt:
            rec.witness("optimize=False build")


def units():
    return [OneAxis(), TwoAxes(), ThreeAxes(), Corpus()]
